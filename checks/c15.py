"""C15 -- every shipped model entry is well-formed and can be costed.

T : every non-empty osaca/data/*.yml and both ISA DBs are re-emitted as Coq data (tools/gen_c15.py, through
    the repo's own loader + raw YAML cross-check) into coq/Gen/Data_<file>.v; the per-file theorems
    PropsGen/C15_<file>.v (all_wf / tables_wf / counts / costable / positions) are re-checked against them,
    on top of the general theorems Props/C15.v (wf_costs ...).
X : (a) the real `osaca --arch A --db-check` is run; its three counts are written to Gen/DbCheck_<A>.v and
        counts_<A> proves them equal to the counts Coq computes from the regenerated data;
    (b) the model avg_pressure is compared with the real MachineModel.average_port_pressure on every
        distinct shipped assignment and on seeded malformed variants (misspelt port, wrong nesting, ...);
    (c) one instruction synthesised from each entry's operand pattern is costed by the real
        assign_src_dst + assign_tp_lt + assign_optimal_throughput (quick: seeded sample, thorough: all).
Search: every entry / table slot that Coq's checker rejects is replayed on the real costing code and reported
    as a concrete failing input (file + entry name/operands + offending assignment).
"""
import json
import os
import re
import subprocess
import time

import vlib
import gen_c15
import c15_data
import c15_cost
import c15_dbcheck
from vlib import coq_string as cs

FINISH = dict(level="proof",
              rule="exhaustive over the shipped data: every instruction form of every non-empty model file and ISA DB, "
                   "every load/store row and default (Coq sweep by vm_compute, bound = the regenerated file); "
                   "average_port_pressure correspondence on every distinct assignment + seeded malformed variants; "
                   "costing of one synthesised instruction per entry (quick: seeded sample, thorough: all); an "
                   "evaluation is non-trivial when the entry has a non-empty micro-op list")

GEN = os.path.join(vlib.COQ, "Gen")


def mod_of(kind, name):
    return "Data_" + (("isa_" + name) if kind == "isa" else name)


def par(cmds, env=None, cwd=None, jobs=16):
    """run shell/argv commands in parallel; returns [(rc, output, secs)]"""
    res = [None] * len(cmds)
    pending = list(enumerate(cmds))
    running = []
    while pending or running:
        while pending and len(running) < jobs:
            i, c = pending.pop(0)
            running.append((i, time.time(), subprocess.Popen(c, shell=isinstance(c, str), cwd=cwd, env=env, text=True,
                                                             stdout=subprocess.PIPE, stderr=subprocess.STDOUT)))
        still = []
        for i, t, p in running:
            if p.poll() is None:
                still.append((i, t, p))
            else:
                res[i] = (p.returncode, p.stdout.read(), time.time() - t)
        running = still
        if running:
            time.sleep(0.03)
    return res


def coqc_cmd(vfile, timeout=600):
    return "ulimit -s unlimited 2>/dev/null; exec timeout %d coqc -q -w -all -Q %s OV %s" % (timeout, vlib.COQ, vfile)


# ------------------------------------------------------------------------------------------ T
def translate_all(ctx, files):
    env = vlib.repo_env(home=ctx.home)
    t = time.time()
    cmds = [[vlib.PY, os.path.join(vlib.VERIF, "tools", "gen_c15.py"), k, n,
             c15_data.isa_path(n) if k == "isa" else c15_data.yaml_path(n), GEN] for k, n in files]
    ok = {}
    for (k, n), (rc, out, dt) in zip(files, par(cmds, env=env)):
        try:
            r = json.loads(out.strip().splitlines()[-1])
        except Exception:
            r = {"ok": False, "err": out[-1500:]}
        ok[(k, n)] = r["ok"]
        ctx.obligation("translate %s%s.yml through the repo's loader (raw YAML view agrees)" % ("isa/" if k == "isa" else "", n),
                       "translation", r["ok"], "" if r["ok"] else r.get("err", "") + "\n" + r.get("trace", ""))
        if not r["ok"]:
            # the file does not load / cannot be transcribed: that is a concrete failing input by itself
            ctx.violation("%s:does-not-load" % n, "model file %s%s.yml cannot be loaded/transcribed: %s" % (
                "isa/" if k == "isa" else "", n, r.get("err", "")[:300]), {"kind": "load", "file_kind": k, "name": n})
    ctx.log("translated %d files in %.1fs" % (len(files), time.time() - t))
    return ok


def compile_data(ctx, files):
    t = time.time()
    res = par([coqc_cmd(os.path.join(GEN, mod_of(k, n) + ".v")) for k, n in files], cwd=GEN)
    ok = {}
    for (k, n), (rc, out, dt) in zip(files, res):
        ok[(k, n)] = rc == 0
        size = os.path.getsize(os.path.join(GEN, mod_of(k, n) + ".v"))
        ctx.obligation("generated Gen/%s.v type-checks (%d kB)" % (mod_of(k, n), size // 1024), "translation", rc == 0, out)
    ctx.checker_cmds.append("coqc -Q coq OV coq/Gen/Data_*.v (parallel)")
    ctx.log("compiled %d data files in %.1fs" % (len(files), time.time() - t))
    return ok


# ------------------------------------------------------------------------------------------ X(a)
def run_dbcheck(ctx, archs):
    env = vlib.repo_env(home=ctx.home)
    t = time.time()
    cmds = [[vlib.PY, os.path.join(vlib.VERIF, "harness", "c15_dbcheck.py"), c15_data.data_dir(), a] for a in archs]
    out = {}
    for a, (rc, o, dt) in zip(archs, par(cmds, env=env)):
        try:
            r = json.loads(o.strip().splitlines()[-1])
        except Exception:
            r = {"arch": a, "ok": False, "err": o[-1500:]}
        out[a] = r
        with open(os.path.join(GEN, "DbCheck_%s.v" % a), "w") as f:
            f.write("(* GENERATED by checks/c15.py: what the real `osaca --arch %s --db-check` printed in this run *)\n" % a)
            if r["ok"]:
                f.write("Definition dbcheck_counts : nat * nat * nat := (%d, %d, %d).\nDefinition dbcheck_total : nat := %d.\n"
                        % (r["tp"], r["lt"], r["pp"], r["total"]))
            else:
                f.write("(* --db-check failed: %s *)\n" % r.get("err", "").replace("*)", "* )")[:300])
        ctx.obligation("`osaca --arch %s --db-check` runs and prints its three counts" % a, "correspondence", r["ok"], r.get("err", ""))
        if not r["ok"]:
            ctx.violation("%s:db-check-crashes" % a, "`osaca --arch %s --db-check` raises %s" % (a, r.get("err", "")[:300]),
                          {"kind": "dbcheck", "arch": a})
    res = par([coqc_cmd(os.path.join(GEN, "DbCheck_%s.v" % a)) for a in archs if out[a]["ok"]], cwd=GEN)
    ctx.log("--db-check on %d models in %.1fs" % (len(archs), time.time() - t))
    return out


# ------------------------------------------------------------------------------------------ diagnostics in Coq
DIAG = """From Coq Require Import String List Bool Arith QArith.
From OV Require Import Model.PyString Model.ModelData Gen.%(mod)s.
Import ListNotations. Open Scope string_scope.
Set Printing Width 100000. Set Printing Depth 100000.
Definition nats (l : list nat) := String.concat "," (map string_of_nat l).
Definition b2s (b : bool) := if b then "1" else "0".
Definition cnt := counts table entries.
Definition bad_rows (rows : list (string * nat)) := nats (bad_indices (row_wfb ports table) rows).
Eval vm_compute in (
  nats (bad_indices (%(wfb)s ports table) entries) ++ "|" ++
  string_of_nat (fst (fst cnt)) ++ "," ++ string_of_nat (snd (fst cnt)) ++ "," ++ string_of_nat (snd cnt) ++ "|" ++
  bad_rows (t_load tabs) ++ "|" ++ b2s (row_wfb ports table ("default", t_load_default tabs)) ++ "|" ++
  bad_rows (t_store tabs) ++ "|" ++ b2s (row_wfb ports table ("default", t_store_default tabs)) ++ "|" ++
  nats (bad_indices (fun p => wf_fieldb (snd p)) (t_load_latency tabs)) ++ "|" ++
  nats (bad_indices (fun p => wf_factorb (snd p)) (t_load_mult tabs ++ t_store_mult tabs)) ++ "|" ++
  b2s (ports_wfb ports) ++ "|" ++ string_of_nat (length entries) ++ "|" ++
  nats (bad_indices (fun a => match a with AUops [] => false | AAbsent => false | _ => true end)
        (map (assignment_of table) entries))).
"""


def diagnostics(ctx, files):
    """Coq's verdict per file: indices of ill-formed entries, counts, ill-formed table slots."""
    shards = [("diag_c15_" + mod_of(k, n), DIAG % {"mod": mod_of(k, n), "wfb": "isa_entry_wfb" if k == "isa" else "entry_wfb"})
              for k, n in files]
    out = {}
    for (k, n), (ok, strs) in zip(files, ctx.coq_eval_many(shards)):
        if not ok or not strs:
            ctx.obligation("Coq evaluates the checker on %s" % mod_of(k, n), "correspondence", False, (strs or [""])[0])
            continue
        f = strs[0].split("|")
        ints = lambda s: [int(x) for x in s.split(",") if x]
        out[(k, n)] = dict(bad=ints(f[0]), counts=tuple(ints(f[1])), bad_load=ints(f[2]), load_default_ok=f[3] == "1",
                           bad_store=ints(f[4]), store_default_ok=f[5] == "1", bad_lat=ints(f[6]), bad_mult=ints(f[7]),
                           ports_ok=f[8] == "1", n=int(f[9]), nonempty=len(ints(f[10])))
    return out


# ------------------------------------------------------------------------------------------ theorems
def compile_props(ctx, files, data_ok, db):
    t = time.time()
    todo = []
    for k, n in files:
        path = gen_c15.props_path(vlib.COQ, k, n)
        rel = os.path.relpath(path, vlib.COQ)
        want = gen_c15.props_text(k, n)
        have = open(path).read() if os.path.exists(path) else None
        ctx.obligation("%s exists and is the template instance for %s" % (rel, n), "theorem", have == want,
                       "missing: run tools/gen_c15.py --write-props" if have is None else "differs from the template")
        if have != want:
            continue
        names = re.findall(r"^(?:Theorem|Corollary)\s+([A-Za-z0-9_']+)", have, re.M)
        if not data_ok.get((k, n)) or (k == "arch" and not db.get(n, {}).get("ok")):
            for nm in names:
                ctx.obligation("theorem %s (%s)" % (nm, rel), "theorem", False, "generated definitions unavailable")
            continue
        todo.append((k, n, path, rel, have, names))
    res = par([coqc_cmd(p) for _, _, p, _, _, _ in todo], cwd=os.path.join(vlib.COQ, "PropsGen"))
    failed = {}
    thm_re = re.compile(r"^(?:Theorem|Corollary)\s+([A-Za-z0-9_']+)", re.M)
    for (k, n, path, rel, src, names), (rc, out, dt) in zip(todo, res):
        status = {}                      # theorem -> (ok, detail)
        cur, cur_out, cur_rc, rounds = src, out, rc, 0
        while cur_rc != 0 and rounds < len(names):
            rounds += 1
            m = re.search(r"line (\d+), characters", cur_out)
            line = int(m.group(1)) if m else 0
            starts = [(cur[:mm.start()].count("\n") + 1, mm.group(1)) for mm in thm_re.finditer(cur)]
            before = [nm for ln, nm in starts if ln <= line]
            bad = before[-1] if before else (starts[0][1] if starts else None)
            if bad is None:
                break
            status[bad] = (False, cur_out)
            # drop the failing theorem and everything that mentions it, re-check the rest in a scratch copy
            dropped = {bad}
            paras = cur.split("\n\n")
            changed = True
            while changed:
                changed = False
                for para in paras:
                    mm = thm_re.search(para)
                    if mm and mm.group(1) not in dropped and any(re.search(r"\b%s\b" % re.escape(d), para) for d in dropped):
                        dropped.add(mm.group(1))
                        status[mm.group(1)] = (False, "not checked: depends on %s, which failed" % bad)
                        changed = True
            cur = "\n\n".join(para for para in paras if not any(re.search(r"\b%s\b" % re.escape(d), para) for d in dropped))
            if not thm_re.search(cur):
                cur_rc = 0
                cur_out = ""
                break
            d = os.path.join(ctx.scratch, "props")
            os.makedirs(d, exist_ok=True)
            tmp = os.path.join(d, "C15_%s_rest%d.v" % (mod_of(k, n), rounds))
            with open(tmp, "w") as f:
                f.write(cur)
            cur_rc, cur_out = vlib.sh(coqc_cmd(tmp), timeout=700, cwd=d)
        for nm in names:
            ok_nm, detail = status.get(nm, (cur_rc == 0, "" if cur_rc == 0 else cur_out))
            ctx.obligation("theorem %s (%s)" % (nm, rel), "theorem", ok_nm, detail)
        if cur_rc == 0:
            ctx.print_assumptions[rel] = vlib.parse_assumptions(cur_out if rc != 0 else out)
        if rc != 0:
            failed[(k, n)] = sorted(nm for nm, (o, _) in status.items() if not o)
    ctx.checker_cmds.append("coqc -Q coq OV coq/PropsGen/C15_*.v (parallel)")
    ctx.log("compiled %d per-file theorem files in %.1fs (%d failed)" % (len(todo), time.time() - t, len(failed)))
    return failed


# ------------------------------------------------------------------------------------------ replay on the real code
def real_cost_assignment(arch, pp):
    """run the real average_port_pressure (+ the balancer's index computation) on one assignment"""
    mm, sem = c15_data.load(arch)
    try:
        v = mm.average_port_pressure(pp)
        alts = list(pp.values()) if isinstance(pp, dict) else [pp]
        for a in alts:
            mm.average_port_pressure(a)
            for uop in a:
                idx = [mm.get_ports().index(p) for p in list(uop[1])]
                from operator import itemgetter
                itemgetter(*idx)(v)
        return None
    except Exception as e:
        return "%s: %s" % (type(e).__name__, str(e)[:160])


def real_outcome(arch, pp):
    mm, sem = c15_data.load(arch)
    try:
        return "returns %r" % (mm.average_port_pressure(pp),)
    except Exception as e:
        return "raises %s: %s" % (type(e).__name__, str(e)[:160])


def classify(err, meta_repr):
    if err is None:
        return "ill-formed-but-no-crash"
    m = re.match(r"KeyError: .*Port '([^']*)' not in port list", err) or re.match(r"ValueError: '([^']*)' is not in list", err)
    if m:
        return "unknown-port-" + m.group(1)
    return "bad-shape"


def report_bad_entries(ctx, kind, name, diag, meta):
    """every entry Coq rejects -> concrete failing input, replayed on the implementation"""
    if kind == "isa":
        for i in diag["bad"]:
            nm, ops, ti = meta["entries"][i]
            ctx.violation("isa-%s:ill-formed-entry" % name, "isa/%s.yml entry #%d %s %s is not well-formed (assignment %s)" % (
                name, i, nm, ops, meta["table"][ti]), {"kind": "isa-entry", "isa": name, "index": i, "name": nm, "operands": ops})
        return
    mm, sem = c15_data.load(name)
    es = c15_cost.entries_of(mm)
    for i in diag["bad"]:
        nm, ops, ti = meta["entries"][i]
        e = es[i]
        err = real_cost_assignment(name, e.port_pressure) if e.port_pressure is not None else "TypeError: 'NoneType' object is not iterable"
        how, err2 = c15_cost.cost_entry(mm, sem, e)
        key = "%s:%s" % (name, classify(err, meta["table"][ti]))
        ctx.violation(key, "%s.yml entry #%d %s %s: port_pressure %s, throughput %r, latency %r -- average_port_pressure: %s; "
                      "assign_tp_lt+assign_optimal_throughput on a synthesised instruction (%s): %s" % (
                          name, i, nm, ops, meta["table"][ti], e.throughput, e.latency, err or "no exception", how, err2 or "no exception"),
                      {"kind": "entry", "arch": name, "index": i, "name": nm, "operands": ops, "assignment": meta["table"][ti]})
    for key, rows, label in (("load_throughput", diag["bad_load"], "bad_load"), ("store_throughput", diag["bad_store"], "bad_store")):
        for j in rows:
            pp = mm[key][j][1]
            err = real_cost_assignment(name, pp)
            ctx.violation("%s:%s-%s" % (name, key, classify(err, "")), "%s.yml %s[%d] = %r: %s" % (name, key, j, gen_c15.plain(pp), err),
                          {"kind": "table", "arch": name, "key": key, "row": j})
    for key, okflag in (("load_throughput_default", diag["load_default_ok"]), ("store_throughput_default", diag["store_default_ok"])):
        if not okflag:
            pp = mm.get(key, None)
            err = real_cost_assignment(name, pp)
            ctx.violation("%s:%s-%s" % (name, key, classify(err, "")), "%s.yml %s = %r: average_port_pressure raises %s" % (
                name, key, gen_c15.plain(pp), err), {"kind": "table", "arch": name, "key": key})
    if diag["bad_lat"] or diag["bad_mult"] or not diag["ports_ok"]:
        ctx.violation("%s:scalars" % name, "%s.yml: load_latency slots %s / multiplier slots %s ill-formed, port list ok=%s" % (
            name, diag["bad_lat"], diag["bad_mult"], diag["ports_ok"]), {"kind": "scalars", "arch": name})


# ------------------------------------------------------------------------------------------ X(b) avg_pressure correspondence
def mutate(rng, pp, ports):
    """seeded malformed / unusual variants of a shipped assignment (plain Python value)"""
    import copy
    pp = copy.deepcopy(pp)
    if isinstance(pp, dict):
        pp = pp[0]
    if not pp:
        pp = [[1, [ports[0]]]] if ports else []
    k = rng.randrange(9)
    i = rng.randrange(len(pp)) if pp else 0
    if k == 0:      # misspelt port
        u = pp[i]
        if isinstance(u[1], str):
            u[1] = u[1] + "Z"
        else:
            j = rng.randrange(len(u[1]))
            u[1][j] = u[1][j] + "X"
    elif k == 1:    # list of names joined into one name  (['6','7'] -> ['67'])
        u = pp[i]
        u[1] = ["".join(u[1])] if not isinstance(u[1], str) else [u[1]]
    elif k == 2:    # wrong nesting: ports spilled into the micro-op
        u = pp[i]
        pp[i] = [u[0]] + list(u[1])
    elif k == 3:    # wrong nesting: next micro-op inside this one
        pp[i] = [pp[i][0], pp[i][1], [1, "0"]]
    elif k == 4:    # one level too few
        pp = pp[i]
    elif k == 5:    # empty port collection
        pp[i][1] = [] if rng.random() < 0.5 else ""
    elif k == 6:    # cycles not a number
        pp[i][0] = str(pp[i][0])
    elif k == 7:    # negative / fractional cycles (costs fine, not well-formed)
        pp[i][0] = rng.choice([-1, -0.5, 0.25, 0, 3.5])
    else:           # alternatives
        pp = {0: pp, 1: [[rng.choice([1, 2]), [rng.choice(ports)]]]} if ports else pp
    return pp


def frac(x):
    from fractions import Fraction
    fr = Fraction(x)
    return "(%d # %d)" % (fr.numerator, fr.denominator)


def avg_correspondence(ctx, archs, metas):
    shards, info = [], []
    for a in archs:
        mm, sem = c15_data.load(a)
        ports = list(mm["ports"])
        seen, cases = set(), []
        base = []
        for d in mm["instruction_forms"]:
            pp = gen_c15.plain(d.get("port_pressure"))
            r = repr(pp)
            if r not in seen:
                seen.add(r)
                base.append(pp)
        for key in ("load_throughput", "store_throughput"):
            for m, pp in mm.get(key, []) or []:
                base.append(gen_c15.plain(pp))
        for key in ("load_throughput_default", "store_throughput_default"):
            base.append(gen_c15.plain(mm.get(key, None)))
        cases = list(base)
        lists = [b for b in base if isinstance(b, (list, dict)) and b]
        for _ in range(ctx.n(40, 300)):
            if lists:
                try:
                    cases.append(mutate(ctx.rng, ctx.rng.choice(lists), ports))
                except Exception:
                    pass    # a shipped assignment that is already malformed cannot be mutated structurally
        lines = []
        for pp in cases:
            try:
                v = mm.average_port_pressure(pp)
                exp = "XOk [%s]" % "; ".join(frac(x) for x in v)
            except KeyError as e:
                m = re.search(r"Port '(.*)' not in port list", str(e))
                exp = "XKey %s" % cs(m.group(1)) if m else "XKey %s" % cs("0" if isinstance(pp, dict) else "?")
            except (TypeError, ValueError):
                exp = "XShape"
            except Exception as e:
                exp = "XOther"
            lines.append("(%s, %s)" % (gen_c15.em_assignment(pp), exp))
            ctx.count()
            if pp:
                ctx.nontriv("avg/%s/%s" % (a, repr(pp)[:120]))
        text = """From Coq Require Import String List Bool Arith ZArith QArith Qabs.
From OV Require Import Model.PyString Model.ModelData Gen.Data_%s.
Import ListNotations. Open Scope string_scope.
Set Printing Width 100000. Set Printing Depth 100000.
Inductive expected := XOk (v : list Q) | XKey (p : string) | XShape | XOther.
Fixpoint close (a b : list Q) : bool :=
  match a, b with
  | [], [] => true
  | x :: r, y :: s => Qle_bool (Qabs (x - y)) (1 # 1000000000) && close r s
  | _, _ => false
  end.
Definition agree (c : assignment * expected) : bool :=
  match avg_pressure ports (fst c), snd c with
  | Ok v, XOk w => close v w
  | Err (EKey p), XKey q => String.eqb p q
  | Err (EShape _), XShape => true
  | _, _ => false
  end.
(* a well-formed case must have been costed by the implementation *)
Definition wf_ok (c : assignment * expected) : bool :=
  if wf_assignmentb ports (fst c) then match snd c with XOk _ => true | _ => false end else true.
Definition cases : list (assignment * expected) := [
%s].
Eval vm_compute in (String.concat "," (map string_of_nat (firstn 20 (bad_indices (fun c => agree c && wf_ok c) cases)))
                    ++ "|" ++ string_of_nat (length cases)).
""" % (a, ";\n".join(lines))
        shards.append(("corr_c15_" + a, text))
        info.append((a, cases))
    for (a, cases), (ok, strs) in zip(info, ctx.coq_eval_many(shards)):
        if not ok or not strs:
            ctx.obligation("correspondence %s: avg_pressure model = average_port_pressure" % a, "correspondence", False, (strs or [""])[0])
            continue
        bad, n = strs[0].split("|")
        good = bad == "" and int(n) == len(cases)
        detail = ""
        if not good:
            idx = [int(x) for x in bad.split(",") if x]
            detail = "disagreeing cases: " + "; ".join("#%d %r" % (i, cases[i]) for i in idx[:5])
            for i in idx[:1]:
                out = real_outcome(a, cases[i])
                ctx.violation("average_port_pressure-differs-from-model",
                              "%s: MachineModel.average_port_pressure(%r) -> %s, which is not what the verified model of the function "
                              "gives (unknown port -> KeyError, wrong shape -> TypeError/ValueError, else cycles/len(ports) per port)" % (
                                  a, cases[i], out), {"kind": "avg", "arch": a, "pp": json.dumps(cases[i]), "real": out})
        ctx.obligation("correspondence %s: avg_pressure model = MachineModel.average_port_pressure on %d assignments "
                       "(shipped + seeded malformed)" % (a, len(cases)), "correspondence", good, detail)
    ctx.sample({"avg_pressure correspondence": "per model: all distinct shipped assignments + %d seeded variants" % ctx.n(40, 300)})


# ------------------------------------------------------------------------------------------ X(c) costing sweep
def costing_sweep(ctx, archs, diags, metas):
    env = vlib.repo_env(home=ctx.home)
    t = time.time()
    cmds, jobs, sampled = [], [], {}
    for a in archs:
        n = diags[("arch", a)]["n"] if ("arch", a) in diags else len(metas[("arch", a)]["entries"])
        if ctx.tier == "thorough":
            sel = list(range(n))
        else:
            sel = sorted(ctx.rng.sample(range(n), min(n, max(8, n // 4))))
        sampled[a] = sel
        for c in range(0, len(sel), 250):      # chunks, so that the big files do not serialise the sweep
            jobs.append(a)
            cmds.append([vlib.PY, os.path.join(vlib.VERIF, "harness", "c15_cost.py"), c15_data.data_dir(), a,
                         ",".join(str(i) for i in sel[c:c + 250])])
    total = 0
    hows = {}
    per_arch = {a: {"n": 0, "fails": [], "ok": True, "err": ""} for a in archs}
    for a, (rc, out, dt) in zip(jobs, par(cmds, env=env)):
        try:
            r = json.loads(out.strip().splitlines()[-1])
        except Exception:
            r = {"ok": False, "err": out[-1500:]}
        if not r.get("ok"):
            per_arch[a]["ok"] = False
            per_arch[a]["err"] = r.get("err", "") + r.get("trace", "")
            continue
        per_arch[a]["n"] += r["n"]
        per_arch[a]["fails"] += r["fails"]
        for k, v in r["hows"].items():
            hows[k] = hows.get(k, 0) + v
    for a in archs:
        r = per_arch[a]
        if not r["ok"]:
            ctx.obligation("costing sweep ran on %s" % a, "harness", False, r["err"])
            continue
        total += r["n"]
        ctx.count(r["n"])
        meta = metas[("arch", a)]
        coq_bad = set(diags.get(("arch", a), {}).get("bad", []))
        unexpected = []
        for i, how, err in r["fails"]:
            nm, ops, ti = meta["entries"][i]
            if i in coq_bad:
                continue        # already reported from Coq's verdict (with the same real replay)
            unexpected.append((i, how, err))
            ctx.violation("%s:costing-raises-on-wellformed-entry" % a,
                          "%s.yml entry #%d %s %s (port_pressure %s) passes the Coq checker but the real costing raises %s (%s)" % (
                              a, i, nm, ops, meta["table"][ti], err, how),
                          {"kind": "entry", "arch": a, "index": i, "name": nm, "operands": ops, "assignment": meta["table"][ti]})
        # entries Coq rejects were replayed above; entries Coq accepts must cost without raising
        ctx.obligation("costing %s: no entry accepted by the Coq checker raises in assign_tp_lt/assign_optimal_throughput (%s entries)" % (
            a, r["n"]), "correspondence", not unexpected, "; ".join("#%d %s" % (i, e) for i, h, e in unexpected[:5]))
        for i in sampled[a][:3]:
            ctx.nontriv("cost/%s/%d" % (a, i))
    # ISA databases: every entry through the real assign_src_dst, on the first model of that ISA
    first = {}
    for a in archs:
        first.setdefault(c15_data.load(a)[0].get_ISA().lower(), a)
    icmds = [[vlib.PY, os.path.join(vlib.VERIF, "harness", "c15_cost.py"), c15_data.data_dir(), a, "isa"] for a in first.values()]
    for (isa, a), (rc, out, dt) in zip(first.items(), par(icmds, env=env)):
        try:
            r = json.loads(out.strip().splitlines()[-1])
        except Exception:
            r = {"ok": False, "err": out[-1500:]}
        if not r.get("ok"):
            ctx.obligation("ISA sweep ran on isa/%s" % isa, "harness", False, r.get("err", "") + r.get("trace", ""))
            continue
        ctx.count(r["n"])
        meta = metas.get(("isa", isa), {"entries": []})
        coq_bad = set(diags.get(("isa", isa), {}).get("bad", []))
        unexpected = [(i, h, e) for i, h, e in r["fails"] if i not in coq_bad]
        for i, h, e in unexpected[:3]:
            nm, ops, ti = meta["entries"][i] if i < len(meta["entries"]) else ("?", [], 0)
            ctx.violation("isa-%s:assign_src_dst-raises" % isa, "isa/%s.yml entry #%d %s %s: assign_src_dst on a synthesised instruction raises %s (%s)" % (
                isa, i, nm, ops, e, h), {"kind": "isa-entry", "isa": isa, "index": i, "name": nm, "operands": ops})
        ctx.obligation("isa/%s: assign_src_dst raises on no entry accepted by the Coq checker (%d entries, %s)" % (isa, r["n"], r["hows"]),
                       "correspondence", not unexpected, "; ".join("#%d %s" % (i, e) for i, h, e in unexpected[:5]))
    ctx.coverage["costed_entries"] = total
    ctx.coverage["costed_how"] = hows
    ctx.log("costing sweep: %d entries (%s) in %.1fs" % (total, hows, time.time() - t))


def zero_throughput_probe(ctx, archs):
    """A kernel whose only line matches a shipped form with throughput 0 and a non-empty micro-op list
    (e.g. a lone conditional jump): get_throughput_sum returns [] and the balancer indexes into it."""
    from osaca.parser.instruction_form import InstructionForm
    import warnings
    for a in archs:
        mm, sem = c15_data.load(a)
        for e in c15_cost.entries_of(mm):
            if e.throughput == 0.0 and isinstance(e.port_pressure, list) and e.port_pressure:
                if real_cost_assignment(a, e.port_pressure) is not None:
                    continue
                try:
                    ops = [c15_cost.synth_operand(mm.get_ISA(), o) for o in e.operands]
                except Exception:
                    continue
                if mm.get_instruction(e.mnemonic, ops) is not e:
                    continue
                form = InstructionForm(mnemonic=e.mnemonic, operands=ops, line="synth", line_number=1)
                ctx.count()
                try:
                    with warnings.catch_warnings():
                        warnings.simplefilter("ignore")
                        sem.assign_src_dst(form)
                        sem.assign_tp_lt(form)
                        sem.assign_optimal_throughput([form])
                except Exception as ex:
                    ctx.violation("balancer-raises-on-kernel-with-only-zero-throughput-lines",
                                  "%s: one-line kernel `%s` (%s, throughput 0.0, port_pressure %r): assign_optimal_throughput raises %s: %s" % (
                                      a, e.mnemonic, [gen_c15.op_summary(o) for o in e.operands], gen_c15.plain(e.port_pressure),
                                      type(ex).__name__, ex),
                                  {"kind": "zero-tp", "arch": a, "name": e.mnemonic})
                break


# ------------------------------------------------------------------------------------------ run
def run(ctx):
    ctx.trusted += ["data translator tools/gen_c15.py (transcribes shapes, judges nothing; loader view cross-checked against the raw "
                    "YAML view; its output is cross-checked by --db-check's counts, by the average_port_pressure correspondence "
                    "and by the costing sweep)",
                    "ruamel.yaml and the repo's MachineModel loader (the translator goes through them)",
                    "Model/ModelData.v avg_pressure / uop_positions are hand-written models of average_port_pressure and of the "
                    "balancer's index computation (compared with the real function on every distinct shipped assignment and "
                    "seeded malformed ones)",
                    "operand synthesis for the costing sweep (harness/c15_cost.py); a shadowed entry is costed through "
                    "_handle_instruction_found instead of the lookup"]
    ctx.assumptions += ["exact decimals: a YAML float is transcribed as the decimal of its repr; the implementation computes with doubles "
                        "(the correspondence allows 1e-9)",
                        "bdw.yml / csx.yml / skx.yml are empty in this tree and skipped"]
    ctx.ensure_static()
    ctx.compile_theorems("Props/C15.v")
    os.makedirs(GEN, exist_ok=True)
    archs, isas = c15_data.nonempty_archs(), c15_data.isas()
    files = [("arch", a) for a in archs] + [("isa", i) for i in isas]
    ctx.coverage["files"] = [("isa/" if k == "isa" else "") + n for k, n in files]
    tr_ok = translate_all(ctx, files)
    good = [f for f in files if tr_ok[f]]
    data_ok = compile_data(ctx, good)
    good = [f for f in good if data_ok[f]]
    good_archs = [n for k, n in good if k == "arch"]
    db = run_dbcheck(ctx, good_archs)
    metas = {f: json.load(open(os.path.join(GEN, mod_of(*f) + ".json"))) for f in good}
    diags = diagnostics(ctx, good)
    failed = compile_props(ctx, files, data_ok, db)
    n_entries = 0
    for f in good:
        if f not in diags:
            continue
        d = diags[f]
        n_entries += d["n"]
        ctx.count(d["n"])
        k, n = f
        if k == "arch":
            ctx.coverage.setdefault("counts_coq_vs_dbcheck", {})[n] = {"coq": list(d["counts"]), "db-check": [db[n].get(x) for x in ("tp", "lt", "pp")],
                                                                    "entries": d["n"], "with_micro_ops": d["nonempty"]}
            if db[n]["ok"] and tuple(d["counts"]) != (db[n]["tp"], db[n]["lt"], db[n]["pp"]):
                ctx.violation("%s:db-check-counts-differ" % n,
                              "`osaca --arch %s --db-check` reports (no throughput, no latency, no port pressure) = %s of %s, the file contains %s of %d" % (
                                  n, (db[n]["tp"], db[n]["lt"], db[n]["pp"]), db[n]["total"], tuple(d["counts"]), d["n"]),
                              {"kind": "dbcheck-counts", "arch": n, "in_file": list(d["counts"])})
            if db[n]["ok"] and db[n]["total"] != d["n"]:
                ctx.violation("%s:db-check-total-differs" % n, "--db-check counts %d forms, the file has %d" % (db[n]["total"], d["n"]),
                              {"kind": "dbcheck-counts", "arch": n, "in_file": list(d["counts"])})
        for i in range(0, d["n"], 97):
            ctx.nontriv("%s/%d" % (n, i))
        if d["bad"] or d["bad_load"] or d["bad_store"] or not d["load_default_ok"] and k == "arch" or not d["store_default_ok"] and k == "arch" \
                or d["bad_lat"] or d["bad_mult"] or not d["ports_ok"]:
            report_bad_entries(ctx, k, n, d, metas[f])
    ctx.coverage["entries_checked_in_coq"] = n_entries
    ctx.log("Coq checked %d entries of %d files" % (n_entries, len(good)))
    avg_correspondence(ctx, good_archs, metas)
    costing_sweep(ctx, good_archs, diags, metas)
    zero_throughput_probe(ctx, good_archs)
    ctx.sample({"file": "zen3", "entry": metas[("arch", "zen3")]["entries"][5] if ("arch", "zen3") in metas else None})
    ctx.coverage["exhaustive"] = True


# ------------------------------------------------------------------------------------------ replay
def replay(ctx, obj):
    r = obj["replay"]
    kind = r.get("kind")
    if kind in ("entry",):
        mm, sem = c15_data.load(r["arch"])
        es = c15_cost.entries_of(mm)
        hits = [e for e in es if e.mnemonic == r["name"] and [gen_c15.op_summary(o) for o in e.operands] == r["operands"]
                and (gen_c15.ascii_repr(e.port_pressure, 400) == r["assignment"])]
        ctx.log("replay: %d entries %s %s with assignment %s in the current %s.yml" % (len(hits), r["name"], r["operands"], r["assignment"], r["arch"]))
        for e in hits[:1]:
            ctx.count()
            err = real_cost_assignment(r["arch"], e.port_pressure) if e.port_pressure is not None else "TypeError: NoneType"
            how, err2 = c15_cost.cost_entry(mm, sem, e)
            ctx.log("replay: average_port_pressure -> %s ; costing (%s) -> %s" % (err, how, err2))
            if err or err2:
                ctx.violation(obj["key"], obj["what"], r)
        return
    if kind == "table":
        mm, sem = c15_data.load(r["arch"])
        pp = mm[r["key"]][r["row"]][1] if "row" in r else mm.get(r["key"])
        err = real_cost_assignment(r["arch"], pp)
        ctx.count()
        ctx.log("replay: %s %s = %r -> %s" % (r["arch"], r["key"], gen_c15.plain(pp), err))
        if err:
            ctx.violation(obj["key"], obj["what"], r)
        return
    if kind == "avg":
        pp = json.loads(r["pp"])
        if isinstance(pp, dict):
            pp = {int(k): v for k, v in pp.items()}
        out = real_outcome(r["arch"], pp)
        ctx.count()
        ctx.log("replay: average_port_pressure(%r) on %s %s (recorded: %s)" % (pp, r["arch"], out, r["real"]))
        if out == r["real"]:
            ctx.violation(obj["key"], obj["what"], r)
        return
    if kind == "zero-tp":
        before = len(ctx.violations)
        zero_throughput_probe(ctx, [r["arch"]])
        return
    if kind in ("dbcheck", "dbcheck-counts"):
        res = c15_dbcheck.dbcheck(r["arch"], c15_data.data_dir())
        ctx.count()
        ctx.log("replay: --db-check %s -> %s" % (r["arch"], {k: res.get(k) for k in ("ok", "tp", "lt", "pp", "total", "err")}))
        if not res["ok"] or ("in_file" in r and [res["tp"], res["lt"], res["pp"]] != list(r["in_file"])):
            ctx.violation(obj["key"], obj["what"], r)
        return
    return run(ctx)
