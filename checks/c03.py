"""C03 -- the register dependency graph is exactly the read-after-write relation.
Theorems: Props/C03.v (scan = RAW relation, forward edges, flags only with -f; generic in alias test / numbers).
X: Model/Deps.v = KernelDG.create_DG bit for bit (edges + weights) on synthetic ISA/arch databases with random roles,
   hidden flag operands, zero idioms, default roles, pre/post-index write-back, and on shipped kernels x models.
T: KernelDG.is_read / is_written / is_memstore / is_memload / _update_reg_changes / find_depending are regenerated from the current
   source on every run (tools/gen_deps.py -> Gen/DepsGen.v); PropsGen/C03deps.v proves them equal to the hand model on every input of
   the model's types and restates the scan theorems for them; the regenerated text is cross-checked against the Python methods on
   dumps of the real objects of this run's kernels (harness/deps_gen.py).
   ISASemantics.assign_src_dst and its helpers (role assignment) and KernelDG.create_DG (graph construction) are regenerated too
   (tools/gen_roles.py -> Gen/RolesGen.v, Gen/DgGen.v; PropsGen/C03roles.v, C03dg.v; harness/roles_gen.py).
Search: edge set vs an independent architectural read-after-write relation computed from the generator's roles."""
import depcheck
import deps
import deps_gen
import roles_gen

FINISH = dict(level="proof",
              rule="synthetic: random ISA semantic DB (1-4 operands, random source/destination roles, hidden CF/ZF operands, zero idioms, "
                   "forms without ISA entry) + latency model, kernels of 2-14 lines over a small register pool incl. different widths of one "
                   "register, with/without flag dependencies, both ISAs; real: shipped example/test kernels x shipped models; non-trivial = "
                   "kernel with at least one dependency edge; distinct = distinct (database, kernel text, flag option)")


def run(ctx):
    depcheck.prepare(ctx, "Props/C03.v")
    cases = []
    items = []          # real objects for the translator cross-check (deps_gen)
    ritems = []         # ... and for the tie of role assignment / create_DG (roles_gen)
    for case, kernel, dg, isa, gl, pipe in depcheck.synthetic(ctx, ctx.n(160, 3000)):
        ctx.count()
        items.append((kernel, dg, isa, pipe.sem, "synthetic kernel %r (flag deps %s)" % (case["text"][:200], case["flagdeps"])))
        ritems.append((pipe, kernel, dg, isa, items[-1][-1]))
        if case["edges"]:
            ctx.nontriv((case["text"], case["flagdeps"], case["db"]["isa_yaml"]))
        depcheck.raw_oracle(ctx, case, isa, gl)
        if len(cases) < 2:
            ctx.sample({"isa": isa, "kernel": case["text"], "flagdeps": case["flagdeps"], "edges": sorted(map(str, case["edges"].items()))})
        cases.append(case)
    depcheck.run_shards(ctx, cases, "synthetic")
    real = []
    for case, kernel, dg, isa, gl, pipe in depcheck.real(ctx, ctx.n(8, 200), fast_only=ctx.tier == "quick"):
        ctx.count()
        ctx.nontriv(case["origin"])
        for (u, ld, v), w in case["edges"].items():
            if not ld and not u < v:
                ctx.violation("edge-not-forward", "%s: edge %d -> %d" % (case["origin"], u, v), {"origin": case["origin"]})
        real.append(case)
        items.append((kernel, dg, isa, pipe.sem, case["origin"]))
        ritems.append((pipe, kernel, dg, isa, case["origin"]))
    depcheck.run_shards(ctx, real, "real", size=2)
    deps_gen.run(ctx, items, ["PropsGen/C03deps.v"])
    roles_gen.run(ctx, ritems)
    vocabulary(ctx)


def vocabulary(ctx):
    """(b) of the property's quantifier: a curated vocabulary of real instructions whose architectural roles are written down
    in harness/c03_vocab.py independently of OSACA's ISA database, on the shipped models of each ISA"""
    import models
    import c03_vocab
    avail = models.nonempty_archs()

    def pipes_for(isa):
        ms = [m for m in (models.X86 if isa == "x86" else models.A64) if m in avail]
        if ctx.tier == "quick":
            ms = ctx.rng.sample(ms, min(3, len(ms)))
        out = []
        for a in ms:
            pipe = deps.Pipeline(ctx, isa, arch=a)
            out.append((a, pipe.parser, pipe.sem))
        return out
    c03_vocab.run(ctx, pipes_for)
    ctx.obligation("curated vocabulary: %d instruction x model pairs judged against architectural roles" %
                   (ctx.coverage["curated_vocabulary"]["x86"] + ctx.coverage["curated_vocabulary"]["aarch64"]),
                   "oracle", ctx.coverage["curated_vocabulary"]["x86"] > 0 and ctx.coverage["curated_vocabulary"]["aarch64"] > 0)


def replay(ctx, obj):
    r = obj["replay"]
    if r.get("kind") == "vocab":
        vocabulary(ctx)
        return
    if r.get("db"):
        pipe = deps.Pipeline(ctx, r["isa"], r["db"]["isa_yaml"], r["db"]["arch_yaml"])
        case, kernel, dg = deps.build_case(pipe, r["text"], r["flagdeps"])
        ctx.count()
        ctx.log("replay edges: %s" % sorted(case["edges"].items()))
        depcheck.run_shards(ctx, [case], "replay")
        ctx.log("(the reference relation needs the generator's role table; re-run the check with the recorded seed for the oracle verdict)")
