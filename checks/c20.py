"""C20 -- benchmark import snaps measurements and emits every imported form.

T: _validate_measurement, _create_db_operand_x86/_aarch64 (and the dispatcher) are regenerated from
   db_interface.py into Gen/Import.v (generic in NumOps); PropsGen/C20.v re-proves the snapping
   theorems over exact rationals and the operand-code tables against the regenerated text.
   Props/C20.v (static) holds the file-format and insertion theorems for ANY validate/decode.
X: generated ibench/asmbench files are imported through the real
   db_interface.import_benchmark_output(arch, type, file, output=stream); the dumped YAML is parsed
   and every imported form (mnemonic, operands, throughput, latency) compared bit for bit with
   Model/Import.v instantiated with the translated functions over PrimFloat doubles.  Which of the
   three repairs the tree carries is determined by replaying the refutation witnesses on it.
Oracle: the property text recomputed with fractions.Fraction on the implementation's real output.
"""
import os
import vlib
import gen_c20
import c20_import as H
import c20_tie

FINISH = dict(level="proof",
              rule="one case = one generated benchmark file (1-6 instruction forms, ibench or asmbench, x86/zen1 or "
                   "AArch64/n1) imported through import_benchmark_output; non-trivial = the file has a measurement within "
                   "0.2 % of a window edge or outside every window, a corrupted block, a repeated/permuted form or a "
                   "mnemonic colliding with the shipped model; direct function cases = doubles fed to "
                   "_validate_measurement in both modes")

K_TRUNC = "asmbench-truncated-block-raises"
K_MODE = "ibench-lt-line-taken-for-tp-when-mnemonic-contains-TP"
K_X86 = "x86-import-replaces-entry-with-equal-operand-count"

W_TRUNC = "a-r\nLatency: 4.0 cy\nThroughput: 0.5 cy\n\nb-r\nLatency: 4.0 cy\nThroughput: 0.5 cy\n"
W_MODE = "CVTPD2PS-x_x-TP: 1.0 (clock cycles)\nCVTPD2PS-x_x-LT: 4.0 (clock cycles)\n"
W_REPL = "FOO-x_x-TP: 1.0 (clock cycles)\nFOO-y_y-TP: 0.5 (clock cycles)\n"
W_LOST = "vxorpd-x_x_x-TP: 0.25 (clock cycles)\nvxorpd-x_x_x-LT: 1.0 (clock cycles)\n"


def probe_variant(ctx):
    """Replay the refutation witnesses of PropsGen/C20.v on the implementation: which repairs does the
    tree carry?  An as-found outcome is a concrete violation of the property."""
    r = H.run_import(ctx, "x86", "asmbench", W_TRUNC)
    bounds = not (r[0] == "err")
    if not bounds:
        ctx.violation(K_TRUNC, "asmbench file whose last block lacks the trailing blank line: %s, nothing imported "
                      "(the first, well-formed block is lost)" % r[1],
                      {"isa": "x86", "bench": "asmbench", "text": W_TRUNC, "forms": [["a", ["r"], "0.5", "4.0"], ["b", ["r"], "0.5", "4.0"]], "stop": 1})
    r = H.run_import(ctx, "x86", "ibench", W_MODE)
    suffix = r[0] == "ok" and len(r[1]) == 1 and r[1][0][3] == 4.0 and r[1][0][2] == 1.0
    if not suffix:
        ctx.violation(K_MODE, "x86 ibench lines CVTPD2PS-x_x-TP: 1.0 / CVTPD2PS-x_x-LT: 4.0 -> emitted %r "
                      "(the LT line is processed as a TP line because the mnemonic contains 'TP')" % (r[1],),
                      {"isa": "x86", "bench": "ibench", "text": W_MODE, "forms": [["CVTPD2PS", ["x", "x"], "1.0", "4.0"]], "stop": None})
    r1 = H.run_import(ctx, "x86", "ibench", W_REPL)
    r2 = H.run_import(ctx, "x86", "ibench", W_LOST)
    exact = r1[0] == "ok" and len(r1[1]) == 2 and r2[0] == "ok" and len(r2[1]) == 1
    if not exact:
        ctx.violation(K_X86, "x86: FOO-x_x then FOO-y_y emits %d form(s) (2 imported); vxorpd-x_x_x (mnemonic with a "
                      "3-operand entry in zen1) emits %d imported form(s) (1 imported)"
                      % (len(r1[1]) if r1[0] == "ok" else -1, len(r2[1]) if r2[0] == "ok" else -1),
                      {"isa": "x86", "bench": "ibench", "text": W_REPL, "forms": [["FOO", ["x", "x"], "1.0", None], ["FOO", ["y", "y"], "0.5", None]], "stop": None})
    ctx.count(4)
    return (bounds, suffix, exact)


def canonical_key(key, isa, bench, forms, variant, result):
    if key == "asmbench-malformed-block-aborts-import" and not variant[0] and result[1] == "IndexError":
        return K_TRUNC
    if key == "imported-form-missing" and isa == "x86" and not variant[2]:
        return K_X86
    if key in ("throughput-not-snapped-as-specified", "latency-not-snapped-as-specified") and bench == "ibench" \
            and not variant[1] and any("TP" in f["mnemonic"] for f in forms):
        return K_MODE
    return key


def nontrivial(forms, stop, hard):
    if stop is not None or hard:
        return True
    for f in forms:
        for t, orc in ((f["tp"], H.oracle_tp), (f["lt"], H.oracle_lt)):
            if t is None:
                continue
            v, e = orc(t)
            if v is None or e:
                return True
    return len({(f["mnemonic"].upper(), tuple(sorted(c) and c for c in f["codes"])) for f in forms}) < len(forms)


# ------------------------------------------------------------------ function-level correspondence
FUNC_CASE = """From Coq Require Import String List Bool ZArith QArith Uint63 PrimFloat.
From OV Require Import Model.PyString Model.ImportPre Gen.Import.
Import ListNotations.
Set Printing Width 100000. Set Printing Depth 100000.
Definition oeq (a b : option float) : bool :=
  match a, b with Some x, Some y => f_biteq x y | None, None => true | _, _ => false end.
Definition qf (a : option float) (b : option Q) : bool :=
  match a, b with Some x, Some y => Qeq_bool (f_toQ x) y | None, None => true | _, _ => false end.
Definition cases : list (bool * float * option float) := [
%s
].
Definition modeof (b : bool) : string := if b then "tp"%%string else "lt"%%string.
Definition idx := combine (seq 0 (length cases)) cases.
Definition bad := map fst (filter (fun p => match snd p with (md, x, e) =>
   negb (oeq (@g_validate_measurement float FNum x (modeof md)) e) end) idx).
(* how often exact arithmetic on the same double decides differently (size of the Q/float gap) *)
Definition qdiff := length (filter (fun p => match snd p with (md, x, e) =>
   negb (qf e (@g_validate_measurement Q QNum (f_toQ x) (modeof md))) end) idx).
Definition show := (String.concat "," (map string_of_nat (firstn 20 bad)) ++ "|" ++ string_of_nat (length cases)
                    ++ "|" ++ string_of_nat qdiff)%%string.
Eval vm_compute in show.
"""


def function_cases(ctx, n):
    import osaca.db_interface as dbi
    rng = ctx.rng
    xs = []
    for _ in range(n):
        k = rng.random()
        if k < 0.5:
            nn = rng.randint(1, 12)
            base = 1.0 / nn
            f = rng.choice([0.95, 1.05, 1.0, 0.949999, 1.050001, 0.94, 1.06, 0.999, 1.001])
            x = base * f
            if rng.random() < 0.3:
                x = float(repr(round(x, rng.choice([3, 4, 6]))))
            md = True
        else:
            j = rng.choice([0, 1, 2, 3, 4, 5, 9, 10, 11, 19, 20, 21, 50, 100, 1000])
            f = rng.choice([0.95, 1.05, 1.0, 0.949999, 1.050001, 0.94, 1.06, 0.999, 1.001])
            x = j * f + rng.choice([0.0, 0.0, 0.5, -0.5, 1e-9, -1e-9])
            md = rng.random() < 0.2
        if rng.random() < 0.05:
            x = rng.choice([0.0, -0.0, 0.5, 1.5, 2.5, 9.5, 10.5, 1e-300, 1e300, -3.0, 2.0 ** 53, 2.0 ** 53 + 2, 5e-324])
        if rng.random() < 0.1:
            import math
            x = math.nextafter(x, rng.choice([-1e308, 1e308]))
        xs.append((md, x))
    rows = []
    for md, x in xs:
        r = dbi._validate_measurement(x, "tp" if md else "lt")
        if r is not None and not isinstance(r, float):
            ctx.violation("validate-returns-non-float", "_validate_measurement(%r) returned %r" % (x, r), {"x": x.hex(), "mode": md})
            continue
        rows.append("  (%s, %s, %s)" % ("true" if md else "false", H.coq_float(x), "None" if r is None else "(Some %s)" % H.coq_float(r)))
    return xs, FUNC_CASE % ";\n".join(rows)


# ------------------------------------------------------------------ run
def run(ctx):
    ctx.trusted += [
        "translator tools/py2coq.py + tools/gen_c20.py (fail-closed subset; the translated functions are compared bit for bit "
        "with the Python originals on every run)",
        "PrimFloat kernel primitives (IEEE binary64) for the FNum instance used in the correspondence; theorems are over exact rationals",
        "Python float(str), ruamel.yaml dump/load and str methods outside split/strip/upper/in/startswith are not modelled "
        "(float() enters the model as a table computed by Python)",
        "the operand-code tables doc_x86/doc_a64 (PropsGen/C20Lemmas.v) and harness/c20_import.spec_operand are hand-written from README.rst 'Benchmark import'",
    ]
    ctx.assumptions += [
        "measurements are finite doubles (float('inf')/'nan' make math.floor raise; not generated)",
        "benchmark files are ASCII with '\\n' line ends",
        "snapping theorems are about exact rational arithmetic; at a window edge the double computation may decide differently "
        "(counted in coverage.q_vs_float_divergent, oracle skips values within 1e-9 relative of an edge)",
    ]
    ctx.ensure_static()
    # ---- T
    gen = gen_c20.generate(vlib.REPO, os.path.join(vlib.COQ, "Gen"))
    ok, text = gen["Import.v"]
    ctx.obligation("translate _validate_measurement/_create_db_operand* from the current source", "translation", ok, "" if ok else text)
    compiled = False
    if ok:
        compiled, out, _ = ctx.coqc(os.path.join(vlib.COQ, "Gen", "Import.v"))
        ctx.obligation("generated Gen/Import.v type-checks", "translation", compiled, out)
    thm_ok = False
    if compiled:
        c, out, dt = ctx.coqc(os.path.join(vlib.COQ, "PropsGen", "C20Lemmas.v"), timeout=600)
        ctx.obligation("lemmas PropsGen/C20Lemmas.v re-check against the regenerated definitions", "theorem", c, out)
        ctx.log("coqc PropsGen/C20Lemmas.v: %s in %.1fs" % ("ok" if c else "FAILED", dt))
        if c:
            thm_ok, _ = ctx.compile_theorems("PropsGen/C20.v")
        else:
            ctx.obligation("theorems of PropsGen/C20.v", "theorem", False, "lemmas unavailable")
    else:
        ctx.obligation("theorems of PropsGen/C20.v", "theorem", False, "generated definitions unavailable")
    ctx.compile_theorems("Props/C20.v")

    # ---- implementation side
    H.setup(ctx)
    variant = probe_variant(ctx)
    ctx.coverage["variant_detected"] = {"asmbench_bounds_check": variant[0], "ibench_mode_by_suffix": variant[1], "x86_exact_match": variant[2]}
    ctx.log("tree carries repairs: bounds-check=%s mode-by-suffix=%s exact-match=%s" % variant)
    existing = {"x86": H.existing_dict("x86"), "aarch64": H.existing_dict("aarch64")}

    # ---- X (a): the translated functions vs the Python originals, bit for bit
    if compiled:
        xs, text = function_cases(ctx, ctx.n(3000, 20000))
        okc, out, dt = ctx.coq_eval("c20_func", text, timeout=600)
        if not okc:
            ctx.obligation("correspondence: translated _validate_measurement = Python on doubles", "correspondence", False, out[0])
        else:
            bad, n, qd = out[0].split("|")
            ctx.obligation("correspondence: translated _validate_measurement (PrimFloat) = Python on %s doubles, bit for bit" % n,
                           "correspondence", bad == "", "disagreeing cases (first 20): %s -> %s" % (bad, [(xs[int(i)][0], xs[int(i)][1].hex()) for i in bad.split(",") if i][:5]))
            ctx.coverage["q_vs_float_divergent"] = "%s of %s doubles decide differently under exact arithmetic" % (qd, n)
            ctx.count(int(n))
            ctx.log("function correspondence: %s cases, %s bad, Q/float divergent %s (%.1fs)" % (n, bad or "none", qd, dt))
        # decoders: every documented code and some undocumented strings
        import osaca.db_interface as dbi
        codes = {"x86": set(), "aarch64": set()}
        for isa in codes:
            for _ in range(ctx.n(400, 3000)):
                codes[isa].add(H.random_code(ctx.rng, isa))
            codes[isa] |= {"", "r", "rax", "r64", "xy", "xyz", "wx", "wxbhsdq", "v", "vq", "v8b", "i", "ii", "m", "mm", "q", "k", "M", "R", "mbois", "mboisrp", "p", "vd", "z"}
        rows = []
        for isa, fn in (("x86", dbi._create_db_operand_x86), ("aarch64", dbi._create_db_operand_aarch64)):
            for c in sorted(codes[isa]):
                try:
                    d = fn(c)
                    exp = "(Some [%s])" % "; ".join("(%s, %s)" % (vlib.coq_string(k), H.coq_pyval(v)) for k, v in d.items())
                except ValueError:
                    exp = "None"
                rows.append("(%s, %s, %s)" % ("true" if isa == "x86" else "false", vlib.coq_string(c), exp))
                spec = H.spec_operand(c, isa)
                if spec is not None:
                    try:
                        if fn(c) != spec:
                            ctx.violation("operand-decoded-wrongly", "%s code %r decoded as %r, README says %r" % (isa, c, fn(c), spec), {"isa": isa, "code": c})
                    except ValueError:
                        ctx.violation("operand-decoded-wrongly", "%s documented code %r rejected" % (isa, c), {"isa": isa, "code": c})
        dtext = """From Coq Require Import String List Bool ZArith.
From OV Require Import Model.PyString Model.ImportPre Gen.Import.
Import ListNotations. Open Scope string_scope.
Set Printing Width 100000. Set Printing Depth 100000.
Definition cases : list (bool * string * option pydict) := [%s].
Definition oeq (a b : option pydict) := match a, b with Some x, Some y => pydict_eqb x y | None, None => true | _, _ => false end.
Definition idx := combine (seq 0 (length cases)) cases.
Definition bad := map fst (filter (fun p : nat * (bool * string * option pydict) => match snd p with (x86, c, e) =>
  negb (oeq (if x86 then g_create_db_operand_x86 c else g_create_db_operand_aarch64 c) e) end) idx).
Definition show := String.concat "," (map string_of_nat (firstn 20 bad)) ++ "|" ++ string_of_nat (length cases).
Eval vm_compute in show.
""" % ";\n".join(rows)
        okc, out, dt = ctx.coq_eval("c20_dec", dtext, timeout=300)
        good = okc and out[0].split("|")[0] == ""
        ctx.obligation("correspondence: translated operand decoders = Python on %d codes" % len(rows), "correspondence", good,
                       "" if good else out[0])
        ctx.count(len(rows))

    # ---- X (b) + oracle: whole files through the real import path
    nfiles = ctx.n(160, 2400)
    cases = []
    edges = 0
    kinds = {}
    for i in range(nfiles):
        isa = ctx.rng.choice(["x86", "aarch64"])
        bench = ctx.rng.choice(["ibench", "asmbench"])
        hard = ctx.rng.random() < 0.3
        text, forms, stop = H.gen_file(ctx.rng, isa, bench, hard)
        result = H.run_import(ctx, isa, bench, text)
        cases.append((isa, bench, text, result))
        ctx.count()
        kinds[(isa, bench)] = kinds.get((isa, bench), 0) + 1
        if nontrivial(forms, stop, hard):
            ctx.nontriv(text)
        prob, e = H.check_property(isa, bench, forms, stop, result)
        edges += e
        if prob:
            key = canonical_key(prob[0], isa, bench, forms, variant, result)
            ctx.violation(key, "%s %s: %s" % (isa, bench, prob[1]),
                          {"isa": isa, "bench": bench, "text": text, "stop": stop,
                           "forms": [[f["mnemonic"], f["codes"], f["tp"], f["lt"]] for f in forms]})
        if i < 3:
            ctx.sample({"isa": isa, "bench": bench, "file": text, "emitted": repr(result)[:600]})
    ctx.coverage["files_by_kind"] = {"%s/%s" % k: v for k, v in kinds.items()}
    ctx.coverage["oracle_edge_values_skipped"] = edges
    if compiled:
        shards = []
        per = 80
        for s in range(0, len(cases), per):
            shards.append(("c20_files_%d" % (s // per), H.case_file(variant, cases[s:s + per], existing)))
        res = ctx.coq_eval_many(shards, timeout=600)
        for si, (okc, out) in enumerate(res):
            n = len(cases[si * per:(si + 1) * per])
            if not okc:
                ctx.obligation("correspondence shard %d: Model/Import.v = real import on %d files" % (si, n), "correspondence", False, out[0])
                continue
            bad, cnt = out[0].split("|")
            detail = ""
            if bad:
                j = int(bad.split(",")[0]) + si * per
                detail = "disagreeing files (first 20, shard-relative): %s; first: %r -> implementation %r" % (bad, cases[j][:3], cases[j][3])
            ctx.obligation("correspondence shard %d: Model/Import.v (detected variant) = real import on %s files, bit for bit" % (si, cnt),
                           "correspondence", bad == "" and int(cnt) == n, detail)
        ctx.log("file correspondence: %d files in %d shards" % (len(cases), len(shards)))
    # ---- T for the glue (parsers, insertion, dump): regenerated from the current source, proved equal to Model/Import.v
    #      (PropsGen/C20glue.v) and evaluated against the real outputs of the files above (notes/C20-glue.md)
    c20_tie.run(ctx, cases, existing)


def replay(ctx, obj):
    r = obj["replay"]
    H.setup(ctx)
    if "code" in r:
        import osaca.db_interface as dbi
        fn = dbi._create_db_operand_x86 if r["isa"] == "x86" else dbi._create_db_operand_aarch64
        try:
            got = fn(r["code"])
        except ValueError:
            got = None
        ctx.count()
        ctx.log("replay: %s code %r -> %r, README: %r" % (r["isa"], r["code"], got, H.spec_operand(r["code"], r["isa"])))
        if got != H.spec_operand(r["code"], r["isa"]):
            ctx.violation(obj["key"], obj["what"], r)
        return
    if "text" not in r:
        return run(ctx)
    forms = [{"name": m + "-" + "_".join(c), "mnemonic": m, "codes": c, "tp": tp, "lt": lt} for m, c, tp, lt in r["forms"]]
    result = H.run_import(ctx, r["isa"], r["bench"], r["text"])
    prob, _ = H.check_property(r["isa"], r["bench"], forms, r["stop"], result)
    ctx.count()
    ctx.log("replay: %s %s -> %r; oracle: %s" % (r["isa"], r["bench"], result, prob))
    if prob:
        ctx.violation(obj["key"], obj["what"], r)
