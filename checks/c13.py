"""C13 -- Text report, machine-readable output and totals agree.

Theorems: Props/C13.v about Model/Report.v (report structure, dict, inspect's warning/arch decisions) and Model/Fmt.v
          (fmt_fixed = '{:.Nf}'.format, proved to read back as the exact value rounded half-even, for every double).
X: the real osaca.osaca.run (-> inspect) is executed in-process with --yaml-out on shipped and generated kernels; the
   text report is tokenised by layout only (harness/c13_lib.py), the YAML is loaded back, the analysed kernel / CP list /
   LCD dict are snapshot by a recording wrapper; Model/Report.v's comparator `report_agrees` (evaluated by coqc) must
   return [] on (request, snapshot, tokens, YAML numbers): every printed character of every cell, the summary row, the
   warnings, the LCD list and every YAML number are the model's.  fmt_fixed is compared with CPython's format() char by
   char on thousands of doubles.  DEFAULT_ARCHS and detect_ISA are compared with the model's table / the two counts.
T: tools/gen_c13.py regenerates Gallina definitions from the CURRENT source of the frontend's formatting / decision methods
   (_get_port_pressure, _get_lcd_cp_ports, _get_flag_symbols, _missing_instruction_error, _user_warnings_header/_footer,
   _get_max_port_len, combined_view, loopcarried_dependencies, the modelled entries of full_analysis_dict) into Gen/ReportGen.v;
   PropsGen/C13gen.v proves them equal to Model/Report.v under an explicit layout (Model/ReportPy.v) and restates the C13
   theorems for what the code returns; harness/c13_tie.py evaluates the regenerated definitions on every report of the run and
   on synthetic inputs and compares with what the Python methods return (whole text, every float bit, exception classes).
Oracle: harness/c13_oracle.py judges text against YAML directly in Python (no model): printed cell == format(YAML value)
   at the shown digits, totals recomputed from the YAML's own kernel lines, iff-conditions of the warnings recomputed from
   the request, LCD list against the analysis result.
"""
import glob
import json
import os
import time
from concurrent.futures import ProcessPoolExecutor

import vlib
import c13_lib as L
import c13_gen as G
import c13_oracle as O
import c13_coq as C
import c13_tie

FINISH = dict(level="proof",
              rule="one evaluation = one report (text + YAML) of the real CLI entry point compared cell by cell, one double "
                   "formatted by fmt_fixed and by CPython, or one input of the translation cross-check (a report's recorded objects "
                   "/ a synthetic report / a single method call: regenerated Gallina vs the Python method, plus the unit-level "
                   "oracle on the method's own result); a report is non-trivial when it has at least one non-blank "
                   "pressure cell or an unknown instruction; distinct = distinct (kind, model, --fixed, --ignore-unknown, "
                   "--arch given, selection mode) combinations")

MODEL_DEFAULTS = {"x86": "SPR", "aarch64": "V2"}      # Model/Report.v default_arch
SHARD = 10


# ------------------------------------------------------------------------------------------- fmt_fixed vs CPython
def fmt_doubles(rng, n):
    out = []
    specials = [0.0, -0.0, 0.5, 0.125, 0.135, 0.145, 2.675, 1.005, 0.005, 0.015, 0.025, 0.045, 9.995, 9.9999, 99.995, 0.995,
                999.9951, 12.25, 12.35, 100.25, 100.5, 1e15, 1e16, 123456789012345680.0, 2.0 ** 70, 1e22, 1e23, 5e-324, 2.0 ** -1074 * 3,
                1e-7, 4.35, 0.285, 1.0 / 3, 2.0 / 3, 0.1 + 0.2, 1e300, 1.7976931348623157e308, 0.49999999999999994, 2.5, 3.5, 0.05, 0.25, 0.75]
    for x in specials:
        for d in (0, 1, 2, 3):
            out.append((d, x))
            out.append((d, -x))
    while len(out) < n:
        r = rng.random()
        if r < 0.35:      # pressure-like: c/k +- j*0.01
            x = rng.choice([0.25, 0.5, 1, 2, 3, 4, 0.33, 1.5]) / rng.randrange(1, 9) + rng.randrange(-40, 40) * 0.01
        elif r < 0.55:    # sums
            x = round(sum(rng.choice([0.25, 0.5, 1 / 3, 0.17, 1.0, 0.125]) for _ in range(rng.randrange(1, 300))), 2)
        elif r < 0.75:    # half-way decimals at random positions
            d = rng.randrange(0, 5)
            x = (rng.randrange(0, 100000) * 10 + 5) / 10 ** (d + 1)
        elif r < 0.9:
            x = rng.uniform(-1, 1) * 10 ** rng.randrange(-6, 18)
        else:
            import struct
            x = struct.unpack("<d", struct.pack("<Q", rng.getrandbits(64)))[0]
            if x != x or x in (float("inf"), float("-inf")):
                continue
            if abs(x) > 1e40:       # keep the digit strings short; the extremes are among the specials
                x = x / 1e280 if abs(x) > 1e280 else x
        out.append((rng.choice([0, 1, 1, 2, 2, 2, 3, 4, 6]), float(x)))
    return out


def fmt_correspondence(ctx, n):
    ds = fmt_doubles(ctx.rng, n)
    shards = [("c13_fmt_%d" % i, C.fmt_shard(ds[i:i + 500])) for i in range(0, len(ds), 500)]
    t0 = time.time()
    res = ctx.coq_eval_many(shards, timeout=600)
    bad_total = 0
    for k, (ok, out) in enumerate(res):
        if not ok:
            ctx.obligation("fmt_fixed = CPython format, shard %d" % k, "correspondence", False, out[0])
            continue
        bad, cnt = out[0].split("|")
        chunk = ds[k * 500:(k + 1) * 500]
        good = bad == "" and int(cnt) == len(chunk)
        detail = ""
        if not good:
            idx = [int(x) for x in bad.split(",") if x]
            bad_total += len(idx)
            detail = "; ".join("fmt_fixed %d %s: CPython %r" % (chunk[i][0], chunk[i][1].hex(), "{:.{}f}".format(chunk[i][1], chunk[i][0])) for i in idx[:5])
        ctx.obligation("fmt_fixed = '{:.Nf}'.format char by char and reads back to the exact rounding, shard %d (%d doubles)" % (k, len(chunk)),
                       "correspondence", good, detail)
    ctx.count(len(ds))
    ctx.coverage["fmt_doubles"] = len(ds)
    ctx.log("fmt_fixed vs CPython: %d doubles, %d disagreements (%.1fs)" % (len(ds), bad_total, time.time() - t0))


# ------------------------------------------------------------------------------------------- reports
def run_reports(ctx, cases):
    scratch = os.path.join(ctx.scratch, "reports")
    os.makedirs(scratch, exist_ok=True)
    for c in cases:
        c["scratch"] = scratch
    with ProcessPoolExecutor(16) as ex:
        return list(ex.map(L.run_case, cases, chunksize=1))


def judge_all(ctx, cases, results):
    import osaca.osaca as OO
    from osaca.semantics import MachineModel
    from osaca.parser import BaseParser
    flagged = {}
    cov = ctx.coverage.setdefault("reports", {"run": 0, "raised": 0, "kinds": {}, "max_port_total": 0.0, "totals>=10": 0, "totals>=100": 0,
                                              "with_unknown": 0, "lt_unknown_only_lines": 0, "tp_unknown_only_lines": 0, "no_arch": 0, "length_warning": 0,
                                              "lcd_timeout": 0, "lcds>=2": 0, "cp_cell!=latency": 0, "digits_seen": {},
                                              "blank_cp_cell_with_nonzero_yaml_LatencyCP": 0, "fallback_to_other_isa": 0})
    det_bad = []
    for i, (c, r) in enumerate(zip(cases, results)):
        cov["run"] += 1
        cov["kinds"][c["kind"]] = cov["kinds"].get(c["kind"], 0) + 1
        det = BaseParser.detect_ISA(c["text"])
        if det != ("aarch64" if r["counts"][1] > r["counts"][0] else "x86"):
            det_bad.append((c["name"], r["counts"], det))
        if r.get("error"):
            cov["raised"] += 1
            continue
        if c.get("arch") is None and not r.get("first_parse_ok", True):
            r["fallback_expected"] = True
            cov["fallback_to_other_isa"] += 1
        found = O.judge(r, OO.DEFAULT_ARCHS, MachineModel.get_isa_for_arch)
        ctx.count()
        if found:
            flagged[i] = found
            for key, what in found:
                ctx.violation(key, "%s %s: %s" % (c["name"], " ".join(r["argv"]), what), replay_of(c, key))
        if "tok" not in r or "yaml" not in r:
            continue
        t, y = r["tok"], r["yaml"]
        tot = [float.fromhex(h) for h in y["summary"]["press"]]
        cov["max_port_total"] = max([cov["max_port_total"]] + tot)
        cov["totals>=10"] += any(v >= 10 for v in tot) and t["summary"] is not None
        cov["totals>=100"] += any(v >= 100 for v in tot) and t["summary"] is not None
        cov["with_unknown"] += any("tp_unknown" in k["flags"] for k in y["kernel"])
        cov["lt_unknown_only_lines"] += sum(1 for k in y["kernel"] if "lt_unknown" in k["flags"] and "tp_unknown" not in k["flags"])
        cov["tp_unknown_only_lines"] += sum(1 for k in y["kernel"] if "tp_unknown" in k["flags"] and "lt_unknown" not in k["flags"] and k.get("instr"))
        cov["no_arch"] += c.get("arch") is None
        cov["length_warning"] += t["length_warning"]
        cov["lcd_timeout"] += t["lcd_warning"]
        cov["lcds>=2"] += len(set(e["lat"] for e in t["lcd_list"])) >= 2
        cov["cp_cell!=latency"] += sum(1 for row, k in zip(t["rows"], y["kernel"]) if row["cp"] != "" and float(row["cp"]) != float.fromhex(k["lat"]))
        cov["blank_cp_cell_with_nonzero_yaml_LatencyCP"] += r.get("blank_cp_nonzero", 0)
        for row in t["rows"] + ([t["summary"]] if t["summary"] else []):
            for cell in row["cells"]:
                if "." in cell:
                    d = str(len(cell.split(".")[1]))
                    cov["digits_seen"][d] = cov["digits_seen"].get(d, 0) + 1
        if any(cell for row in t["rows"] for cell in row["cells"]) or t["missing"]:
            ctx.nontriv((c["kind"], c.get("arch") or "default:" + c["isa"], bool(c["fixed"]), bool(c["ignore_unknown"]),
                         "lines" if c.get("lines") else ("marked" if c.get("marked") else "plain")))
        ctx.sample({"name": c["name"], "argv": r["argv"], "rows": len(t["rows"]), "summary": t["summary"], "missing": t["missing"],
                    "lcd_list": len(t["lcd_list"])})
    ctx.obligation("detect_ISA chooses by the two register-spelling counts (first maximum, x86 first) on every case file",
                   "correspondence", not det_bad, "; ".join("%s counts %s -> %s" % d for d in det_bad[:5]))
    return flagged


def replay_of(c, key):
    return {k: c.get(k) for k in ("name", "text", "arch", "isa", "fixed", "ignore_unknown", "lines", "marked", "lcd_timeout", "kind")}


def coq_correspondence(ctx, cases, results, flagged):
    usable = [i for i, r in enumerate(results) if not r.get("error") and "tok" in r and "yaml" in r]
    # a kernel with thousands of loop-carried dependencies (a whole unmarked file) would make a 100 MB term:
    # such reports are judged by the Python oracle only

    def size(r):
        return sum(len(e[2]) + 4 for e in r["snap"]["lcd"]) + len(r["snap"]["lines"]) * (3 * len(r["snap"]["ports"]) + 10)
    big = [i for i in usable if size(results[i]) > 40000]
    usable = [i for i in usable if i not in big]
    ctx.coverage["reports"]["too_large_for_coq_comparator"] = len(big)
    shards, index = [], []
    for s in range(0, len(usable), SHARD):
        ids = usable[s:s + SHARD]
        shards.append(("c13_rep_%d" % (s // SHARD), C.shard_text([results[i] for i in ids])))
        index.append(ids)
    t0 = time.time()
    res = ctx.coq_eval_many(shards, timeout=900)
    disagree = 0
    for k, (ok, out) in enumerate(res):
        ids = index[k]
        name = "report_agrees = [] (text report and YAML are the model's report and dict) on %d reports, shard %d" % (len(ids), k)
        if not ok:
            ctx.obligation(name, "correspondence", False, out[0])
            continue
        body, cnt = out[0].rsplit("|", 1)
        good = body == "" and int(cnt) == len(ids)
        detail = []
        if body:
            for item in body.split(";"):
                j, tags = item.split(":", 1)
                i = ids[int(j)]
                disagree += 1
                detail.append("%s %s -> %s%s" % (cases[i]["name"], " ".join(results[i]["argv"]), tags,
                                                 " (oracle: %s)" % ",".join(sorted(set(k for k, _ in flagged[i]))) if i in flagged else ""))
                if i not in flagged:
                    # the model and the implementation differ where the oracle sees no violation of the property:
                    # keep the input so that the difference can be replayed
                    ctx.sample({"model-differs": cases[i]["name"], "argv": results[i]["argv"], "tags": tags})
        ctx.obligation(name, "correspondence", good, "\n".join(detail))
    ctx.log("Coq comparator: %d reports in %d shards, %d disagree (%.1fs)" % (len(usable), len(shards), disagree, time.time() - t0))
    return disagree


def corpus_cases():
    out = []
    for f in sorted(glob.glob(os.path.join(vlib.VERIF, "corpus", "C13", "*.json"))):
        c = json.load(open(f))
        c["name"] = "corpus:" + os.path.basename(f)
        c.setdefault("kind", "corpus")
        out.append(c)
    return out


def run(ctx):
    ctx.trusted += ["tokeniser harness/c13_lib.py (layout knowledge only: header separators, fixed section titles) and ruamel.yaml "
                    "loading the --yaml-out file back",
                    "CPython float() reading back the CP/LCD cells and totals, which the frontend prints with repr (shortest "
                    "round-trip form): those are compared as doubles, not as characters",
                    "Python str.format outside fmt_fixed: column widths, separators, alignment, the minimum-width field of "
                    "'{:W.Nf}' (never pads: the integer part is at least W characters) -- exercised by the tokeniser only",
                    "the snapshot of kernel / CP list / LCD dict is taken from the objects Frontend.full_analysis received "
                    "(recording wrapper, output unchanged)"]
    ctx.assumptions += ["pressures, latencies and totals are finite doubles below 1e16 in magnitude (str(float) has no exponent)",
                        "wf_analysis (evaluated on every case): one pressure entry per port, distinct line numbers, the CP list is a "
                        "subsequence of the kernel, non-instruction lines carry no tp_unknown flag, every LCD has a member",
                        "cp_covers (evaluated on every case; Props/C13cp.v): a line with a non-zero latency_cp is one of the lines "
                        "get_critical_path() returned",
                        "selection_consistent (length_warning_iff): markers found <=> the kernel is a proper part of the parsed file "
                        "(C11's theorems)"]
    ctx.ensure_static()
    ctx.compile_theorems("Props/C13.v")
    ctx.compile_theorems("Props/C13cp.v")
    # data tie: the default-architecture table
    import osaca.osaca as OO
    ctx.obligation("DEFAULT_ARCHS equals the model's default_arch table", "translation",
                   {k: v.upper() for k, v in OO.DEFAULT_ARCHS.items()} == MODEL_DEFAULTS, "code: %s, model: %s" % (OO.DEFAULT_ARCHS, MODEL_DEFAULTS))
    fmt_correspondence(ctx, ctx.n(3000, 20000))
    t0 = time.time()
    cases = corpus_cases()
    cases += G.shipped_cases(ctx.rng, ctx.tier, ctx.n(1, 8))
    cases += G.generated_cases(ctx.rng, ctx.tier, ctx.n(66, 520))
    cases += G.cp_tie_cases(ctx.rng, ctx.tier)       # longest dependency chain exactly as long as one independent instruction
    ctx.log("%d cases generated (%.1fs)" % (len(cases), time.time() - t0))
    t0 = time.time()
    results = run_reports(ctx, cases)
    ctx.log("%d reports produced by osaca.osaca.run (%.1fs)" % (len(results), time.time() - t0))
    flagged = judge_all(ctx, cases, results)
    disagree = coq_correspondence(ctx, cases, results, flagged)
    ctx.coverage["reports"]["coq_disagreements"] = disagree
    ctx.coverage["reports"]["oracle_flagged"] = len(flagged)
    # T: the frontend's formatting / decision methods, regenerated from the current source, are the model (PropsGen/C13gen.v)
    c13_tie.run(ctx, results)
    lay = [r for r in results if r.get("layout_error")]
    ctx.obligation("every report is tokenisable by the header layout", "correspondence", not lay,
                   "; ".join("%s: %s" % (r["name"], r["layout_error"]) for r in lay[:3]))


def replay(ctx, obj):
    c = dict(obj["replay"])
    if "unit" in c:
        return c13_tie.replay_unit(ctx, obj)
    if "text" not in c:
        return run(ctx)
    c["scratch"] = ctx.scratch
    import osaca.osaca as OO
    from osaca.semantics import MachineModel
    r = L.run_case(c)
    ctx.count()
    if r.get("error"):
        ctx.log("replay: the analysis raises %s" % r["error"])
        return
    found = O.judge(r, OO.DEFAULT_ARCHS, MachineModel.get_isa_for_arch)
    ctx.log("replay %s %s: oracle findings %s" % (c.get("name"), " ".join(r["argv"]), [k for k, _ in found] or "none"))
    for key, what in found:
        if key == obj["key"]:
            ctx.violation(key, what, obj["replay"])
            break
