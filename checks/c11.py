"""C11 -- kernel selection is exact and non-instruction lines are transparent.

Theorems: Props/C11.v (static, hand model Model/Select.v: marked_exact_*, unmarked_whole, noise / line-number transparency of
          the selection, lines_select_exact, parse_file numbering);
          PropsGen/C11.v (get_line_range), PropsGen/C11gen.v (match_bytes, find_marked_section, the x86 / AArch64 wrappers,
          reduce_to_section), PropsGen/C11genLines.v (the selection statement of osaca.py:inspect) -- all three over
          definitions REGENERATED from the current source on every run and proved equal to the hand model.
T: tools/gen_c11.py -> Gen/LineRange.v; tools/gen_c11b.py -> Gen/MarkerGen.v, Gen/InspectGen.v (fail closed).
X: (1) reduce_to_section through the real parsers on random files (prologue + marker + body + marker + epilogue with
       decoys; every marker style; both ISAs) vs Model/Select.v (two variants of match_bytes: as once shipped = greedy,
       repaired = stops once the nop bytes are read; the tree must agree with one of them on every case) AND vs the
       translated g_reduce_to_section;  (2) direct calls of match_bytes / find_marked_section (arguments well beyond what
       the wrappers pass) and the selection statement of inspect executed in CPython vs their translations;
       (3) get_line_range vs the translated Gallina on random --lines strings.
Oracle (the property itself, on observable behaviour only): (a) reduce_to_section: the generator knows the body;
       (b) end to end: osaca.osaca.run on kernel-only file / marked file (each style) / --lines (plain, unordered, nested,
       overlapping, duplicated entries) / noise insertions for shipped kernels x non-empty shipped models of their ISA;
       (c) --lines family: the rows of the report are exactly the named lines and all numbers equal those of a file
       containing only these lines.
Verdict: a disagreement of an INTERNAL function (get_line_range's return value, a translated function, a theorem, a
       translator failure) is a broken obligation, never by itself a violation: it triggers the focused search with
       (a)-(c); a concrete failing file / --lines argument found there is the violation (replay); otherwise
       `VIOLATION ... no-failing-input-found` names the broken obligation.
"""
import ast
import contextlib
import io
import os
import time
import vlib
import gen_c11
import gen_c11b
import c11_gen as G
import c11_e2e as E
import models
from vlib import coq_string as cs

FINISH = dict(level="proof",
              rule="a selection case is non-trivial when the file contains at least one marker or decoy and the kernel is a "
                   "proper, non-empty part of the file; distinct = distinct (isa, kind, start style, end style, #decoys) "
                   "shapes; a --lines case is non-trivial when it has a range item; a direct call of a translated function is "
                   "counted as one evaluation; an end-to-end case is one (kernel, model, variant) comparison")

KEY_BYTE_HEAD = "kernel-leading-byte-lines-dropped"
KEY_EPI_RAISE = "byte-operand-after-end-marker-raises"


def quiet(fn, *a, **k):
    """-> ('ok', value) | ('err', exception class name); stdout of the implementation is discarded"""
    try:
        with contextlib.redirect_stdout(io.StringIO()):
            return ("ok", fn(*a, **k))
    except Exception as e:  # noqa
        return ("err", type(e).__name__)


# ------------------------------------------------------------------------------------------- selection
def py_reduce(isa, text):
    """-> (parser, parsed, ('ok', [line numbers]) | ('err', ExcName) )"""
    from osaca.parser import get_parser
    from osaca.semantics.marker_utils import reduce_to_section
    parser = get_parser(isa)
    parsed = parser.parse_file(text)
    r = quiet(reduce_to_section, parsed, isa)
    return parser, parsed, (("ok", [l.line_number for l in r[1]]) if r[0] == "ok" else r)


def judge_selection(ctx, case, got):
    """Independent oracle: what the property demands vs what the implementation returned."""
    kind, exp = case["expect"]
    if kind != "lines":
        return True
    if got == ("ok", exp):
        return True
    key = {"byte_head": KEY_BYTE_HEAD, "epi_symbolic": KEY_EPI_RAISE}.get(case["kind"], "selected-kernel-differs-" + case["kind"])
    what = "%s file (%s): kernel must be physical lines %s, reduce_to_section gave %s" % (
        case["isa"], case["kind"], exp, got[1] if got[0] == "ok" else "exception " + got[1])
    ctx.violation(key, what, {"type": "selection", "isa": case["isa"], "kind": case["kind"], "text": case["text"], "expect": exp})
    return False


def nums(l):
    return "[%s]" % "; ".join(str(n) for n in l)


def selection(ctx, n_cases, have_mgen, keep_files):
    """-> (model variant matched, [(isa, parser, parsed, term)] of the first keep_files cases)"""
    t0 = time.time()
    cases, skipped, oracle_bad = [], 0, 0
    shapes = {}
    kept = []
    for c in range(n_cases):
        isa = G.ISAS[c % 2]
        case = G.gen_file(ctx.rng, isa)
        try:
            parser, parsed, got = py_reduce(isa, case["text"])
            term = G.coq_file(parser, parsed)
        except Exception as e:  # noqa   (a line the real parser rejects / a non-ASCII field: not a selection case)
            skipped += 1
            continue
        exp = G.coq_result(got)
        case["got"] = got
        if exp is None:
            ctx.violation("reduce-raises-" + got[1], "reduce_to_section raises %s" % got[1],
                          {"type": "selection", "isa": isa, "kind": case["kind"], "text": case["text"], "expect": case["expect"][1]})
            continue
        cases.append((case, term, exp))
        if len(kept) < keep_files:
            kept.append((isa, parser, parsed, term))
        ctx.count()
        if not judge_selection(ctx, case, got):
            oracle_bad += 1
        ndec = case["text"].count("$111") + case["text"].count("#111") + case["text"].count("0x6f")
        shape = (isa, case["kind"], case["info"]["sm_style"], case["info"]["em_style"], min(ndec, 6))
        shapes[shape] = shapes.get(shape, 0) + 1
        if case["kind"] != "unmarked" and got[0] == "ok" and 0 < len(got[1]) < len(parsed):
            ctx.nontriv(shape)
        if c < 2:
            ctx.sample({"selection_case": case["kind"], "isa": isa, "text": case["text"], "kernel_lines": got[1]})
    # model evaluation, <= 250 cases per shard; the translated reduce_to_section on the same cases in shards of its own
    shards = []
    for s in range(0, len(cases), 250):
        chunk = cases[s:s + 250]
        body = ";\n ".join("(%s, %s, %s)" % ("true" if c["isa"] == "x86" else "false", term, exp) for c, term, exp in chunk)
        text = G.CASE_HEADER + "Definition cases : list (bool * list line * result (list nat)) :=\n [%s].\n" % body + \
            "Eval vm_compute in (show (bad true cases)).\nEval vm_compute in (show (bad false cases)).\n"
        shards.append(("sel_%d" % (s // 250), text))
    n_model = len(shards)
    if have_mgen:
        for s in range(0, len(cases), 250):
            chunk = cases[s:s + 250]
            rows = []
            for c, term, exp in chunk:
                # the ISA string in the letter case the caller might use (reduce_to_section lower-cases it)
                name = ctx.rng.choice({"x86": ["x86", "x86", "X86"], "aarch64": ["aarch64", "aarch64", "AArch64", "AARCH64"]}[c["isa"]])
                po = G.pyout(c["got"], nums)
                rows.append("(%s, %s, %s)" % (cs(name), term, po))
            text = G.GEN_HEADER.replace("@INSPECT@", "") + \
                "Definition cases : list (string * list line * pyout (list nat)) :=\n [%s].\n" % ";\n ".join(rows) + \
                "Eval vm_compute in (show (idx_bad (fun c => agree nums_eqb (g_reduce_to_section (snd (fst c)) (fst (fst c))) (snd c)) cases)).\n"
            shards.append(("gsel_%d" % (s // 250), text))
    res = ctx.coq_eval_many(shards, timeout=600)
    bad_g, bad_f, failed = [], [], []
    for si, (ok, out) in enumerate(res[:n_model]):
        if not ok or len(out) != 2:
            failed.append((si, out[0] if out else "no output"))
            continue
        bad_g += [si * 250 + int(x) for x in out[0].split(",") if x]
        bad_f += [si * 250 + int(x) for x in out[1].split(",") if x]
    variant = None
    if not failed:
        if not bad_g:
            variant = "shipped (greedy match_bytes)"
        elif not bad_f:
            variant = "repaired (match_bytes stops after the nop bytes)"
    detail = ""
    if failed:
        detail = "model evaluation failed: %s" % (failed[0][1][-1500:],)
    elif variant is None:
        i = bad_g[0]
        c = cases[i][0]
        detail = ("tree agrees with neither model variant: %d cases differ from the shipped variant, %d from the repaired one; "
                  "first: %s %s\n%s\nimplementation: %s" % (len(bad_g), len(bad_f), c["isa"], c["kind"], c["text"], c["got"]))
        # search: is the disagreeing case also an oracle failure?  (judge_selection already recorded those);
        # if the property is silent about the case, record it as the concrete input of the broken correspondence
        for i in bad_g[:3]:
            c = cases[i][0]
            if c["expect"][0] != "lines":
                ctx.violation("selection-differs-from-model-" + c["kind"],
                              "%s %s file: reduce_to_section gave %s, the model of marker_utils says otherwise" % (c["isa"], c["kind"], c["got"]),
                              {"type": "selection-model", "isa": c["isa"], "kind": c["kind"], "text": c["text"], "got": list(c["got"])})
    ctx.obligation("correspondence: reduce_to_section (real parsers) = Model/Select.v on %d random files" % len(cases),
                   "correspondence", variant is not None, detail)
    if have_mgen:
        gbad, gfail = [], []
        for si, (ok, out) in enumerate(res[n_model:]):
            if not ok or len(out) != 1:
                gfail.append(out[0] if out else "no output")
            else:
                gbad += [si * 250 + int(x) for x in out[0].split(",") if x]
        d = ""
        if gfail:
            d = "evaluation of the translated definitions failed: %s" % gfail[0][-1500:]
        elif gbad:
            c = cases[gbad[0]][0]
            d = "translated reduce_to_section differs from CPython on %d cases; first: %s %s\n%s\nimplementation: %s" % (
                len(gbad), c["isa"], c["kind"], c["text"], c["got"])
        ctx.obligation("cross-check: translated reduce_to_section (Gen/MarkerGen.v) = CPython on %d random files" % len(cases),
                       "correspondence", not gfail and not gbad, d)
    ctx.coverage["selection"] = {"cases": len(cases), "skipped_unparseable": skipped, "model_variant_matched": variant,
                                 "oracle_failures": oracle_bad,
                                 "by_kind": {k: sum(v for s, v in shapes.items() if s[1] == k) for k in sorted({s[1] for s in shapes})},
                                 "start_styles": {k: sum(v for s, v in shapes.items() if s[2] == k) for k in sorted({s[2] for s in shapes})}}
    ctx.log("selection: %d cases (%d skipped), model variant matched: %s, oracle failures %d (%.1fs)" % (
        len(cases), skipped, variant, oracle_bad, time.time() - t0))
    if skipped > n_cases // 5:
        ctx.obligation("selection generator produces parseable files", "harness", False, "%d of %d skipped" % (skipped, n_cases))
    return variant, kept


def selection_oracle_only(ctx, n_cases):
    """focused search: more random files through the real parser and reduce_to_section, judged by the generator's knowledge"""
    bad = 0
    for c in range(n_cases):
        isa = G.ISAS[c % 2]
        case = G.gen_file(ctx.rng, isa)
        try:
            _, _, got = py_reduce(isa, case["text"])
        except Exception:  # noqa
            continue
        ctx.count()
        if got[0] == "err" and got[1] not in ("ValueError", "IndexError"):
            ctx.violation("reduce-raises-" + got[1], "reduce_to_section raises %s" % got[1],
                          {"type": "selection", "isa": isa, "kind": case["kind"], "text": case["text"], "expect": case["expect"][1]})
        elif not judge_selection(ctx, case, got):
            bad += 1
    ctx.log("focused search (markers): %d more random files judged by the generator's oracle, %d failures" % (n_cases, bad))
    return bad


# ------------------------------------------------------------------------------------------- translated definitions
def inspect_statement():
    """The statement `if args.lines: ... else: ...` of the CURRENT osaca.py:inspect as a Python function
    (args_lines, parsed_code, isa) -> kernel, executed in osaca.osaca's own namespace.  None if it cannot be isolated."""
    import osaca.osaca as O
    try:
        u = gen_c11b.MUnit(os.path.join(vlib.REPO, "osaca/osaca.py"))
        f, _ = gen_c11b.inspect_selection(u)
        ns = dict(vars(O))
        exec(compile(ast.unparse(f), "<osaca.py:inspect selection statement>", "exec"), ns)
        return ns["inspect_select"]
    except Exception:  # noqa
        return None


def direct_calls(ctx, kept, have_mgen, have_igen):
    """match_bytes / find_marked_section called directly, and the selection statement of inspect executed in CPython,
    against their translations (Gen/MarkerGen.v, Gen/InspectGen.v) on the parsed files of the selection cases."""
    if not have_mgen or not kept:
        return
    from osaca.semantics import marker_utils as MU
    stmt = inspect_statement() if have_igen else None
    t0 = time.time()
    shards = []
    meta = []
    per = 40
    unmodelled = []
    for s in range(0, len(kept), per):
        chunk = kept[s:s + per]
        files = "[%s]" % ";\n ".join(term for _, _, _, term in chunk)
        mb_rows, fs_rows, in_rows = [], [], []
        info = {"mb": [], "fs": [], "ins": []}
        for k, (isa, parser, parsed, term) in enumerate(chunk):
            mbs, fss = G.gen_direct_calls(ctx.rng, isa, len(parsed))
            for idx, bl in mbs:
                r = quiet(MU.match_bytes, parsed, idx, bl)
                po = G.pyout(r, lambda v: "(%s, (%d)%%Z)" % ("true" if v[0] else "false", v[1]))
                ctx.count()
                if po is None:
                    unmodelled.append(("match_bytes", r))
                    continue
                mb_rows.append("(%d, (%d)%%Z, %s, %s)" % (k, idx, G.zlist(bl), po))
                info["mb"].append((isa, idx, bl, r))
            for a in fss:
                r = quiet(MU.find_marked_section, parsed, parser, a["mov_instr"], a["mov_reg"], a["mov_vals"], a["nop_bytes"],
                          reverse=a["reverse"], comments=a["comments"])
                po = G.pyout(r, lambda v: "((%d)%%Z, (%d)%%Z)" % (v[0], v[1]))
                ctx.count()
                if po is None:
                    unmodelled.append(("find_marked_section", r))
                    continue
                cm = "None" if a["comments"] is None else "(Some [%s])" % "; ".join("(%s, %s)" % (cs(x), cs(y)) for x, y in a["comments"].items())
                fs_rows.append("(%d, %s, %s, %s, %s, %s, %s, %s, %s)" % (
                    k, "true" if isa == "x86" else "false", G.slist(a["mov_instr"]), cs(a["mov_reg"]), G.zlist(a["mov_vals"]),
                    G.zlist(a["nop_bytes"]), "true" if a["reverse"] else "false", cm, po))
                info["fs"].append((isa, a, r))
            if stmt is not None:
                arg = G.gen_lines_arg(ctx.rng, [l.line_number for l in parsed])
                r = quiet(stmt, arg, parsed, isa)
                if r[0] == "ok":
                    r = ("ok", [l.line_number for l in r[1]])
                po = G.pyout(r, nums)
                ctx.count()
                if po is None:
                    unmodelled.append(("inspect selection", r))
                    continue
                in_rows.append("(%s, %d, %s, %s)" % ("None" if arg is None else "(Some %s)" % cs(arg), k, cs(isa), po))
                info["ins"].append((isa, arg, r))
        text = G.GEN_HEADER.replace("@INSPECT@", " Gen.LineRange Gen.InspectGen" if stmt is not None else "") + \
            "Definition files : list (list line) :=\n %s.\n" % files + \
            "Definition mb : list (nat * Z * list Z * pyout (bool * Z)) :=\n [%s].\n" % ";\n ".join(mb_rows) + \
            "Definition fs : list (nat * bool * list string * string * list Z * list Z * bool * option pydict * pyout (Z * Z)) :=\n [%s].\n" % ";\n ".join(fs_rows) + \
            "Eval vm_compute in (show (idx_bad (fun c => let '(k, i, bl, p) := c in agree bz_eqb (g_match_bytes (file_of files k) i bl) p) mb)).\n" + \
            "Eval vm_compute in (show (idx_bad (fun c => let '(k, x, mi, mr, mv, nb, rv, cm, p) := c in " \
            "agree zz_eqb (g_find_marked_section (file_of files k) (pk x) mi mr mv nb rv cm) p) fs)).\n"
        if stmt is not None:
            text += "Definition ins : list (option string * nat * string * pyout (list nat)) :=\n [%s].\n" % ";\n ".join(in_rows) + \
                "Eval vm_compute in (show (idx_bad (fun c => let '(a, k, n, p) := c in agree nums_eqb (g_inspect_select a (file_of files k) n) p) ins)).\n"
        shards.append(("direct_%d" % (s // per), text))
        meta.append(info)
    res = ctx.coq_eval_many(shards, timeout=600)
    bad = {"mb": [], "fs": [], "ins": []}
    failed = []
    n = {"mb": 0, "fs": 0, "ins": 0}
    exc = {"mb": 0, "fs": 0, "ins": 0}
    for (ok, out), info in zip(res, meta):
        for key in n:
            n[key] += len(info[key])
            exc[key] += sum(1 for x in info[key] if x[-1][0] == "err")
        if not ok or len(out) != (3 if stmt is not None else 2):
            failed.append(out[0] if out else "no output")
            continue
        for key, o in zip(("mb", "fs", "ins"), out):
            bad[key] += [info[key][int(x)] for x in o.split(",") if x]
    names = {"mb": "match_bytes", "fs": "find_marked_section", "ins": "the selection statement of osaca.py:inspect"}
    for key in ("mb", "fs") + (("ins",) if stmt is not None else ()):
        d = ""
        if failed:
            d = "evaluation of the translated definitions failed: %s" % failed[0][-1500:]
        elif bad[key]:
            d = "%d of %d direct calls differ; first: %s" % (len(bad[key]), n[key], (bad[key][0],))
        ctx.obligation("cross-check: translated %s = CPython on %d direct calls (%d raise)" % (names[key], n[key], exc[key]),
                       "correspondence", not failed and not bad[key], d)
    if have_igen and stmt is None:
        ctx.obligation("cross-check: the selection statement of osaca.py:inspect can be isolated and executed", "correspondence", False,
                       "no top-level `if args.lines:` statement in inspect")
    if unmodelled:
        ctx.obligation("direct calls raise only modelled exception classes", "correspondence", False, "%s" % (unmodelled[:3],))
    ctx.coverage["translated_definitions"] = {"files": len(kept), "direct_calls": n, "of_which_raise": exc}
    ctx.log("translated definitions: %d match_bytes, %d find_marked_section, %d inspect-statement calls vs CPython: %s (%.1fs)" % (
        n["mb"], n["fs"], n["ins"], "agree" if not failed and not any(bad.values()) else "DISAGREE", time.time() - t0))


def marker_translation(ctx, have_line_range):
    """T for marker_utils.py and the selection statement of inspect -> (MarkerGen available, InspectGen available)"""
    gen = gen_c11b.generate(vlib.REPO, os.path.join(vlib.COQ, "Gen"))
    what = {"MarkerGen.v": "match_bytes, find_marked_section, find_marked_kernel_x86ATT/_AArch64, reduce_to_section, COMMENT_MARKER "
                           "(osaca/semantics/marker_utils.py)",
            "InspectGen.v": "the selection statement `if args.lines:` of inspect (osaca/osaca.py)"}
    have = {}
    for fn in ("MarkerGen.v", "InspectGen.v"):
        ok, text = gen[fn]
        ctx.obligation("translate %s from the current source" % what[fn], "translation", ok, "" if ok else text)
        have[fn] = ok
    if have["MarkerGen.v"]:
        c, out, _ = ctx.coqc(os.path.join(vlib.COQ, "Gen", "MarkerGen.v"))
        ctx.obligation("generated MarkerGen.v type-checks", "translation", c, out)
        have["MarkerGen.v"] = c
    thm_ok = False
    if have["MarkerGen.v"]:
        thm_ok, _ = ctx.compile_theorems("PropsGen/C11gen.v")
    else:
        ctx.obligation("theorems of PropsGen/C11gen.v", "theorem", False, "generated definitions unavailable")
    if have["InspectGen.v"] and have["MarkerGen.v"] and have_line_range:
        c, out, _ = ctx.coqc(os.path.join(vlib.COQ, "Gen", "InspectGen.v"))
        ctx.obligation("generated InspectGen.v type-checks", "translation", c, out)
        have["InspectGen.v"] = c
    else:
        have["InspectGen.v"] = False
    if have["InspectGen.v"] and thm_ok:
        ctx.compile_theorems("PropsGen/C11genLines.v")
    else:
        ctx.obligation("theorems of PropsGen/C11genLines.v", "theorem", False,
                       "generated definitions unavailable (inspect statement / get_line_range / marker functions not translated, "
                       "or PropsGen/C11gen.v does not check)")
    return have["MarkerGen.v"], have["InspectGen.v"]


# ------------------------------------------------------------------------------------------- --lines
def py_line_range(s):
    from osaca.osaca import get_line_range
    try:
        return ("ok", list(get_line_range(s)))
    except Exception as e:  # noqa
        return ("err", type(e).__name__)


def line_ranges(ctx, n_cases, have_gen):
    """get_line_range is an INTERNAL function: what it returns is compared (i) with the flat list of named numbers and
    (ii) with the translated Gallina; a difference is a broken obligation (it starts the focused --lines search),
    not a violation of the property."""
    cases = []
    unit_bad = []
    for c in range(n_cases):
        s, exp = G.gen_lines_string(ctx.rng)
        got = py_line_range(s)
        ctx.count()
        if exp is not None:
            if "-" in s or ":" in s:
                ctx.nontriv(("lines", s))
            if got != ("ok", exp):
                unit_bad.append("get_line_range(%r) = %s, expected the named numbers %s" % (s, got[1], exp))
        r = G.coq_result(got) if got[0] == "err" or all(isinstance(n, int) and not isinstance(n, bool) for n in got[1]) else None
        if r is None:
            unit_bad.append("get_line_range(%r) -> %s" % (s, got[1] if got[0] == "err" else "a %s that is not a list of ints" % type(got[1]).__name__))
            continue
        if got[0] == "ok":
            r = "(Ok [%s])" % "; ".join("(%d)%%Z" % n for n in got[1])
        cases.append((s, r))
        if c < 2:
            ctx.sample({"lines_string": s, "result": got[1]})
    ctx.obligation("unit level: get_line_range returns the flat list of the named line numbers on %d --lines strings" % n_cases,
                   "correspondence", not unit_bad, "%d differ; first: %s" % (len(unit_bad), unit_bad[:3]))
    if not have_gen:
        return
    body = ";\n ".join("(%s, %s)" % (cs(s), r) for s, r in cases)
    text = G.LR_HEADER + "Definition cases : list (string * result (list Z)) :=\n [%s].\nEval vm_compute in (show (bad cases)).\n" % body
    ok, out, dt = ctx.coq_eval("lines_corr", text, timeout=600)
    good = ok and out and out[0] == ""
    detail = ""
    if not ok:
        detail = out[0][-1500:]
    elif not good:
        idx = [int(x) for x in out[0].split(",") if x]
        detail = "translated get_line_range differs from Python on: %s" % [(cases[i][0], cases[i][1]) for i in idx[:5]]
    ctx.obligation("correspondence: translated get_line_range = Python on %d random --lines strings" % len(cases), "correspondence", good, detail)
    ctx.log("--lines: %d strings, translated Gallina %s (%.1fs)" % (len(cases), "agrees" if good else "DISAGREES", dt))


# ------------------------------------------------------------------------------------------- end to end
def e2e_pairs(ctx, n_pairs, small_only=False):
    kernels = E.shipped_kernels()
    archs = {"x86": [a for a in models.X86], "aarch64": [a for a in models.A64]}
    if ctx.tier != "thorough" or small_only:
        archs = {k: [a for a in v if a in models.SMALL] for k, v in archs.items()}
    pairs = []
    usable = {}
    for f in kernels:
        ek = E.extract_kernel(f)
        if ek is not None:
            usable[f] = ek
    for f, (isa, _) in usable.items():
        for a in archs[isa]:
            pairs.append((f, a))
    ctx.rng.shuffle(pairs)
    if n_pairs is not None:
        # quick tier: every ISA and as many different kernels as possible
        seen, pick = set(), []
        for f, a in pairs:
            if f not in seen:
                seen.add(f)
                pick.append((f, a))
        pairs = (pick + [p for p in pairs if p not in pick])[:n_pairs]
    return kernels, usable, archs, pairs


def lines_family_search(ctx, n_pairs_per_isa, n_random, budget_s):
    """The --lines oracle on observable behaviour: rows of the report == the named lines, numbers == those of the file
    containing only these lines; single numbers, a-b, a:b, duplicates, overlapping, NESTED, unordered, adjacent entries."""
    t0 = time.time()
    kernels, usable, archs, pairs = e2e_pairs(ctx, None, small_only=True)     # the selection does not depend on the model: fast-loading ones
    work = os.path.join(ctx.scratch, "e2e")
    os.makedirs(work, exist_ok=True)
    done = {"x86": 0, "aarch64": 0}
    specs = found = 0
    for f, a in pairs:
        isa, ktext = usable[f]
        if done[isa] >= n_pairs_per_isa or not (6 <= len(ktext) <= 40) or time.time() - t0 > budget_s:
            continue
        stats, bad = E.check_lines_specs(ctx, ctx.rng, f, a, work, n_random=n_random)
        if stats is None:
            continue
        done[isa] += 1
        specs += stats["specs"]
        ctx.count(stats["specs"])
        ctx.nontriv(("e2e-lines", os.path.basename(f), a))
        for tag, spec, what, replay in bad:
            found += 1
            ctx.violation("e2e-lines-selects-wrong-lines", "%s on %s, --lines %s (%s): %s" % (os.path.basename(f), a, spec, tag, what), replay)
    ctx.coverage["lines_family"] = {"pairs": done, "lines_arguments": specs, "failures": found}
    ctx.log("--lines family (report rows == named lines, numbers == only-these-lines file): %s pairs, %d arguments, %d failures (%.1fs)" % (
        done, specs, found, time.time() - t0))
    return found


HL_KERNEL = {"x86": ["vmovapd (%rsi,%rax), %ymm0", "vmovsd 8(%rdx,%rax), %xmm1", "vaddpd %ymm0, %ymm2, %ymm3", "vmovapd %ymm3, (%rdi,%rax)",
                     "vmovsd 16(%rdx,%rax), %xmm4", "vaddsd %xmm1, %xmm4, %xmm5", "addq $32, %rax"],
             "aarch64": ["ldr q0, [x1, x3]", "ldr d1, [x2, #8]", "fadd v2.2d, v0.2d, v2.2d", "str q2, [x0, x3]", "ldr d4, [x2, #16]",
                         "fadd d5, d1, d4", "add x3, x3, #16"]}


def hidden_load_models(ctx):
    """The noise-transparency theorems and C01's model assume `hidden_loads: false` (true of every shipped model when the framework was
    written): the deprecated hidden-load rewrite ranks loads by LINE-NUMBER distance to a store.  Read the header of every shipped
    model file as plain YAML; a model that switches the feature on breaks the assumption, and is then exercised with a kernel of the
    shape the rewrite acts on (more pure loads than stores, a store between two loads) under noise-line insertion."""
    import models
    import ruamel.yaml
    on = []
    for a in models.nonempty_archs():
        try:
            head = ""
            for line in open(models.yaml_path(a)):
                if line.startswith("instruction_forms"):
                    break
                head += line
            if ruamel.yaml.YAML(typ="safe").load(head).get("hidden_loads"):
                on.append(a)
        except Exception:
            continue
    ctx.obligation("assumption of the transparency theorems holds for the shipped data: no model file sets hidden_loads", "assumption", not on,
                   "hidden_loads is switched on in: %s" % on)
    ctx.coverage["models_with_hidden_loads"] = on
    if not on:
        return
    work = os.path.join(ctx.scratch, "e2e-hl")
    os.makedirs(work, exist_ok=True)
    for a in on:
        isa = "x86" if a in models.X86 else "aarch64"
        path = os.path.join(work, "hl_%s.s" % a)
        with open(path, "w") as f:
            f.write("\n".join(HL_KERNEL[isa]) + "\n")
        for rep in range(3):
            stats, bad = E.check_kernel(ctx, ctx.rng, path, a, 4, work)
            if stats is None or stats["unstable"]:
                continue
            ctx.count(stats["variants"] - 1)
            for name, diff, replay in bad:
                vk = name.split("-")[0].split("[")[0]
                replay["type"] = "e2e"
                replay["kernel_file_text"] = "\n".join(HL_KERNEL[isa]) + "\n"
                ctx.violation("e2e-%s-differs-from-kernel-only" % vk, "hidden-load kernel on %s: variant %s %s gives a different report than the "
                              "kernel-only file: %s" % (a, name, " ".join(replay["extra_args"]), diff), replay)
            if bad:
                break


def end_to_end(ctx, budget_s, n_pairs, n_noise):
    t0 = time.time()
    hidden_load_models(ctx)
    kernels, usable, archs, pairs = e2e_pairs(ctx, n_pairs)
    work = os.path.join(ctx.scratch, "e2e")
    os.makedirs(work, exist_ok=True)
    done = comparisons = unstable = 0
    per_isa = {"x86": 0, "aarch64": 0}
    for f, a in pairs:
        if time.time() - t0 > budget_s:
            break
        stats, bad = E.check_kernel(ctx, ctx.rng, f, a, n_noise, work)
        if stats is None:
            continue
        done += 1
        per_isa[stats["isa"]] += 1
        if stats["unstable"]:
            unstable += 1
            continue
        comparisons += stats["variants"] - 1
        ctx.count(stats["variants"] - 1)
        ctx.nontriv(("e2e", os.path.basename(f), a))
        for name, diff, replay in bad:
            vk = name.split("-")[0].split("[")[0]
            replay["type"] = "e2e"
            ctx.violation("e2e-%s-differs-from-kernel-only" % vk,
                          "%s on %s: variant %s %s gives a different report than the kernel-only file: %s" % (
                              os.path.basename(f), a, name, " ".join(replay["extra_args"]), diff), replay)
    ctx.coverage["end_to_end"] = {"shipped_kernels_usable": len(usable), "of": len(kernels), "kernel_model_pairs_run": done,
                                  "pairs_available": len(pairs), "comparisons": comparisons, "per_isa": per_isa,
                                  "skipped_state_dependent(C18)": unstable, "archs": archs}
    ctx.log("end-to-end: %d (kernel, model) pairs of %d, %d comparisons, %d state-dependent skipped (%.1fs)" % (
        done, len(pairs), comparisons, unstable, time.time() - t0))
    ctx.obligation("end-to-end metamorphic oracle ran on both ISAs", "harness", per_isa["x86"] > 0 and per_isa["aarch64"] > 0 and comparisons > 0,
                   "pairs run per ISA: %s" % per_isa)


# ------------------------------------------------------------------------------------------- run / replay
def run(ctx):
    ctx.trusted += ["abstraction of parsed lines to Model/Select.v's line type (harness/c11_gen.py: mnemonic, normalize_imd / "
                    "get_full_reg_name of each operand, directive name + parameters, comment, line number)",
                    "translators tools/gen_c11.py, tools/gen_c11b.py (on tools/py2coq.py + tools/gen_c01.py's imperative layer; "
                    "fail-closed; their output is proved equal to the hand model and cross-checked against CPython each run) and the "
                    "Python prelude Model/PyMarker.v (typed image of InstructionForm / operands / parser objects; stdout not modelled)",
                    "pyparsing grammars are exercised, not modelled (C09/C10); the deeper pipeline transparency theorem "
                    "(costing / DAG / LCD ignore noise lines) is left to the core model; here it is the end-to-end metamorphic oracle"]
    ctx.assumptions += ["ASCII input; int() literals shorter than Python's 4300-digit limit",
                        "mov/movl lines carry two operands (a one-operand mov followed by a directive raises IndexError: noise_after_short_mov_refuted)"]
    ctx.ensure_static()
    ctx.compile_theorems("Props/C11.v")
    gen = gen_c11.generate(vlib.REPO, os.path.join(vlib.COQ, "Gen"))
    ok_gen, text = gen["LineRange.v"]
    ctx.obligation("translate get_line_range from the current source", "translation", ok_gen, "" if ok_gen else text)
    compiled = False
    if ok_gen:
        compiled, out, _ = ctx.coqc(os.path.join(vlib.COQ, "Gen", "LineRange.v"))
        ctx.obligation("generated LineRange.v type-checks", "translation", compiled, out)
    if compiled:
        ctx.compile_theorems("PropsGen/C11.v")
    else:
        ctx.obligation("theorems of PropsGen/C11.v", "theorem", False, "generated definitions unavailable")
    have_mgen, have_igen = marker_translation(ctx, compiled)
    variant, kept = selection(ctx, ctx.n(400, 3000), have_mgen, ctx.n(120, 600))
    direct_calls(ctx, kept, have_mgen, have_igen)
    line_ranges(ctx, ctx.n(300, 2000), compiled)
    broken = bool(ctx.broken())
    if broken:
        # an internal function no longer matches (translator failed closed / theorem broke / unit-level outputs differ):
        # FIRST look for a concrete failing input on observable behaviour, with inputs focused on what broke
        ctx.log("broken obligations: %s -- focused search for a concrete failing input" % [o["name"][:60] for o in ctx.broken()][:6])
        lines_family_search(ctx, n_pairs_per_isa=ctx.n(2, 6), n_random=ctx.n(10, 40), budget_s=ctx.n(60, 400))
        selection_oracle_only(ctx, ctx.n(1200, 6000))
    # the end-to-end oracle; when something above broke, spend more of the budget searching
    end_to_end(ctx, budget_s=ctx.n(75, 600) * (1.5 if broken else 1), n_pairs=ctx.n(14, None), n_noise=ctx.n(2, 5))
    if not broken:
        lines_family_search(ctx, n_pairs_per_isa=ctx.n(1, 8), n_random=ctx.n(4, 20), budget_s=ctx.n(40, 150))
    ctx.coverage["model_variant"] = variant


def replay(ctx, obj):
    r = obj["replay"]
    t = r.get("type")
    ctx.count()
    if t == "selection":
        _, _, got = py_reduce(r["isa"], r["text"])
        ctx.log("replay: reduce_to_section -> %s ; demanded %s" % (got, r["expect"]))
        if r["expect"] is None or got != ("ok", r["expect"]):
            ctx.violation(obj["key"], obj["what"], r)
    elif t == "selection-model":
        _, _, got = py_reduce(r["isa"], r["text"])
        ctx.log("replay: reduce_to_section -> %s (recorded %s)" % (got, r["got"]))
        if list(got) == r["got"]:
            ctx.violation(obj["key"], obj["what"], r)
    elif t == "lines":
        got = py_line_range(r["s"])
        ctx.log("replay: get_line_range(%r) -> %s ; demanded %s" % (r["s"], got, r["expect"]))
        if r["expect"] is None or got != ("ok", r["expect"]):
            ctx.violation(obj["key"], obj["what"], r)
    elif t == "e2e-lines":
        work = os.path.join(ctx.scratch, "e2e")
        os.makedirs(work, exist_ok=True)
        ok, what = E.replay_lines(r, work)
        ctx.log("replay: --lines %s -> %s" % (r["spec"], what))
        if not ok:
            ctx.violation(obj["key"], obj["what"], r)
    elif t == "e2e":
        work = os.path.join(ctx.scratch, "e2e")
        os.makedirs(work, exist_ok=True)
        fk, fv = os.path.join(work, "k.s"), os.path.join(work, "v.s")
        open(fk, "w").write(r["kernel_text"])
        open(fv, "w").write(r["file_text"])
        E.run_osaca(["--arch", r["arch"], fk])
        rep_k, e1 = E.run_osaca(["--arch", r["arch"], fk])
        rep_v, e2 = E.run_osaca(["--arch", r["arch"]] + r["extra_args"] + [fv])
        n = len(r["kernel_text"].rstrip("\n").split("\n"))
        a = E.canon(rep_k, {i + 1: i for i in range(n)}) if rep_k is not None else "EXCEPTION " + e1
        b = E.canon(rep_v, {int(k): v for k, v in r["renum"].items()}) if rep_v is not None else "EXCEPTION " + e2
        ctx.log("replay: kernel-only vs %s: %s" % (r["variant"], "same" if a == b else "DIFFERENT"))
        if a != b:
            ctx.violation(obj["key"], obj["what"], r)
    else:
        run(ctx)
