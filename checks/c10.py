"""C10 -- the AArch64 parser recovers every line and operand exactly as written.

Theorems (coq/Props/C10.v): the model is parameterised by the configuration fx = which of the four repairs
   patches/C10-fix-*.diff the tree contains.  parse_render_line_fx -- parse_line fx (render lay trail l) = Parsed (denote l)
   for all configurations, all written lines of the configuration's sub-language and all layouts (lexer lemma lex_render +
   token-level lemma parse_tokens_line); its instances parse_render_line_partial (parser as found) and
   parse_render_line_full (all repairs: the whole language of the property, any layout); per defect the refutation of the
   full-strength statement for every configuration lacking the repair (four witness lines) and the positive theorem for
   every configuration containing it; exclusivity of the line kinds; parse_file numbering/text/count.
Configuration: run_witnesses replays the witness lines on the implementation; a repair counts as present when all witness
   lines of its defect are parsed as written (otherwise the known finding is reported).  All correspondence shards hold the
   model OF THAT CONFIGURATION against the implementation, so a tree whose behaviour is neither that of the unrepaired nor
   that of the repaired grammar breaks an obligation.
X: random written syntax trees are rendered with random layouts (Python mirror of the Coq `render`; every
   shard re-checks `render lay tree = line`, well-formedness and `show (denote tree)` in Coq), parsed by the
   real ParserAArch64 and by the model; a malformed stream (token deletions/duplications/swaps) checks
   accept/reject and result agreement wherever the model does not answer Unmodelled; whole files check
   parse_file.
Search/oracle: the round trip on the implementation itself -- serialise(parse_line(render tree)) must be the
   meaning of the tree (computed by the generator, independent of the model); every returned form must
   claim exactly one line kind; parse_file must return exactly the non-blank lines, 1-based, verbatim.
"""
import os
import re
import vlib
import c10_lib as L
import c10_gen as G

FINISH = dict(level="proof",
              rule="a case = one rendered line (tree + layout) parsed by the implementation and by the model; "
                   "non-trivial = instruction line with at least one operand; distinct = distinct rendered lines")

KEY_SWALLOW = "label-with-shift-prefix-after-operand"
KEY_SXTX = "sxtx-extend"
KEY_CONDSPACE = "condition-code-followed-by-space"
KEY_DIRCOMMENT = "directive-comment-with-comma"
# finding key -> field of the model's `fixes` record (Model/ParseA64.v): the repair that removes the finding
FIX_OF_KEY = {KEY_SWALLOW: "word", KEY_CONDSPACE: "cond", KEY_SXTX: "sxtx", KEY_DIRCOMMENT: "dir"}


def parser():
    from osaca.parser import ParserAArch64
    return ParserAArch64()


# ------------------------------------------------------------------ round-trip stream
def tree_shard(cases, cfg):
    rows = []
    for c in cases:
        rows.append("(%s, %s, %s, %s, %s, %s, %s)" % (
            c["coq"], G.lay_coq(c["lay"]), L.coq_str(c["trail"]), L.coq_str(c["line"]),
            L.coq_str(c["real"]), L.coq_str(c["expected"]), G.cb(c["partial_ok"])))
    return L.SHARD_HEAD + "Definition cfg : fixes := %s.\n" % L.cfg_coq(cfg) + """From OV Require Import Model.SyntaxA64.
Definition cases : list (wline * list string * string * string * string * string * bool) := [
%s ].
Definition c_tree (c : wline * list string * string * string * string * string * bool) := match c with (t,_,_,_,_,_,_) => t end.
Definition c_lay (c : wline * list string * string * string * string * string * bool) := match c with (_,l,_,_,_,_,_) => l end.
Definition c_trail (c : wline * list string * string * string * string * string * bool) := match c with (_,_,t,_,_,_,_) => t end.
Definition c_line (c : wline * list string * string * string * string * string * bool) := match c with (_,_,_,l,_,_,_) => l end.
Definition c_real (c : wline * list string * string * string * string * string * bool) := match c with (_,_,_,_,r,_,_) => r end.
Definition c_exp (c : wline * list string * string * string * string * string * bool) := match c with (_,_,_,_,_,e,_) => e end.
Definition c_part (c : wline * list string * string * string * string * string * bool) := match c with (_,_,_,_,_,_,p) => p end.
Definition g_gen c := andb (wline_okb (if c_part c then cfg else fx_all) (c_tree c)) (andb (layout_okb (c_lay c) (c_trail c) (c_tree c))
  (if c_part c then cond_tight cfg (c_lay c) (c_trail c) (c_tree c) else true)).
Definition g_render c := String.eqb (render (c_lay c) (c_trail c) (c_tree c)) (c_line c).
Definition g_mirror c := String.eqb (show_pline (denote (c_tree c))) (c_exp c).
Definition g_model c :=
  if andb (negb (c_part c)) (String.eqb (c_real c) (c_exp c)) then true   (* a line outside the sub-language of cfg on which the implementation nevertheless satisfies the property *)
  else match parse_line cfg (c_line c) with
  | Parsed p => String.eqb (show_pline p) (c_real c)
  | Unm => negb (c_part c)
  | Rej => prefix_of "REJECT" (c_real c)
  end.
Definition g_thm c :=
  if c_part c then String.eqb (show_result (parse_line cfg (c_line c))) (show_pline (denote (c_tree c))) else true.
Definition failing (g : _ -> bool) : string :=
  idxs (fun i => match nth_error cases i with Some c => negb (g c) | None => true end) (length cases).
Eval vm_compute in (failing g_gen ++ "|" ++ failing g_render ++ "|" ++ failing g_mirror ++ "|" ++ failing g_model ++ "|" ++ failing g_thm).
""" % ";\n".join(rows)


def gen_cases(ctx, n, p, cfg):
    cases = []
    for i in range(n):
        full = ctx.rng.random() < 0.12
        ln = G.gen_line(ctx.rng, full=full, cfg=cfg)
        lay, trail = G.gen_layout(ctx.rng, ln.toks)
        line = G.render(ln.toks, lay, trail)
        real = L.real_parse(p, line)
        if G.cond_spaced(ln.toks, lay, trail) and not cfg["cond"]:
            ln.tags.add(KEY_CONDSPACE)
            ln.partial_ok = False
        cases.append(dict(coq=ln.coq, lay=lay, trail=trail, line=line, real=real, expected=ln.expected,
                          partial_ok=ln.partial_ok, tags=sorted(ln.tags), kind=ln.kind, opkinds=ln.opkinds, toks=ln.toks))
    return cases


def oracle_roundtrip(ctx, cases):
    """independent of the model: the implementation's result must be the meaning of the tree"""
    hist = ctx.coverage.setdefault("operand_kinds", {})
    bad = 0
    for c in cases:
        ctx.count()
        for k in c["opkinds"]:
            hist[k] = hist.get(k, 0) + 1
        hist["line:" + c["kind"]] = hist.get("line:" + c["kind"], 0) + 1
        if c["opkinds"]:
            ctx.nontriv(c["line"])
        if c["real"] != c["expected"]:
            bad += 1
            key = c["tags"][0] if c["tags"] else "roundtrip-mismatch-" + c["kind"]
            ctx.violation(key, "parse_line(%r) returned %s, the line says %s" % (c["line"], c["real"], c["expected"]),
                          {"line": c["line"], "expected": c["expected"]})
        elif c["tags"]:
            pass
    return bad


def run_tree_stream(ctx, p, n, cfg):
    cases = gen_cases(ctx, n, p, cfg)
    for c in cases[:3]:
        ctx.sample({"line": c["line"], "implementation": c["real"]})
    bad = oracle_roundtrip(ctx, cases)
    shards = [(("c10_tree_%03d" % k), tree_shard(cases[i:i + 400], cfg)) for k, i in enumerate(range(0, len(cases), 400))]
    res = ctx.coq_eval_many(shards, timeout=900)
    names = ["generator/well-formedness", "render mirror", "denote mirror", "model = implementation", "round-trip theorem instance"]
    fails = {nm: [] for nm in names}
    broken_out = []
    for k, (ok, out) in enumerate(res):
        if not ok or not out:
            broken_out.append((out or ["no output"])[0][-1500:])
            continue
        parts = out[0].split("|")
        for nm, part in zip(names, parts):
            for x in part.split(","):
                if x:
                    fails[nm].append(cases[k * 400 + int(x)])
    ctx.obligation("round-trip shards evaluate (%d shards)" % len(shards), "correspondence", not broken_out, "\n".join(broken_out[:2]))
    for nm in names:
        f = fails[nm]
        detail = "" if not f else "%d cases, first: line=%r real=%s expected=%s tree=%s" % (
            len(f), f[0]["line"], f[0]["real"], f[0]["expected"], f[0]["coq"])
        ctx.obligation("round-trip stream, %d lines: %s" % (len(cases), nm), "correspondence", not f, detail)
    ctx.log("round-trip stream: %d lines, %d oracle failures, model/impl disagreements %d" % (len(cases), bad, len(fails[names[3]])))
    return cases


# ------------------------------------------------------------------ malformed stream
def mutate(rng, toks):
    toks = list(toks)
    for _ in range(rng.choice([1, 1, 2])):
        if not toks:
            break
        r, i = rng.random(), rng.randrange(len(toks))
        if r < 0.4:
            del toks[i]
        elif r < 0.65:
            toks.insert(i, toks[i])
        elif r < 0.9 and len(toks) > 1:
            j = rng.randrange(len(toks))
            toks[i], toks[j] = toks[j], toks[i]
        else:
            toks.insert(i, rng.choice([G.P(c) for c in ",[]{}#!-/:"] + [G.W("lsl"), G.W("x3"), G.W("7"), G.W("sp"),
                                                                        G.W("sxtx"), G.W("ne"), G.W("LSLx"), G.W("uxtw3")]))
    # a comment token only survives at the end of the line
    toks = [t for k, t in enumerate(toks) if t[0] != "C" or k == len(toks) - 1]
    return toks


HUGE_SHIFT = re.compile(r"(?i)(lsl|lsr|asr|ror|[su]xt[bhwx]|msl)[\s#]*[0-9]{3,}")


def run_malformed(ctx, p, base, n, cfg):
    cases = []
    skipped = 0
    while len(cases) < n:
        c = ctx.rng.choice(base)
        toks = mutate(ctx.rng, c["toks"])
        if not toks:
            continue
        lay, trail = G.gen_layout(ctx.rng, toks)
        line = G.render(toks, lay, trail)
        if line.strip() == "":
            continue
        if HUGE_SHIFT.search(line):
            # a shift/extend amount of three and more digits (a token swapped into that place): the parser computes 2**amount, which
            # does not come back for an 18-digit amount -- outside the sub-language (amounts are 0..63) and not worth a hang
            skipped += 1
            continue
        cases.append((line, L.real_parse(p, line)))
    shards = [("c10_mal_%03d" % k, L.line_shard(cases[i:i + 400], cfg)) for k, i in enumerate(range(0, len(cases), 400))]
    res = ctx.coq_eval_many(shards, timeout=900)
    bad, unm, rej, par, broken_out = [], 0, 0, 0, []
    for k, (ok, out) in enumerate(res):
        if not ok or not out:
            broken_out.append((out or ["no output"])[0][-1500:])
            continue
        b, u, r, q = out[0].split("|")
        bad += [cases[k * 400 + int(x)] for x in b.split(",") if x]
        unm += len([x for x in u.split(",") if x])
        rej += int(r)
        par += int(q)
    ctx.count(len(cases))
    ctx.coverage["malformed_stream"] = {"lines": len(cases), "skipped_huge_shift_amount": skipped, "model_unmodelled": unm, "model_reject": rej, "model_parsed": par,
                                        "implementation_rejects": sum(1 for _, r in cases if r.startswith("REJECT"))}
    ctx.obligation("malformed-stream shards evaluate", "correspondence", not broken_out, "\n".join(broken_out[:2]))
    detail = "" if not bad else "%d lines, first: %r -> implementation %s" % (len(bad), bad[0][0], bad[0][1])
    ctx.obligation("malformed stream, %d lines: model = implementation wherever the model is not Unmodelled "
                   "(%d parsed, %d rejected, %d unmodelled)" % (len(cases), par, rej, unm), "correspondence", not bad, detail)
    # crashes other than the documented ValueError are reported in the evidence only (outside the quantified sub-language)
    crashes = sorted({r for _, r in cases if r.startswith("REJECT:") and r != "REJECT:ValueError"})
    ctx.coverage["malformed_stream"]["non_ValueError_exceptions"] = crashes


# ------------------------------------------------------------------ files
BLANKS = ["", " ", "\t", "  \t ", "\r", "\x0b", "\x0c", "\x1c", "\x1f ", "\x85", "\xa0", " \xa0\t"]


def py_blank(s):
    return all(ch in "\t\n\x0b\x0c\r\x1c\x1d\x1e\x1f \x85\xa0" for ch in s)


def run_files(ctx, p, base, n, cfg):
    good = [c for c in base if c["real"] == c["expected"] and not c["real"].startswith("REJECT")]
    files = []
    for _ in range(n):
        lines = []
        for _ in range(ctx.rng.randrange(0, 25)):
            if ctx.rng.random() < 0.3:
                lines.append(ctx.rng.choice(BLANKS))
            else:
                lines.append(ctx.rng.choice(good)["line"])
        content = "\n".join(lines)
        if ctx.rng.random() < 0.5:
            content += "\n"
        start = ctx.rng.choice([0, 0, 0, 1, 7, 1000])
        files.append((content, start))
    rows, bad_oracle = [], 0
    for content, start in files:
        try:
            forms = p.parse_file(content, start)
        except Exception as e:
            ctx.violation("parse_file-raises", "parse_file raises %s on a file of parseable lines" % type(e).__name__,
                          {"content": content, "start": start})
            continue
        got = [(f.line_number, f.line, L.ser_form(f)) for f in forms]
        # independent oracle
        want = [(i + 1 + start, t) for i, t in enumerate(content.split("\n")) if not py_blank(t)]
        ctx.count()
        kinds_ok = all(len(L.kinds_of(f)) == 1 for f in forms)
        if [(a, b) for a, b, _ in got] != want or not kinds_ok:
            bad_oracle += 1
            ctx.violation("parse_file-lines", "parse_file returns %d lines %s; the file has the non-blank lines %s"
                          % (len(got), [a for a, _, _ in got][:8], [a for a, _ in want][:8]), {"content": content, "start": start})
        rows.append("(%s, %d, [%s])" % (L.coq_str(content), start,
                                        "; ".join("(%d, %s, %s)" % (a, L.coq_str(b), L.coq_str(c)) for a, b, c in got)))
    text = L.SHARD_HEAD + "Definition cfg : fixes := %s." % L.cfg_coq(cfg) + """
Definition files : list (string * nat * list (nat * string * string)) := [
%s ].
Definition same (f : fline) (e : nat * string * string) : bool :=
  match e with (n, t, s) =>
    andb (Nat.eqb (f_number f) n) (andb (String.eqb (f_text f) t)
         (match f_parsed f with Parsed p => String.eqb (show_pline p) s | Unm => true | Rej => false end)) end.
Fixpoint all2 (a : list fline) (b : list (nat * string * string)) : bool :=
  match a, b with [], [] => true | x :: a', y :: b' => andb (same x y) (all2 a' b') | _, _ => false end.
Definition okf (c : string * nat * list (nat * string * string)) : bool :=
  match c with (content, start, e) => all2 (parse_file cfg content start) e end.
Eval vm_compute in (idxs (fun i => match nth_error files i with Some c => negb (okf c) | None => true end) (length files)).
""" % ";\n".join(rows)
    ok, out, dt = ctx.coq_eval("c10_files", text, timeout=900)
    if not ok:
        ctx.obligation("parse_file shard evaluates", "correspondence", False, out[0][-2000:])
        return
    badidx = [int(x) for x in out[0].split(",") if x]
    detail = "" if not badidx else "files %s, first content %r" % (badidx[:5], files[badidx[0]][0][:300])
    ctx.obligation("parse_file: model = implementation on %d files (numbers, verbatim text, parsed lines)" % len(files),
                   "correspondence", not badidx, detail)
    ctx.coverage["files"] = {"files": len(files), "oracle_failures": bad_oracle}


# ------------------------------------------------------------------ corpus / fixed probes
PROBES = [
    "add x1, x2, x3", "add sp, SP, #16", "mov w0, WZR", "mov x0, wsp", "b.ne .L3", "fmov s0, #1.0e+1f", "mov x0, #-0x10",
    "ldr x0, [x1, x2, lsl #3]", "ldr x0, [x1, w2, sxtw]", "ldr x0, [x1, #8]!", "ldp x0, x1, [sp], #16",
    "ld1 {v0.4s - v3.4s}, [x0], #64", "ld1 {v0.s}[1], [x0]", "mov v0.s[1], w0", "ld1d z0.d, p0/z, [x0, x1, lsl #3]",
    "csel x0, x1, x2, ne", "add x0, x1, x2, lsl #2", "add x0, x1, #1, lsl #12", "adrp x0, :got:foo", "// comment",
    ".L3:", "foo: // bar", ".text", ".align 4 // c", "\t.p2align 4,,15", "# LLVM-MCA-BEGIN", "cbz x1, loop_lsl",
    "add x1,, x2", "add x1 x2", "x 1", "mov x0, #010", "ldr x0, [x1, x2, lsr #3]", "ldr x0, [x1], x2", "ldr x0, [#8]",
    "fmov d0, #1.5e3", "mov x0, 0X10", "1:", ".word 4 5, 6", "ldr x0, [SP, #-0x10]!", "ldr x0, [x1, x2, LSL 2]",
    # shapes touched by the four repairs (patches/C10-fix-*.diff), on either side of each
    "cbz x1, lsl", "cbz x1, LSL_2", "tbnz w0, #3, lsr_x", "tbnz w0, #3, lsr", "add x0, x1, x2, lsl#2", "add x0, x1, x2, lsl2",
    "ldr x0, [x1, x2, lsl3]", "ldr x0, [x1, x2, lslx #3]", "ldr x0, [x1, x2, foo #3]", "ldr x0, [x1, x2, sxtx]", "ldr x0, [x1, x2, SXTX 2]",
    "ldr x0, [x1, x2, sxtx #3]!", "cbz x1, sxtx_l", "add x0, x1, w2, sxtx #1", "ldr z0, [x0, #1, mul vl]", "cbz x0, mul",
    "csel x0, x1, x2, ne ", "csel x0, x1, x2, NE\t// c", "ccmp x0, x1, ne , #4", "csel x0, x1, x2, next ", "csel x0, x1, x2, #ne ",
    "b.ne lo ", "cbz x1, lo ", "ne x1, x2", "al ", "ne : // c", "ldr x0, [x1, ne ]", "ldr x0, [x1, x2, ne #3]", "fmov d0, 1.5 eq ", "mov p0/mi , x1",
    "csel x0, x1, ne x2", "csel x0, eq , ne , hi ", ".word ne // a,b", ".word foo // abc", ".word foo, bar // a,b", ".set x, y // c, d",
    ".word foo//a,b", ".word 4 // a,b", ".globl main // x", ".word foo , // a,b", ".word _foo // a,b",
]


def run_probes(ctx, p, cfg):
    cases = [(l, L.real_parse(p, l)) for l in PROBES]
    d = os.path.join(vlib.VERIF, "corpus", "C10")
    if os.path.isdir(d):
        for fn in sorted(os.listdir(d)):
            for l in open(os.path.join(d, fn)).read().split("\n"):
                if l.strip():
                    cases.append((l, L.real_parse(p, l)))
    ok, out, dt = ctx.coq_eval("c10_probes", L.line_shard(cases, cfg), timeout=600)
    if not ok:
        ctx.obligation("probe shard evaluates", "correspondence", False, out[0][-2000:])
        return
    b = [cases[int(x)] for x in out[0].split("|")[0].split(",") if x]
    ctx.count(len(cases))
    ctx.obligation("fixed probes + corpus (%d lines): model = implementation" % len(cases), "correspondence", not b,
                   "" if not b else "first: %r -> %s" % b[0])


WITNESSES = [   # the refutation witnesses of Props/C10.v (first of each key) and a second line per defect, replayed on every run
    ("cbz x1, lsl_loop", "m=Scbz|l=N|d=N|o=R:x,1,-,-,-,-;L:lsl_loop|c=N", KEY_SWALLOW),
    ("tbnz w0, #3, lsr_x", "m=Stbnz|l=N|d=N|o=R:w,0,-,-,-,-;I:int,3;L:lsr_x|c=N", KEY_SWALLOW),
    ("csel x0, x1, x2, ne // c", "m=Scsel|l=N|d=N|o=R:x,0,-,-,-,-;R:x,1,-,-,-,-;R:x,2,-,-,-,-;C:NE|c=Sc", KEY_CONDSPACE),
    ("csel x0, x1, x2, HI\t", "m=Scsel|l=N|d=N|o=R:x,0,-,-,-,-;R:x,1,-,-,-,-;R:x,2,-,-,-,-;C:HI|c=N", KEY_CONDSPACE),
    ("ldr x0, [x1, x2, sxtx #3]", "m=Sldr|l=N|d=N|o=R:x,0,-,-,-,-;M:-,x,1,x~2~sxtx~3,8,0,-|c=N", KEY_SXTX),
    ("ldr x0, [sp, x2, SXTX 1]!", "m=Sldr|l=N|d=N|o=R:x,0,-,-,-,-;M:-,x,sp,x~2~sxtx~1,2,1,-|c=N", KEY_SXTX),
    (".word foo // a,!)", "m=N|l=N|d=Sword|o=|c=N", KEY_DIRCOMMENT),
    (".set x, y // c,", "m=N|l=N|d=Sset|o=|c=N", KEY_DIRCOMMENT),
]


def run_witnesses(ctx, p):
    """replays the witness lines; returns the configuration of the tree under test: a repair counts as present
    when every witness line of its defect is parsed as written (the model of exactly that configuration is then
    held against the implementation by all correspondence shards)"""
    cfg = {k: True for k in L.FIX_FLAGS}
    for line, expected, key in WITNESSES:
        got = L.real_parse(p, line)
        ctx.count()
        if got != expected:
            cfg[FIX_OF_KEY[key]] = False
            ctx.violation(key, "parse_line(%r) returned %s, the line says %s" % (line, got, expected),
                          {"line": line, "expected": expected})
    return cfg


def grammar_digest(p):
    """structural digest of the live grammar objects (recorded in the evidence; raises the budget when it changes)"""
    import hashlib
    return hashlib.sha1(("%s|%s|%s|%s|%s" % (p.instruction_parser, p.label, p.directive, p.comment, p.register)).encode()).hexdigest()[:16]


KNOWN_DIGEST = "see evidence"


def run(ctx):
    ctx.trusted += [
        "pyparsing outside the modelled sub-language (the model answers Unmodelled there)",
        "harness/c10_gen.py: generator, Python mirror of render/denote (each shard re-checks render, well-formedness and show(denote) in Coq)",
        "harness/c10_lib.py: canonical serialisation of the implementation's operand objects",
        "the characters of a line are code points < 256 (Coq strings are byte strings)",
    ]
    ctx.assumptions += [
        "round-trip theorem parse_render_line_spacing at the configuration fx decided on the witness lines: wline_okb fx (registers 0-31, "
        "<= 5 comma-separated operands, memory operand last, condition code not first, no label spelled exactly like a shift operator after "
        "an operand; excluded and refuted for a configuration lacking the repair: label with shift-operator prefix after an operand, sxtx, "
        "directive comment with a comma after an alphabetic parameter), spacing_okb (white space only, non-empty where tokens would fuse), "
        "cond_tight fx (without the repair: no white space directly after a condition code -- refuted otherwise)",
        "the comment of a directive line and directive parameters are not modelled (kind, name, number and text are)",
    ]
    ctx.ensure_static()
    ctx.compile_theorems("Props/C10.v")
    p = parser()
    dig = grammar_digest(p)
    ctx.coverage["grammar_digest"] = dig
    cfg = run_witnesses(ctx, p)
    ctx.coverage["configuration"] = dict(cfg)
    ctx.log("configuration of the tree under test (repairs present, decided on the witness lines): %s -> model %s; "
            "round-trip theorem instance parse_render_line_fx at this configuration%s"
            % (", ".join(k for k in L.FIX_FLAGS if cfg[k]) or "none", L.cfg_coq(cfg),
               " = parse_render_line_full (the whole language of the property, any layout)" if all(cfg.values()) else ""))
    run_probes(ctx, p, cfg)
    n = ctx.n(2400, 60000)
    base = run_tree_stream(ctx, p, n, cfg)
    # translator tie (T) for the post-processing stage behind the grammar (notes/C09C10-post.md)
    import parsepost_tie
    parsepost_tie.run_a64(ctx, p, base, PROBES)
    run_malformed(ctx, p, base, ctx.n(800, 12000), cfg)
    run_files(ctx, p, base, ctx.n(60, 400), cfg)
    if ctx.broken() and not [v for v in ctx.violations]:
        # an obligation broke without a concrete failing line: search harder with the model-free oracle
        ctx.log("an obligation is broken: searching with a 10x round-trip budget")
        extra = gen_cases(ctx, min(10 * n, 60000), p, cfg)
        oracle_roundtrip(ctx, extra)


def replay(ctx, obj):
    r = obj["replay"]
    p = parser()
    if "line" in r:
        got = L.real_parse(p, r["line"])
        ctx.count()
        ctx.log("replay: %r -> %s (the line says %s)" % (r["line"], got, r["expected"]))
        if got != r["expected"]:
            ctx.violation(obj["key"], obj["what"], r)
    elif "content" in r:
        ctx.count()
        try:
            forms = p.parse_file(r["content"], r["start"])
            got = [(f.line_number, f.line) for f in forms]
        except Exception as e:
            got = repr(e)
        want = [(i + 1 + r["start"], t) for i, t in enumerate(r["content"].split("\n")) if not py_blank(t)]
        ctx.log("replay: parse_file -> %s, expected %s" % (str(got)[:300], str(want)[:300]))
        if got != want:
            ctx.violation(obj["key"], obj["what"], r)
    else:
        run(ctx)
