"""C08 -- memory-operand forms compose register-form data with load/store data.

Theorems (Props/C08.v): compose_uops, compose_pressure (+ link to C01's uniform split), compose_latency,
  compose_throughput, compose_not_unknown, unknown_zero, unknown_frame, row_choice_spec, writeback_spec.
X: Model/Costing.v instantiated with binary64 must reproduce ArchSemantics.assign_tp_lt BIT FOR BIT
   (port_uops, port_pressure, latency, latency_wo_load, throughput, flags, and the exception class where
   Python raises) on (a) synthetic machine models built in-process x instructions written as text, parsed by
   the real parsers, roles assigned by the real assign_src_dst over a synthetic ISA description, and (b) a
   curated real vocabulary on every shipped model.  The model's inputs are the results of the look-ups the
   implementation itself performs (harness/c08_cost.observe calls the real get_instruction,
   get_load_throughput, get_store_throughput, _check_operands, get_reg_type).
Rows (Model/Rows.v, theorems in Props/C08.v from hit_meaning on): every case also carries the RAW load/store tables of the
   machine model and the memory operands; Coq (a) re-selects the rows with the modelled get_load_throughput /
   get_store_throughput (matcher = Model/Match.v) and compares them bit for bit with what the implementation's getters
   returned for every memory operand of the line (with and without source register), and (b) costs the line again from
   the raw tables alone (cost_line_rows).  harness/c08_rows.row_oracle judges the returned rows against the YAML
   semantics of the rows (shipped models: the rows of the model FILE, not the loaded tables).
Search: harness/c08_cost.oracle recomputes the property's union/sum/max/plus rules with exact fractions
   from the look-up results and judges the implementation's output; every line is additionally costed on
   a fresh deep copy of the model (frame: a line's numbers do not depend on what was costed before)."""
import json
import os

import vlib
import c08_cost as C
import c08_gen as G
import c08_rows as R
import c08_tie as T

FINISH = dict(level="proof",
              rule="synthetic: random machine models (1-8 ports, load/store tables with 0-6 rows per table typed by dst/src or untyped, "
                   "wildcard and concrete addressing shapes, defaults, multipliers, load latencies incl. 0/None/missing) x kernels of 1-4 "
                   "text instructions (1-4 operands, memory operand at any position, role source/destination/src_dst from the real "
                   "assign_src_dst over a synthetic ISA description, AArch64 pre/post-index) x {direct entry, register form, register form "
                   "via suffix fall-back, both, neither}; real: curated x86/AArch64 memory instructions x every shipped model; a case is "
                   "non-trivial when it takes the composition path or the unknown fall-back; distinct = distinct (machine, look-up results); "
                   "every case carries the raw load/store tables and its memory operands: rows re-selected in Coq and compared with the "
                   "getters' answers (load, store, store with up to 3 source-register types) for every memory operand of every line")

X86_VOCAB = """vaddpd (%rax), %ymm1, %ymm2
vaddpd 8(%rax,%rcx,8), %ymm1, %ymm2
vmulpd (%rax,%rbx), %xmm1, %xmm2
vfmadd231pd 32(%rdi), %ymm3, %ymm4
vfmadd213sd (%rsi,%rdx,8), %xmm0, %xmm1
addq $1, (%rax)
addl %ecx, 8(%rsp)
addq (%rax), %rbx
subq 16(%rbp), %rcx
incq (%rax)
decl 4(%rdi)
movq (%rax), %rbx
movq %rbx, (%rax)
movl %eax, (%rdi,%rcx,4)
movl 8(%rsi,%rdx,4), %eax
movb %al, (%rdi)
movzbl (%rsi), %eax
movslq (%rdi,%rax,4), %rdx
vmovapd (%rax), %ymm0
vmovapd %ymm0, (%rax)
vmovupd %zmm1, 64(%rdi,%rax,8)
vmovupd (%rsi,%rax,8), %zmm2
vmovsd (%rax), %xmm0
vmovsd %xmm0, 8(%rax)
vmovaps %xmm3, (%rdx)
vmovntpd %ymm0, (%rdi)
vaddsd (%rax), %xmm1, %xmm2
vdivpd (%rax), %ymm1, %ymm2
vsqrtpd (%rdx), %ymm0
mulsd 8(%rsp), %xmm0
addsd (%rax,%rcx,8), %xmm1
cmpq (%rax), %rbx
cmpl $0, 12(%rdi)
testb $1, (%rsi)
xorq %rax, (%rdi)
andl (%rsi), %edx
orq $8, 24(%rsp)
leaq 8(%rax,%rbx,4), %rcx
imulq (%rdi), %rax
pushq %rbp
popq %rbp
vpaddd (%rax), %ymm1, %ymm2
vbroadcastsd (%rsi), %ymm5
vgatherdpd (%rax,%xmm1,8), %ymm2, %ymm3
prefetcht0 64(%rdi)
foobarq (%rax), %rbx
vunknownpd %ymm0, (%rax)
adcq %rbx, (%rax)
adcl $1, 4(%rdi)
adc %rbx, (%rax)
sbbq %rcx, 8(%rsi)
sbbl (%rsi), %edx
negq (%rax)
notl 4(%rdi)
shlq $1, (%rax)
sarl $3, 8(%rdi)
xaddq %rax, (%rdi)
subl $1, (%rdi,%rcx,4)
vaddpd tab(%rax), %ymm1, %ymm2
vmulsd .LC0(%rip), %xmm0, %xmm1
movq glob(%rip), %rax
addq $1, counter(%rip)
vmovapd %ymm0, buf(%rax,%rcx,8)
movl %eax, arr(,%rcx,4)
"""

A64_VOCAB = """ldr x0, [x1]
ldr x0, [x1, #8]
ldr x0, [x1, #8]!
ldr x0, [x1], #8
ldr x0, [x1, x2]
ldr x0, [x1, x2, lsl #3]
ldr w0, [x1, w2, sxtw #2]
ldr d0, [x1, #16]
ldr q0, [x1, x2]
ldr q1, [x2], #16
ldr s0, [x3, #4]!
ldur x0, [x1, #-8]
ldur d1, [x2, #-16]
ldp x0, x1, [x2]
ldp x0, x1, [x2, #16]!
ldp x0, x1, [x2], #16
ldp q0, q1, [x2]
ldp d0, d1, [x2, #32]
ldrb w0, [x1]
ldrh w0, [x1, #2]
ldrsw x0, [x1, x2, lsl #2]
ld1 {v0.2d}, [x0]
ld1 {v0.2d, v1.2d}, [x0], #32
ld1d {z0.d}, p0/z, [x0, x1, lsl #3]
ld1rd {z0.d}, p0/z, [x0]
str x0, [x1]
str x0, [x1, #8]
str x0, [x1, #8]!
str x0, [x1], #8
str d0, [x1, x2, lsl #3]
str q0, [x1, x2, lsl #4]
str q0, [x1, #16]!
str w0, [x1, #4]
stur d0, [x1, #-8]
stur x0, [x1, #-16]
stp x0, x1, [x2]
stp x0, x1, [x2, #16]!
stp x29, x30, [sp, #-32]!
stp q0, q1, [x2]
stp d0, d1, [x2], #16
strb w0, [x1]
strh w0, [x1, #2]
st1 {v0.2d}, [x0]
st1d {z0.d}, p0, [x0, x1, lsl #3]
prfm pldl1keep, [x0, #64]
fadd d0, d1, d2
fooload x0, [x1]
ldr x0, [x1, :lo12:tab]
ldr d0, [x2, :lo12:cst]
ldr q0, [x3, #:lo12:.LC1]
str x0, [x1, #:lo12:glob]
"""


def kind_of(case):
    lk = case["lk"]
    if lk == "noinstr":
        return "noinstr"
    d = lk["direct"] or (lk["direct_s"] if lk["suffix"] else None)
    if d:
        return "direct"
    r = (lk["reg"] or (lk["reg_s"] if lk["suffix"] else None)) if (lk["has_ld"] or lk["has_st"]) else None
    return "compose" if r else "unknown"


def role_of(case):
    lk = case["lk"]
    if lk == "noinstr":
        return "-"
    return {(True, False): "load", (False, True): "store", (True, True): "load+store", (False, False): "no-mem"}[(lk["has_ld"], lk["has_st"])]


def case_key(case):
    return json.dumps([case["isa"], case["ports"], case["ld_lat"], case["ld_mult"], case["st_mult"], case["lk"]], sort_keys=True)


def judge(ctx, case, replay):
    for key, text in C.oracle(case):
        ctx.violation(key, "%s %s `%s`: %s" % (case["origin"], case["isa"], case["text"], text), replay)
    for ob in case.get("rowobs", []):
        for key, text in R.row_oracle(case["isa"], case["yrows"], ob, case["text"], from_file=case["origin"].startswith("shipped model")):
            ctx.violation(key, "%s %s %s" % (case["origin"], case["isa"], text), replay)


def run_shards(ctx, cases, label, shard_size=120):
    """cases: list of (case, replay_obj)"""
    shards, groups = [], []
    for i in range(0, len(cases), shard_size):
        grp = cases[i:i + shard_size]
        shards.append(("%s_%03d" % (label, i // shard_size), C.coq_shard([c for c, _ in grp])))
        groups.append(grp)
    res = ctx.coq_eval_many(shards, timeout=600)
    kinds = ["rows looked up by the implementation", "rows selected by Model/Rows.v from the raw tables", "getter answers"]
    nbad, details = [0, 0, 0], [[], [], []]
    nrow = 0

    def save(si, b, c, rp, which):
        d = os.path.join(vlib.VERIF, "replays", ctx.prop)
        os.makedirs(d, exist_ok=True)
        with open(os.path.join(d, "disagree-%s-%s-%d-%s.json" % (which, label, si, b)), "w") as f:
            json.dump({"property": ctx.prop, "key": "correspondence", "replay": rp, "case": c}, f, default=str)
    for si, (ok, out) in enumerate(res):
        if not ok or not out or out[0].count("|") != 5:
            for k in range(3):
                nbad[k] += 1
                details[k].append("shard %d failed to evaluate: %s" % (si, str(out)[-1500:]))
            continue
        bad_old, bad_new, bad_rows, n_old, n_new, n_rows = out[0].split("|")
        nrow += int(n_rows)
        want_rows = sum(len(c["rowobs"]) for c, _ in groups[si])
        for k, (n, want) in enumerate(((n_old, len(groups[si])), (n_new, len(groups[si])), (n_rows, want_rows))):
            if int(n) != want:
                nbad[k] += 1
                details[k].append("shard %d evaluated %s of %d" % (si, n, want))
        for k, bad in enumerate((bad_old, bad_new, bad_rows)):
            for b in dict.fromkeys(x for x in bad.split(",") if x):
                nbad[k] += 1
                c, rp = groups[si][int(b)]
                if k < 2:
                    details[k].append("model (%s) and implementation disagree on %s `%s` (%s): impl %s"
                                      % (kinds[k], c["isa"], c["text"], kind_of(c), json.dumps(c["exp"])[:500]))
                else:
                    details[k].append("Model/Rows.v and the implementation's get_load_throughput / get_store_throughput disagree on a memory "
                                      "operand of %s `%s`: impl returned %s" % (c["isa"], c["text"], json.dumps(
                                          [[o["ld"], o["st0"], o["st"]] for o in c["rowobs"]])[:700]))
                save(si, b, c, rp, ["cost", "costrows", "rows"][k])
    ctx.obligation("correspondence %s: binary64 Model/Costing.v = assign_tp_lt bit for bit on %d costed lines" % (label, len(cases)),
                   "correspondence", nbad[0] == 0, "\n".join(details[0][:6]))
    ctx.obligation("correspondence %s: rows selected by Model/Rows.v from the raw tables, then Model/Costing.v = assign_tp_lt bit for bit on %d costed lines"
                   % (label, len(cases)), "correspondence", nbad[1] == 0, "\n".join(details[1][:6]))
    ctx.obligation("correspondence %s: Model/Rows.v get_load_throughput / get_store_throughput = the implementation's, row for row and bit for bit, "
                   "on %d memory operands x {load, store, store with source register}" % (label, nrow),
                   "correspondence", nbad[2] == 0, "\n".join(details[2][:6]))
    ctx.coverage["row_lookups_" + label] = nrow
    return sum(nbad)


def hist_add(h, k):
    h[k] = h.get(k, 0) + 1


def synthetic(ctx, nworlds, seed_base=None):
    cases = []
    hist, unmod = {}, {}
    import random
    for i in range(nworlds):
        # a world is a function of its own seed (drawn from ctx.rng) so that a replay can rebuild exactly this world
        wseed = ctx.rng.getrandbits(64) if seed_base is None else seed_base
        rng = random.Random(wseed)
        w = G.gen_world(rng)
        replay = {"world_seed": wseed}
        try:
            seq, iso, changed = G.run_world(w)
        except C.Unmodelled as e:
            hist_add(unmod, str(e)[:40])
            continue
        if changed:
            ctx.violation("model-tables-mutated", "costing `%s` changed the machine model's load/store tables (shared mutable state, see C18)"
                          % "; ".join(w["lines"]), replay)
        for ln, (c, o) in enumerate(zip(seq, iso)):
            rp = dict(replay, line=ln)
            ctx.count()
            k = kind_of(c)
            hist_add(hist, "%s %s %s %s" % (c["isa"], k, role_of(c), "ok" if c["exp"][0] == "ok" else c["exp"][1]))
            if k in ("compose", "unknown"):
                ctx.nontriv(case_key(c))
            if c["exp"][:2] != o[:2]:
                ctx.violation("history-dependent-cost", "synthetic %s line %d `%s` costs %s after `%s` but %s on a fresh model (shared mutable state, C18)"
                              % (c["isa"], ln, c["text"], json.dumps(c["exp"])[:300], "; ".join(w["lines"][:ln]), json.dumps(o)[:300]), rp)
            judge(ctx, c, rp)
            cases.append((c, rp))
            if len(ctx.samples) < 3 and k == "compose" and c["exp"][0] == "ok":
                ctx.sample({"text": c["text"], "isa": c["isa"], "lookups": c["lk"], "impl": c["exp"][1]})
    ctx.coverage["synthetic_outcomes"] = dict(sorted(hist.items()))
    if unmod:
        ctx.coverage["synthetic_unmodelled"] = unmod
    return cases


X86_READ_ONLY = ("cmp", "test", "bt", "ucomis", "comis", "vucomis", "vcomis", "ptest", "vptest")
X86_RMW = ("add", "sub", "adc", "sbb", "inc", "dec", "neg", "not", "and", "or", "xor", "shl", "shr", "sar", "sal", "rol", "ror", "xadd")


def architectural_access(isa, text):
    """How the instruction accesses its memory operand according to the architecture manuals ('load', 'store', 'load+store'),
    or None when this table does not decide it (lea, prefetch, push/pop, unknown mnemonics, gathers).  Independent of OSACA's
    ISA database and of its suffix fall-backs."""
    mn, _, rest = text.strip().partition(" ")
    ops = [o.strip() for o in __import__("re").split(r",(?![^(\[]*[)\]])", rest)] if rest else []
    if isa == "x86":
        mems = [i for i, o in enumerate(ops) if "(" in o]
        if len(mems) != 1 or mn.startswith(("lea", "prefetch", "push", "pop", "foobar", "vunknown", "vgather")):
            return None
        last = mems[0] == len(ops) - 1
        base = mn.lower()
        stem = lambda names: any(base == n or (base[:-1] == n and base[-1] in "bwlq") for n in names)
        if stem(X86_READ_ONLY) or base.startswith(("vucomis", "ucomis", "vcomis", "comis")):
            return "load"
        if not last:
            return "load"
        if stem(X86_RMW):
            return "load+store"
        if base.startswith(("mov", "vmov")):
            return "store"
        return None
    if mn.startswith(("ldr", "ldur", "ldp", "ld1", "ldnp")):
        return "load"
    if mn.startswith(("str", "stur", "stp", "st1", "stnp")):
        return "store"
    return None


def real(ctx):
    """curated vocabulary on every shipped model; each line costed twice (file order, then reversed) on the shared
    model: the numbers must not depend on the history, and the model's tables must stay as loaded."""
    import models
    from osaca.parser import ParserX86ATT, ParserAArch64
    cases = []
    hist, unmod = {}, {}
    archs = [a for a in models.X86 + models.A64 if a in models.nonempty_archs()]
    if ctx.tier == "quick":
        archs = [a for a in archs if a in models.SMALL + ["zen2", "hsw"]]
    px, pa = ParserX86ATT(), ParserAArch64()
    for a in archs:
        mm, sem = models.load(a)
        isa = mm.get_ISA().lower()
        parser = px if isa == "x86" else pa
        lines = (X86_VOCAB if isa == "x86" else A64_VOCAB).splitlines()
        snap = C.tables_snapshot(mm)
        first = {}
        for order in (lines, list(reversed(lines))):
            for text in order:
                try:
                    f = parser.parse_line(text, 1)
                    sem.assign_src_dst(f)
                    c = C.cost_case(mm, sem, f, text=text, origin="shipped model " + a)
                    c["yrows"] = R.yaml_rows_from_file(models.yaml_path(a))
                except C.Unmodelled as e:
                    hist_add(unmod, "%s: %s" % (a, str(e)[:40]))
                    continue
                except Exception as e:  # parser / role assignment failures belong to C09/C10/C03
                    hist_add(unmod, "%s: %s raises %s before costing" % (a, text, type(e).__name__))
                    continue
                rp = {"arch": a, "text": text}
                if text in first:
                    if first[text]["exp"][:2] != c["exp"][:2]:
                        ctx.violation("history-dependent-cost", "%s `%s` costs %s in file order but %s in reverse order (shared mutable state, C18)"
                                      % (a, text, json.dumps(first[text]["exp"])[:300], json.dumps(c["exp"])[:300]), rp)
                    continue
                first[text] = c
                ctx.count()
                k = kind_of(c)
                hist_add(hist, "%s %s %s %s" % (a, k, role_of(c), "ok" if c["exp"][0] == "ok" else c["exp"][1]))
                if k in ("compose", "unknown"):
                    ctx.nontriv(case_key(c))
                judge(ctx, c, rp)
                acc = architectural_access(isa, text)
                if acc is not None and k == "compose" and role_of(c) != acc:
                    ctx.violation("composed-with-wrong-memory-access", "%s `%s`: analysed as register form + %s data, but the instruction performs a %s "
                                  "of its memory operand" % (a, text, role_of(c), acc), rp)
                hist_add(hist, "access-checked" if acc is not None and k == "compose" else "access-not-checked")
                cases.append((c, rp))
        if C.tables_snapshot(mm) != snap:
            ctx.violation("model-tables-mutated", "costing the vocabulary on %s changed the model's load/store tables (C18)" % a, {"arch": a, "text": None})
    ctx.coverage["real_outcomes"] = dict(sorted(hist.items()))
    ctx.coverage["real_archs"] = archs
    if unmod:
        ctx.coverage["real_skipped"] = unmod
    return cases


def corpus_cases(ctx):
    out = []
    import glob
    for p in sorted(glob.glob(os.path.join(vlib.VERIF, "corpus", "C08", "*.json"))):
        out += replay_cases(ctx, json.load(open(p))["replay"])
    return out


def replay_cases(ctx, r):
    if "world_seed" in r:
        cs = synthetic(ctx, 1, seed_base=r["world_seed"])
        return [x for x in cs if x[1].get("line") == r.get("line")] or cs
    import models
    from osaca.parser import ParserX86ATT, ParserAArch64
    mm, sem = models.load(r["arch"])
    isa = mm.get_ISA().lower()
    f = (ParserX86ATT() if isa == "x86" else ParserAArch64()).parse_line(r["text"], 1)
    sem.assign_src_dst(f)
    c = C.cost_case(mm, sem, f, text=r["text"], origin="shipped model " + r["arch"])
    c["yrows"] = R.yaml_rows_from_file(models.yaml_path(r["arch"]))
    ctx.count()
    judge(ctx, c, r)
    return [(c, r)]


def run(ctx):
    ctx.trusted += ["binary64 model Model/Num.v (validated against CPython by C01 on every run)",
                    "hand-written Model/Costing.v tied to assign_tp_lt only by the bit-exact correspondence (generator quality bounds it)",
                    "get_instruction (direct entry / register form) is not modelled here (C07): those look-up results are taken from the "
                    "implementation's own functions; the load/store ROW selection is modelled (Model/Rows.v over the raw tables, memory "
                    "matcher = Model/Match.v) and compared with the implementation's getters row for row on every run",
                    "the row oracle (harness/c08_rows.row_oracle) reads shipped rows from the model file's YAML text and judges only rows of "
                    "the documented vocabulary (AArch64 `offset: id` rows and undeclared scales get no verdict)",
                    "exact-arithmetic theorems transfer to binary64 only up to rounding (DESIGN 0.2); the oracle judges the real floats with tolerance 1e-9"]
    ctx.assumptions += ["register forms reached by the composition path carry a plain micro-op list (a dict of alternatives yields "
                        "port_uops = keys ++ data micro-ops: modelled as PKeys, excluded from the oracle; no shipped dict entry is reachable that way)",
                        "hidden_loads is false (every shipped model)"]
    ctx.ensure_static()
    ctx.compile_theorems("Props/C08.v")
    co = corpus_cases(ctx)
    if co:
        run_shards(ctx, co, "corpus")
    syn = synthetic(ctx, ctx.n(900, 12000))
    run_shards(ctx, syn, "synthetic")
    re_ = real(ctx)
    run_shards(ctx, re_, "real", shard_size=60)
    T.run(ctx, [("corpus", co), ("synthetic", syn), ("real", re_)])      # translator tie (tools/gen_c08.py, PropsGen/C08gen.v)


def replay(ctx, obj):
    cs = replay_cases(ctx, obj["replay"])
    for c, _ in cs:
        ctx.log("replay: %s `%s` -> %s" % (c["isa"], c["text"], json.dumps(c["exp"])[:600]))
    run_shards(ctx, cs, "replay")
    T.run(ctx, [("replay", cs)])
