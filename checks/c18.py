"""C18 -- analyses are independent of what was analysed before in the same process.

Theorems (coq/Props/C18.v over coq/Model/Store.v): the process state is a *store* holding what the code shares by
   reference (the runtime cache of loaded model data: instruction entries' micro-op lists, load/store table rows, default
   rows, ISA entries' hidden-operand lists; the default-argument lists of InstructionForm; the parser singletons' state);
   `analyse` threads it and performs the in-place list operations where the Python does.  With the repaired composition
   (CopyThenExtend) no request changes any loaded model or shared list (analyse_frame), every store reachable from a fresh
   process is pristine, hence every report equals the fresh-process report for every history (history_independent,
   repeat_same); with the shipped in-place extension (ExtendInPlace) this is refuted by the history
   [addq $1,(%rax) ; vaddpd (%rax),%xmm0,%xmm1] (frame_refuted, history_refuted).
X: random call histories (mixing ISAs, models, options, shipped and generated kernels with unknown / memory-composed /
   read-modify-write / pre- and post-indexed forms, with repetitions) run through osaca.osaca.run in ONE process
   (harness/c18_driver.py), (1) every report compared with a fresh-process run of the same request, (2) the shared store
   snapshotted structurally after every call and compared with a pristine load (implementation-side analyse_frame),
   (3) the observed trace (which shared lists each costed instruction read, and the micro-op list it got) must be what the
   CopyThenExtend model computes from the pristine tables, with the store unchanged (evaluated by coqc).
"""
import hashlib
import json
import os

import vlib
import c18_hist as H

FINISH = dict(level="proof",
              rule="one case = one call history (5-8 analysis requests in one python process, per-call objects or reused "
                   "model objects); evaluations = requests executed in a history (each compared with its fresh-process "
                   "report and followed by a structural snapshot of the shared store); a history is non-trivial when it "
                   "contains a memory-composed instruction after a read-modify-write one on the same model or repeats a "
                   "request; distinct = distinct (style, request list)")


def materialise(ctx, calls):
    """replay objects carry the kernel text"""
    out = []
    for c in calls:
        d = os.path.join(ctx.scratch, "c18", "replay")
        os.makedirs(d, exist_ok=True)
        hx = hashlib.sha1(c["text"].encode()).hexdigest()[:8]
        p = os.path.join(d, c["name"] if c["name"].startswith(hx + "_") else hx + "_" + c["name"])
        with open(p, "w") as f:
            f.write(c["text"])
        out.append(H.req(c["arch"], p, c["opts"]))
    return out


def corpus_histories(ctx):
    """minimised regression histories, run first (both styles)"""
    hs = []
    d = os.path.join(vlib.VERIF, "corpus", "C18")
    for f in sorted(os.listdir(d)) if os.path.isdir(d) else []:
        if f.endswith(".json"):
            o = json.load(open(os.path.join(d, f)))
            calls = materialise(ctx, o["calls"])
            hs.append({"style": o["style"], "calls": calls})
            hs.append({"style": "cli" if o["style"] == "reuse" else "reuse", "calls": calls})
    return hs


def portable(h, upto):
    calls = []
    for c in h["calls"][:upto + 1]:
        calls.append({"arch": c["arch"], "opts": c["opts"], "name": os.path.basename(c["file"]), "text": open(c["file"]).read()})
    return {"style": h["style"], "calls": calls}


def shrink(ctx, h, finding, refs, pd, budget=14):
    """drop earlier calls while the same kind of finding is still reported for the last call"""
    calls = h["calls"][:finding["index"] + 1]
    key = finding["key"]

    def still(cs):
        hh = {"style": h["style"], "calls": cs}
        res = H.execute(ctx, [hh], pd, observe=False)[0]
        fs = [f for f in H.judge_history(hh, res, refs) if f["key"] == key and f["index"] == len(cs) - 1]
        return fs[0] if fs else None

    i = 0
    best = finding
    while i < len(calls) - 1 and budget > 0:
        budget -= 1
        trial = calls[:i] + calls[i + 1:]
        f = still(trial)
        if f:
            calls, best = trial, f
        else:
            i += 1
    return {"style": h["style"], "calls": calls}, best


def explain(ctx, h, f):
    """for a mutated model component: show pristine and current content around the first difference"""
    fr = f.get("frame")
    if not fr or "path" not in fr or fr.get("component") in (None, "?"):
        return f["what"]
    arch = h["calls"][f["index"]]["arch"]
    _, content, _, _ = H.pristine(ctx, [arch], want={fr["path"]: [fr["component"]]})
    was = content.get(fr["path"], {}).get(fr["component"])
    if was is None:
        return f["what"]
    now = fr.get("now", "")
    i = 0
    while i < min(len(was), len(now)) and was[i] == now[i]:
        i += 1
    a = max(0, i - 90)
    return "%s: %s %s changed in place; pristine load: ...%s / after the call: ...%s" % (
        f["what"].split(": ")[0], os.path.basename(fr["path"]), fr["component"], was[a:i + 160], now[a:i + 260])


def judge(ctx, hists, results, refs, pd, tag):
    soft = []
    nbad = 0
    reported = set()
    for hi, (h, res) in enumerate(zip(hists, results)):
        ctx.count(len(h["calls"]))
        keys = [H.rkey(c) for c in h["calls"]]
        if len(set(keys)) < len(keys) or len(h["calls"]) > 2:
            ctx.nontriv(json.dumps([h["style"], keys]))
        fs = H.judge_history(h, res, refs)
        for f in fs:
            if not f["hard"]:
                soft.append((hi, f))
                continue
            nbad += 1
            if f["key"] in reported:
                ctx.violation(f["key"], f["what"], None)
                continue
            reported.add(f["key"])
            hs, fbest = shrink(ctx, h, f, refs, pd) if f["key"] != "history-driver-failed" else (h, f)
            fbest = dict(fbest)
            fbest["index"] = len(hs["calls"]) - 1
            fbest["what"] = explain(ctx, hs, fbest)
            ctx.violation(f["key"], "%s history of %d call(s): %s ; %s" % (
                hs["style"], len(hs["calls"]),
                " -> ".join("%s --arch %s %s" % (os.path.basename(c["file"]), c["arch"], " ".join(c["opts"])) for c in hs["calls"]),
                fbest["what"]), portable(hs, len(hs["calls"]) - 1))
    ctx.log("%s: %d histories, %d calls, %d hard findings, %d soft" % (tag, len(hists), sum(len(h["calls"]) for h in hists), nbad, len(soft)))
    return nbad, soft


def probe_soft(ctx, hists, soft, refs, pd):
    """state that changed without a report changing so far: look for an observable consequence right after the call that
    changed it -- the same request again, a kernel that begins with / consists of the last line just analysed, another kernel"""
    seen, nbad = set(), 0
    for hi, f in soft:
        if f["key"] in seen or len(seen) >= 3:
            continue
        seen.add(f["key"])
        h, i = hists[hi], f["index"]
        c = h["calls"][i]
        isa = H.isa_of_arch(c["arch"])
        voc = H.X86_LINES if isa == "x86" else H.A64_LINES
        lines = [l for l in open(c["file"]).read().split("\n") if l.strip()]
        probes = [c, H.req(c["arch"], H.write_kernel(ctx, isa, voc[7:12]), c["opts"])]
        if lines:
            probes.append(H.req(c["arch"], H.write_kernel(ctx, isa, [lines[-1]] + voc[7:10]), c["opts"]))
            probes.append(H.req(c["arch"], H.write_kernel(ctx, isa, [lines[-1]]), c["opts"]))
            probes.append(H.req(c["arch"], H.write_kernel(ctx, isa, lines[-2:] + lines[:2]), c["opts"]))
        refs.ensure(probes)
        hs = [{"style": h["style"], "calls": h["calls"][:i + 1] + [p]} for p in probes]
        hs += [{"style": h["style"], "calls": [c, p]} for p in probes]
        res = H.execute(ctx, hs, pd, observe=False)
        for hh, r in zip(hs, res):
            ctx.count(len(hh["calls"]))
            for x in H.judge_history(hh, r, refs):
                if x["hard"] and x["index"] == len(hh["calls"]) - 1:
                    nbad += 1
                    hs2, fb = shrink(ctx, hh, x, refs, pd, budget=8)
                    ctx.violation(x["key"], "(after %s) %s history of %d call(s): %s ; %s" % (
                        f["key"], hs2["style"], len(hs2["calls"]),
                        " -> ".join("%s --arch %s %s" % (os.path.basename(q["file"]), q["arch"], " ".join(q["opts"])) for q in hs2["calls"]),
                        fb["what"]), portable(hs2, len(hs2["calls"]) - 1))
                    break
    ctx.log("probe search after %d soft finding kind(s): %d observable consequence(s)" % (len(seen), nbad))
    return nbad


def run(ctx):
    ctx.trusted += [
        "Model/Store.v is hand-written from arch_semantics.assign_tp_lt / hw_model.MachineModel.__init__ / isa_semantics / "
        "instruction_form (which lists are aliased, which are copies, where a list is extended); tied by the observed-trace "
        "correspondence and the structural snapshot of the real process, not by translation",
        "harness/c18_driver.py: structural image of Python objects (dict/list/osaca objects by attribute, pyparsing grammar "
        "objects opaque), identity-based attribution of the lists the costing read",
    ]
    ctx.assumptions += [
        "Python aliasing outside the modelled sharing sites is covered by the snapshot comparison only (sampled on the histories run)",
        "model files on disk do not change during a history (C17's subject)",
    ]
    ctx.ensure_static()
    if os.path.exists(os.path.join(vlib.COQ, "Props", "C18.v")):
        ctx.compile_theorems("Props/C18.v")
    else:
        ctx.obligation("Props/C18.v exists", "theorem", False, "missing")
    H.prepare(ctx)
    x86 = list(H.X86_QUICK) + (H.X86_MORE if ctx.tier == "thorough" else [])
    a64 = list(H.A64_QUICK) + (H.A64_MORE if ctx.tier == "thorough" else [])
    pd, _, statics0, errs = H.pristine(ctx, x86 + a64)
    ctx.obligation("pristine references: every model file loads, two loads agree", "harness", not errs, "\n".join(errs[:5]))
    refs = H.Refs(ctx, pd)
    core = corpus_histories(ctx) + H.core_histories(ctx, x86, a64)
    rnd = H.random_histories(ctx, ctx.n(25, 300), x86, a64)
    allh = core + rnd
    refs.ensure([c for h in allh for c in h["calls"]])
    ref_err = [k for k, v in refs.memo.items() if (v["error"] or "").startswith("DRIVER")]
    ctx.obligation("fresh-process references: %d distinct requests ran" % len(refs.memo), "harness", not ref_err, "\n".join(ref_err[:3]))
    ctx.log("references: %d distinct requests (%d raise in a fresh process too)" % (
        len(refs.memo), sum(1 for v in refs.memo.values() if v["error"])))
    results = H.execute(ctx, allh, pd)
    nbad, soft = judge(ctx, allh, results, refs, pd, "histories")
    ctx.obligation("frame on the implementation: after each of %d calls every loaded model, shared default and global equals "
                   "its pristine content; every report equals the fresh-process report" % sum(len(h["calls"]) for h in allh),
                   "correspondence", nbad == 0, "%d finding(s), see violations" % nbad)
    # soft findings: state that may legitimately change (memo caches ...) -- search for an observable consequence
    if soft:
        nbad += probe_soft(ctx, allh, soft, refs, pd)
        kinds = sorted({f["key"] for _, f in soft})
        ctx.obligation("frame (soft): parser singletons / model data keep exactly their components", "correspondence", False,
                       "%s; e.g. %s ; observable consequences found by the probe search: see violations (none listed = none found)" % (kinds, soft[0][1]["what"][:600]))
    import c18_trace as T
    T.check_traces(ctx, allh, results)
    for h, r in list(zip(allh, results))[:2]:
        if "results" in r:
            ctx.sample({"style": h["style"], "calls": [[c["arch"], os.path.basename(c["file"]), c["opts"]] for c in h["calls"]],
                        "frame_findings": sum(x["nframe"] for x in r["results"])})
    ctx.coverage["histories"] = len(allh)
    ctx.coverage["styles"] = {s: sum(1 for h in allh if h["style"] == s) for s in ("cli", "reuse")}
    ctx.coverage["archs"] = x86 + a64
    ctx.coverage["distinct_requests"] = len(refs.memo)


def replay(ctx, obj):
    r = obj.get("replay")
    if not r or "calls" not in r:
        return run(ctx)
    H.prepare(ctx)
    calls = materialise(ctx, r["calls"])
    h = {"style": r["style"], "calls": calls}
    archs = sorted({c["arch"] for c in calls})
    pd, _, _, errs = H.pristine(ctx, archs)
    refs = H.Refs(ctx, pd)
    refs.ensure(calls)
    res = H.execute(ctx, [h], pd, observe=False)[0]
    fs = H.judge_history(h, res, refs)
    ctx.count(len(calls))
    for f in fs:
        ctx.log("replay: " + f["what"])
    hard = [f for f in fs if f["hard"]]
    for f in hard:
        ctx.violation(f["key"], explain(ctx, h, f), r)
    if not hard:
        ctx.log("replay: every report equals the fresh-process report and the shared store is unchanged -- not reproduced on this tree")
