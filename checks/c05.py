"""C05 -- loop-carried dependencies are exactly the cross-iteration dependency cycles.
Theorems: Props/C05.v (path enumeration sound+complete, result = first-kept de-duplication, each class once).
X: Model/Deps.lcd_entries = get_loopcarried_dependencies() (keys, member lines, latencies bit for bit).
Search: independent enumeration of winding-number-1 cycles over the reference RAW relation of two iterations."""
import depcheck
import deps

FINISH = dict(level="proof",
              rule="synthetic register-only and mixed kernels (length <= 10 so that enumeration is exhaustive), self-loops, cycles sharing "
                   "nodes, kernels placed beyond line 1000, with/without flag dependencies; shipped kernels x models; non-trivial = kernel "
                   "with at least one loop-carried dependency")


def run(ctx):
    depcheck.prepare(ctx, "Props/C05.v")
    cases = []
    nref = 0
    for case, kernel, dg, isa, gl, pipe in depcheck.synthetic(ctx, ctx.n(120, 2500), maxlen=10, regs_only=True):
        ctx.count()
        if case["lcd"]:
            ctx.nontriv((case["text"], case["db"]["isa_yaml"], case["flagdeps"]))
        if depcheck.lcd_oracle(ctx, case, isa, gl):
            nref += 1
        if len(cases) < 2:
            ctx.sample({"kernel": case["text"], "lcd": case["lcd"]})
        cases.append(case)
    for case, kernel, dg, isa, gl, pipe in depcheck.synthetic(ctx, ctx.n(40, 600), maxlen=10):
        ctx.count()
        cases.append(case)
    # kernels whose line numbers lie beyond 1000 (offset computation)
    for case0, kernel, dg, isa, gl, pipe in depcheck.synthetic(ctx, ctx.n(10, 100), maxlen=6, regs_only=True):
        text = "\n" * ctx.rng.choice([999, 1000, 1200, 2500]) + case0["text"]
        try:
            case, kernel, dg = deps.build_case(pipe, text, case0["flagdeps"])
        except Exception as e:  # noqa
            ctx.violation("lcd-raises", "kernel at line > 1000: %r" % e, {"isa": isa, "text": text, "flagdeps": case0["flagdeps"], "db": case0["db"]})
            continue
        case["db"] = case0["db"]
        ctx.count()
        cases.append(case)
    ctx.coverage["reference_enumerations"] = nref
    depcheck.run_shards(ctx, cases, "synthetic")
    real = [c for c, *_ in depcheck.real(ctx, ctx.n(8, 200), fast_only=ctx.tier == "quick")]
    for c in real:
        ctx.count()
        ctx.nontriv(c["origin"])
    depcheck.run_shards(ctx, real, "real", size=2)
    memory_cycles(ctx)


def memory_cycles(ctx):
    """Cycles carried through MEMORY on the real ISA databases: running-sum kernels (a store or read-modify-write store, a reload of
    the same cell that feeds the stored value, a pointer bump somewhere).  Whether the store/reload pair closes a cycle is known
    from the construction: the pair is on a loop-carried cycle iff no bump lies on the (cyclic) way from the store to the next reload.  Plus the LCD correspondence on these kernels."""
    import re
    import c06
    import c14
    import models
    avail = models.nonempty_archs()
    memcases = []
    hist = {"cycle_expected": 0, "no_cycle_expected": 0, "undecided": 0}
    for i in range(ctx.n(40, 500)):
        isa = "x86" if i % 3 else "aarch64"
        arch = [m for m in (c06.X86_MODELS if isa == "x86" else c06.A64_MODELS) if m in avail][0]
        pipe = deps.Pipeline(ctx, isa, arch=arch)
        text = c14.running_sum(ctx.rng, isa)
        lines = text.strip().split("\n")
        rep = {"isa": isa, "arch": arch, "text": text, "kind": "memory"}
        try:
            case, kernel, dg = deps.build_case(pipe, text, False)
        except Exception as e:  # noqa
            ctx.violation("lcd-raises", "running-sum kernel on %s: %r" % (arch, e), rep)
            continue
        case["origin"] = "running-sum kernel on " + arch
        memcases.append(case)
        ctx.count()
        # construction facts: st = the line with a memory destination, ld = the reload, bump = the pointer bump (if any)
        is_mem = (lambda l: "(" in l) if isa == "x86" else (lambda l: "[" in l)
        mem_lines = [j for j, l in enumerate(lines) if is_mem(l) and not l.startswith("lea")]
        if len(mem_lines) != 2:
            hist["undecided"] += 1
            continue
        st = [j for j in mem_lines if (lines[j].rstrip().endswith(")") if isa == "x86" else lines[j].startswith("str"))]
        ld = [j for j in mem_lines if j not in st]
        if len(st) != 1 or len(ld) != 1:
            hist["undecided"] += 1
            continue
        st, ld = st[0], ld[0]
        base = re.search(r"\((%\w+)\)", lines[st]).group(1) if isa == "x86" else re.search(r"\[(\w+)", lines[st]).group(1)
        if isa == "x86":
            brx = r"^(addq \$-?\d+, %s|subq \$-?\d+, %s|incq %s|leaq .*, %s)$" % ((re.escape(base),) * 4)
        else:
            brx = r"^(add|sub) %s, %s, #-?\d+$" % (base, base)
        bump = [j for j, l in enumerate(lines) if j not in (st, ld) and re.search(brx, l)]
        if any(l.startswith("lea") for l in lines):
            hist["undecided"] += 1          # lea is not tracked: the reload may or may not be linked
            continue
        # the reload that follows the store in program order (same iteration, or the next one when it stands before the store)
        # reads the stored cell iff no bump lies between the two on that (cyclic) way
        if st < ld:
            expect = not any(st < b < ld for b in bump)
        else:
            expect = not any(b > st or b < ld for b in bump)
        hist["cycle_expected" if expect else "no_cycle_expected"] += 1
        ctx.nontriv(text)
        both = [e for e in case["lcd"] if (st + 1) in [m for m, _ in e[1]] and (ld + 1) in [m for m, _ in e[1]]]
        if expect and not both:
            ctx.violation("lcd-memory-cycle-missing", "%s: the reload (line %d) reads the cell the store (line %d) writes and feeds it again, "
                          "but no loop-carried dependency contains both: %s -> %s" % (arch, ld + 1, st + 1, text.replace("\n", " ; "),
                                                                                     [[m for m, _ in e[1]] for e in case["lcd"]]), rep)
        if not expect and both:
            ctx.violation("lcd-memory-cycle-spurious", "%s: store (line %d) and reload (line %d) address different cells in every iteration but a "
                          "loop-carried dependency contains both: %s" % (arch, st + 1, ld + 1, text.replace("\n", " ; ")), rep)
    ctx.coverage["memory_cycles"] = hist
    depcheck.run_shards(ctx, memcases, "memory", size=10)


def replay(ctx, obj):
    r = obj["replay"]
    if r.get("kind") == "memory":
        pipe = deps.Pipeline(ctx, r["isa"], arch=r["arch"])
        case, kernel, dg = deps.build_case(pipe, r["text"], False)
        ctx.log("replay LCD: %s" % case["lcd"])
        ctx.count()
        return
    if r.get("db"):
        pipe = deps.Pipeline(ctx, r["isa"], r["db"]["isa_yaml"], r["db"]["arch_yaml"])
        try:
            case, kernel, dg = deps.build_case(pipe, r["text"], r["flagdeps"])
            ctx.log("replay LCD: %s" % case["lcd"])
        except Exception as e:  # noqa
            ctx.violation(obj["key"], "replay raises %r" % e, r)
        ctx.count()
