"""C05 -- loop-carried dependencies are exactly the cross-iteration dependency cycles.
Theorems: Props/C05.v (path enumeration sound+complete, result = first-kept de-duplication, each class once).
T: tools/gen_lcd.py regenerates Gallina from the CURRENT check_for_loopcarried_dep (offset + doubled kernel, sequential search,
   the whole post-processing from `paths_set = set()` to the returned dict), _paths_to_next_iteration, _extend_path and
   _get_node_by_lineno; PropsGen/C05gen.v proves them equal to the hand model for every input and restates the C05 theorems for
   them; the regenerated definitions are evaluated by Coq (binary64) on the recorded real runs and compared bit for bit.
X: Model/Deps.lcd_entries = get_loopcarried_dependencies() (keys, member lines, latencies bit for bit).
Search: independent enumeration of winding-number-1 cycles over the reference RAW relation of two iterations."""
import c04_family
import depcheck
import deps
import lcd_gen

GEN_FILES = ["KdgNode.v", "KdgLcd.v"]

FINISH = dict(level="proof",
              rule="synthetic register-only and mixed kernels (length <= 10 so that enumeration is exhaustive), self-loops, cycles sharing "
                   "nodes, kernels placed beyond line 1000, with/without flag dependencies; shipped kernels x models; non-trivial = kernel "
                   "with at least one loop-carried dependency")


def twice_oracle(ctx, case, isa):
    """one entry per cycle: two entries with the same member lines cannot both be in the dictionary unless their keys were built from
    differently ordered line lists (the key is the list of the sorted member lines)"""
    seen = {}
    for s, members in case["lcd"]:
        key = tuple(sorted(m for m, _ in members))
        if key in seen:
            ctx.violation("lcd-cycle-reported-twice", "the loop-carried dependency through lines %s is reported twice (%s and %s)"
                          % (list(key), seen[key], [m for m, _ in members]),
                          {"isa": isa, "text": case["text"], "flagdeps": case["flagdeps"], "db": case.get("db")})
        seen[key] = [m for m, _ in members]


_FRONTENDS = {}


def frontend_for(ctx, arch=None, arch_yaml=None):
    """osaca.frontend.Frontend for a shipped model (one per run) or a synthetic arch file (written to scratch)"""
    import hashlib
    import os
    from osaca.frontend import Frontend
    key = arch or hashlib.sha1(arch_yaml.encode()).hexdigest()
    if key not in _FRONTENDS:
        if arch:
            import models
            path = models.yaml_path(arch)
        else:
            d = os.path.join(ctx.scratch, "fe")
            os.makedirs(d, exist_ok=True)
            path = os.path.join(d, key + ".yml")
            with open(path, "w") as f:
                f.write(arch_yaml)
        _FRONTENDS[key] = Frontend(path_to_yaml=path)
    return _FRONTENDS[key]


def report_oracle(ctx, kernel, dg, rep, arch=None, arch_yaml=None):
    """The REPORT: the LCD column marks the members of ONE loop-carried dependency of maximal latency, every marked cell shows that
    member's latency (also a latency of 0), and the LCD figure of the summary row is that maximum (0 without a dependency)."""
    import c13_lib
    lcd = dg.get_loopcarried_dependencies()
    try:
        fe = frontend_for(ctx, arch, arch_yaml)
        txt = fe.full_analysis(kernel, dg, ignore_unknown=True, arch_warning=False, length_warning=False, lcd_warning=False, verbose=False)
    except Exception as e:  # noqa
        ctx.violation("report-raises", "Frontend.full_analysis raises %r" % e, rep)
        return False
    try:
        t = c13_lib.tokenise(txt)
    except c13_lib.Layout as e:
        ctx.coverage.setdefault("report_layout_not_recognised", []).append(str(e)[:120])
        return False
    ctx.count()
    marked = {r["num"]: float(r["lcd"]) for r in t["rows"] if r["lcd"] != ""}
    entries = [({int(i.line_number): float(l) for i, l in v["dependencies"]}, float(v["latency"])) for v in lcd.values()]
    mx = max([l for _, l in entries], default=0.0)
    cands = [m for m, l in entries if l == mx]
    zero_edge = any(w == 0.0 for m in cands for w in m.values())
    ctx.coverage["report_lcd_column_checked"] = ctx.coverage.get("report_lcd_column_checked", 0) + 1
    ctx.coverage["report_longest_cycle_with_zero_latency_member"] = ctx.coverage.get("report_longest_cycle_with_zero_latency_member", 0) + zero_edge
    if (cands and marked not in cands) or (not cands and marked):
        ctx.violation("lcd-column-not-a-longest-cycle", "the LCD column of the report marks %s; loop-carried dependencies of maximal latency %s: %s"
                      % (sorted(marked.items()), mx, [sorted(m.items()) for m in cands[:3]]), rep)
    if t["summary"] is not None and abs(float(t["summary"]["lcd"]) - mx) > 0.051:
        ctx.violation("lcd-figure-not-the-maximum", "the summary row shows LCD %s, the longest loop-carried dependency takes %s"
                      % (t["summary"]["lcd"], mx), rep)
    return zero_edge


def record(ctx, recs, kernel, dg, flagdeps):
    """one more run of the real check_for_loopcarried_dep, networkx wrapped, for the translator cross-check"""
    if len(kernel) >= type(dg).INSTRUCTION_THRESHOLD:
        return                          # the multi-process branch: C16 / C19
    try:
        recs.append(lcd_gen.record_lcd(kernel, dg, flagdeps))
    except Exception as e:  # noqa
        ctx.coverage.setdefault("translated_lcd_runs_not_recorded", []).append(repr(e)[:200])


def run(ctx):
    depcheck.prepare(ctx, "Props/C05.v")
    ctx.trusted += ["translator tools/gen_lcd.py (on tools/gen_c01.py + tools/py2coq.py; fail-closed; cross-checked against CPython on every recorded run) "
                    "and its prelude Model/PyLcd.v: int = Z, set = membership list, list.sort = stable insertion sort with Python's tuple/list `<`, "
                    "dict with str keys = insertion-ordered association list, paths from an instruction to its copy visit int nodes only",
                    "networkx all_simple_paths / ancestors / subgraph and dg.edges[s, d]['latency'] are parameters of the translated definitions"]
    recs = []
    cases = []
    nref = 0
    nrep = 0
    for case, kernel, dg, isa, gl, pipe in c04_family.guarded_synthetic(ctx, ctx.n(120, 2500), key="lcd-raises", maxlen=10, regs_only=True):
        ctx.count()
        if case["lcd"]:
            ctx.nontriv((case["text"], case["db"]["isa_yaml"], case["flagdeps"]))
        if depcheck.lcd_oracle(ctx, case, isa, gl):
            nref += 1
        twice_oracle(ctx, case, isa)
        zero_on_top = case["lcd"] and any(w == 0.0 for s_, m in case["lcd"] if s_ == max(x for x, _ in case["lcd"]) for _, w in m)
        if zero_on_top or nrep < ctx.n(25, 300):
            nrep += 1
            report_oracle(ctx, kernel, dg, {"kind": "report", "isa": isa, "text": case["text"], "flagdeps": case["flagdeps"], "db": case["db"]},
                          arch_yaml=case["db"]["arch_yaml"])
        if len(cases) < 2:
            ctx.sample({"kernel": case["text"], "lcd": case["lcd"]})
        cases.append(case)
        record(ctx, recs, kernel, dg, case["flagdeps"])
    for case, kernel, dg, isa, gl, pipe in c04_family.guarded_synthetic(ctx, ctx.n(40, 600), key="lcd-raises", maxlen=10):
        ctx.count()
        cases.append(case)
        record(ctx, recs, kernel, dg, case["flagdeps"])
    # kernels whose line numbers lie beyond 1000 (offset computation)
    for case0, kernel, dg, isa, gl, pipe in c04_family.guarded_synthetic(ctx, ctx.n(10, 100), key="lcd-raises", maxlen=6, regs_only=True):
        text = "\n" * ctx.rng.choice([999, 1000, 1200, 2500]) + case0["text"]
        try:
            case, kernel, dg = deps.build_case(pipe, text, case0["flagdeps"])
        except Exception as e:  # noqa
            ctx.violation("lcd-raises", "kernel at line > 1000: %r" % e, {"isa": isa, "text": text, "flagdeps": case0["flagdeps"], "db": case0["db"]})
            continue
        case["db"] = case0["db"]
        ctx.count()
        cases.append(case)
        record(ctx, recs, kernel, dg, case0["flagdeps"])
    ctx.coverage["reference_enumerations"] = nref
    lcd_gen.tie(ctx, GEN_FILES, "PropsGen/C05gen.v", lambda: lcd_gen.run_lcd_shards(ctx, recs, "synthetic"))
    depcheck.run_shards(ctx, cases, "synthetic")
    real = [c for c, *_ in depcheck.real(ctx, ctx.n(8, 200), fast_only=ctx.tier == "quick")]
    for c in real:
        ctx.count()
        ctx.nontriv(c["origin"])
    depcheck.run_shards(ctx, real, "real", size=2)
    memory_cycles(ctx)
    recurrences(ctx)
    parallel_cycles(ctx)


def recurrences(ctx):
    """a[i+1] = f(a[i]): the value is carried around the loop through MEMORY and the pointer is bumped in between, the reload's
    displacement compensating the bump -- the store/reload pair is linked only if the tracked register change (+K) is accounted for
    EXACTLY ONCE, wherever the bump stands (before the store, between store and reload, at the loop end).  By construction the
    store and the reload lie on a common loop-carried cycle."""
    import c06
    import models
    avail = models.nonempty_archs()
    n = 0
    for i in range(ctx.n(18, 200)):
        isa = "x86" if i % 3 else "aarch64"
        arch = [m for m in (c06.X86_MODELS if isa == "x86" else c06.A64_MODELS) if m in avail][0]
        pipe = deps.Pipeline(ctx, isa, arch=arch)
        rng = ctx.rng
        D = rng.choice([0, 8, 16, 32])
        K = rng.choice([8, 16])
        shape = rng.choice(["bump-first", "bump-between", "bump-last"])
        if isa == "x86":
            B, V = rng.sample(["rbx", "rax", "rcx", "rdi"], 2)
            op = lambda d: ("%d(%%%s)" % (d, B)) if d else "(%%%s)" % B                          # noqa
            st = lambda d: "movq %%%s, %s" % (V, op(d))                                          # noqa
            ld = lambda d: "movq %s, %%%s" % (op(d), V)                                          # noqa
            use = "addq %%rsi, %%%s" % V
            bump = rng.choice(["addq $%d, %%%s" % (K, B), "subq $%d, %%%s" % (-K, B)])       # (lea is not a tracked change: no claim there)
            tail = ["cmpq %rdx, %" + B, "jne .L1"]
        else:
            B, V = rng.sample(["x1", "x2", "x3", "x4"], 2)
            op = lambda d: ("[%s, #%d]" % (B, d)) if d else "[%s]" % B                            # noqa
            st = lambda d: "str %s, %s" % (V, op(d))                                             # noqa
            ld = lambda d: "ldr %s, %s" % (V, op(d))                                             # noqa
            use = "add %s, %s, x12" % (V, V)
            bump = "add %s, %s, #%d" % (B, B, K)
            tail = ["cmp x9, " + B, "b.ne .L1"]
        if shape == "bump-first":       # bump ; reload of what the previous iteration stored ; use ; store
            body = [bump, ld(D - K), use, st(D)]
        elif shape == "bump-between":   # store ; bump ; reload of the cell just stored (same iteration) ; use (feeds the next store)
            body = [st(D), bump, ld(D - K), use]
        else:                           # reload ; use ; store ; bump
            body = [ld(D - K), use, st(D), bump]
        body += tail[:rng.choice([0, 2])]
        text = "\n".join(body) + "\n"
        rep = {"isa": isa, "arch": arch, "text": text, "kind": "memory"}
        try:
            case, kernel, dg = deps.build_case(pipe, text, False)
        except Exception as e:  # noqa
            ctx.violation("lcd-raises", "recurrence kernel on %s: %r" % (arch, e), rep)
            continue
        ctx.count()
        ctx.nontriv(text)
        n += 1
        s_no = body.index(st(D)) + 1
        l_no = body.index(ld(D - K)) + 1
        both = [e for e in case["lcd"] if s_no in [m for m, _ in e[1]] and l_no in [m for m, _ in e[1]]]
        if not both:
            ctx.violation("lcd-memory-cycle-missing", "%s, %s: the value stored by line %d is reloaded by line %d (the bump of %d is compensated by the "
                          "displacement) and feeds the next store, but no reported loop-carried dependency contains both: %s; reported member sets %s"
                          % (arch, shape, s_no, l_no, K, text.replace("\n", " ; "), [[m for m, _ in e[1]] for e in case["lcd"]][:4]), rep)
    ctx.coverage["memory_recurrence_kernels"] = n


X86_BODIES = {
    "coupled": ["vmulsd %xmm0, %xmm1, %xmm1", "vaddsd %xmm1, %xmm0, %xmm0"],
    "covered": ["vaddsd %xmm2, %xmm9, %xmm4", "vaddsd %xmm3, %xmm9, %xmm5", "vdivsd %xmm4, %xmm3, %xmm2", "vdivsd %xmm5, %xmm2, %xmm3"],
    "self+pair": ["vaddsd %xmm1, %xmm1, %xmm1", "vaddsd %xmm1, %xmm2, %xmm2", "vmulsd %xmm2, %xmm1, %xmm1"],
}
A64_BODIES = {
    "coupled": ["fmul d1, d1, d0", "fadd d0, d0, d1"],
    "covered": ["fadd d4, d2, d9", "fadd d5, d3, d9", "fdiv d2, d3, d4", "fdiv d3, d2, d5"],
    "self+pair": ["fadd d1, d1, d1", "fadd d2, d2, d1", "fmul d1, d1, d2"],
}


def parallel_cycles(ctx):
    """Interlocking dependency cycles (cycles sharing instructions, a self-cycle next to a 2-cycle, a cycle all of whose members lie on
    cycles that start earlier) through the REAL multi-process search: the body is padded with independent instructions to >= 50
    instruction forms so that it lies in the section of ONE worker (2 or 3 workers).  Independent oracle: the padding neither reads
    nor feeds anything, so the padded kernel has exactly the cycles of the body alone (analysed by the sequential search), shifted
    by the padding in front; and the dictionary must be the one the sequential search gives on the same padded kernel."""
    import lcd_par
    import models
    import c06
    avail = models.nonempty_archs()
    hist = {"kernels": 0, "multi_process_runs": 0, "cycles_expected": 0, "bodies_with_shared_instructions": 0}
    fams = []
    for isa, bodies, archs in (("x86", X86_BODIES, c06.X86_MODELS), ("aarch64", A64_BODIES, c06.A64_MODELS)):
        ms = [m for m in archs if m in avail]
        if not ms:
            continue
        for name, body in bodies.items():
            fams.append((isa, ms[0], name, list(body)))
        for j in range(ctx.n(3, 20)):
            gen = lcd_par.gen_x86 if isa == "x86" else lcd_par.gen_a64
            text = gen(ctx.rng, ctx.rng.randint(3, 7), ctx.rng.randint(2, 4), ctx.rng.choice([0.3, 0.7, 1.0]))
            fams.append((isa, ctx.rng.choice(ms[:3]), "generated", [l for l in text.split("\n") if l.strip()]))
    thr = 50

    def canon(res, shift, nbody):
        out = set()
        for key, root, deps, lat in res["lcd"]:
            ls = tuple(sorted(l - shift for l, _ in deps))
            out.add((ls, lat))
        return out
    for isa, arch, name, body in fams:
        pad = (lambda i: "movq $%d, %%r15" % i) if isa == "x86" else (lambda i: "mov x28, #%d" % i)
        base_spec = {"isa": isa, "arch": arch, "text": "\n".join(body) + "\n"}
        try:
            base = lcd_par.analyse(base_spec, timeout=-1, want_paths=False, report=False)
        except Exception as e:  # noqa
            ctx.coverage.setdefault("parallel_family_skipped", []).append("%s %s: %r" % (arch, name, e))
            continue
        if base["parallel"]:
            continue
        want = canon(base, 0, len(body))
        hist["kernels"] += 1
        hist["cycles_expected"] += len(want)
        members = [set(ls) for ls, _ in want]
        if any(a & b for i, a in enumerate(members) for b in members[i + 1:]):
            hist["bodies_with_shared_instructions"] += 1
            ctx.nontriv("\n".join(body))
        pre = ctx.rng.choice([0, 0, 3])
        total = ctx.rng.choice([thr, thr + 3, thr + 14])
        lines = [pad(i) for i in range(pre)] + body + [pad(pre + i) for i in range(total - pre - len(body))]
        spec = {"isa": isa, "arch": arch, "text": "\n".join(lines) + "\n"}
        rep0 = {"kind": "parallel", "isa": isa, "arch": arch, "text": spec["text"], "body": body, "body_first_line": pre + 1}
        try:
            seq = lcd_par.analyse(spec, threshold=10 ** 9, timeout=-1, want_paths=False, report=False)
        except Exception as e:  # noqa
            ctx.violation("lcd-raises", "padded kernel (%s on %s): %r" % (name, arch, e), rep0)
            continue
        for W in (2, 3):
            rep = dict(rep0, W=W)
            try:
                par = lcd_par.analyse(spec, W=W, timeout=-1, want_paths=False, report=False)
            except Exception as e:  # noqa
                ctx.violation("lcd-raises", "multi-process search, %d workers (%s on %s): %r" % (W, name, arch, e), rep)
                continue
            ctx.count()
            if not par["parallel"]:
                ctx.obligation("a kernel of %d instruction forms is searched by worker processes" % par["klen"], "harness", False,
                               "INSTRUCTION_THRESHOLD moved? klen=%d" % par["klen"])
                continue
            hist["multi_process_runs"] += 1
            got = canon(par, pre, len(body))
            missing = sorted(want - got)
            extra = sorted(got - want)
            if missing:
                ctx.violation("lcd-cycle-missing", "%s, %d forms, %d workers: the cross-iteration cycle through lines %s (latency %s) of the loop body "
                              "is reported for the body alone but not for the padded kernel (reported: %s) -- body: %s"
                              % (arch, par["klen"], W, [l + pre for l in missing[0][0]], float.fromhex(missing[0][1]),
                                 sorted([l + pre for l in ls] for ls, _ in got), " ; ".join(body)), rep)
            if extra:
                ctx.violation("lcd-spurious", "%s, %d forms, %d workers: reported loop-carried dependency through lines %s is not one of the body alone -- body: %s"
                              % (arch, par["klen"], W, [l + pre for l in extra[0][0]], " ; ".join(body)), rep)
            if not missing and not extra and par["lcd"] != seq["lcd"]:
                ctx.violation("lcd-parallel-differs-from-sequential", "%s, %d forms, %d workers: the dictionary differs from the one of the sequential search "
                              "on the same kernel: %s vs %s" % (arch, par["klen"], W, par["lcd"][:3], seq["lcd"][:3]), rep)
    ctx.coverage["multi_process_cycles"] = hist


def memory_cycles(ctx):
    """Cycles carried through MEMORY on the real ISA databases: running-sum kernels (a store or read-modify-write store, a reload of
    the same cell that feeds the stored value, a pointer bump somewhere).  Whether the store/reload pair closes a cycle is known
    from the construction: the pair is on a loop-carried cycle iff no bump lies on the (cyclic) way from the store to the next reload.  Plus the LCD correspondence on these kernels."""
    import re
    import c06
    import c14
    import models
    avail = models.nonempty_archs()
    memcases = []
    hist = {"cycle_expected": 0, "no_cycle_expected": 0, "undecided": 0}
    for i in range(ctx.n(40, 500)):
        isa = "x86" if i % 3 else "aarch64"
        arch = [m for m in (c06.X86_MODELS if isa == "x86" else c06.A64_MODELS) if m in avail][0]
        pipe = deps.Pipeline(ctx, isa, arch=arch)
        text = c14.running_sum(ctx.rng, isa)
        lines = text.strip().split("\n")
        rep = {"isa": isa, "arch": arch, "text": text, "kind": "memory"}
        try:
            case, kernel, dg = deps.build_case(pipe, text, False)
        except Exception as e:  # noqa
            ctx.violation("lcd-raises", "running-sum kernel on %s: %r" % (arch, e), rep)
            continue
        case["origin"] = "running-sum kernel on " + arch
        memcases.append(case)
        ctx.count()
        report_oracle(ctx, kernel, dg, dict(rep, kind="report-memory"), arch=arch)
        # construction facts: st = the line with a memory destination, ld = the reload, bump = the pointer bump (if any)
        is_mem = (lambda l: "(" in l) if isa == "x86" else (lambda l: "[" in l)
        mem_lines = [j for j, l in enumerate(lines) if is_mem(l) and not l.startswith("lea")]
        if len(mem_lines) != 2:
            hist["undecided"] += 1
            continue
        st = [j for j in mem_lines if (lines[j].rstrip().endswith(")") if isa == "x86" else lines[j].startswith("str"))]
        ld = [j for j in mem_lines if j not in st]
        if len(st) != 1 or len(ld) != 1:
            hist["undecided"] += 1
            continue
        st, ld = st[0], ld[0]
        base = re.search(r"\((%\w+)\)", lines[st]).group(1) if isa == "x86" else re.search(r"\[(\w+)", lines[st]).group(1)
        if isa == "x86":
            brx = r"^(addq \$-?\d+, %s|subq \$-?\d+, %s|incq %s|leaq .*, %s)$" % ((re.escape(base),) * 4)
        else:
            brx = r"^(add|sub) %s, %s, #-?\d+$" % (base, base)
        bump = [j for j, l in enumerate(lines) if j not in (st, ld) and re.search(brx, l)]
        if any(l.startswith("lea") for l in lines):
            hist["undecided"] += 1          # lea is not tracked: the reload may or may not be linked
            continue
        # the reload that follows the store in program order (same iteration, or the next one when it stands before the store)
        # reads the stored cell iff no bump lies between the two on that (cyclic) way
        if st < ld:
            expect = not any(st < b < ld for b in bump)
        else:
            expect = not any(b > st or b < ld for b in bump)
        hist["cycle_expected" if expect else "no_cycle_expected"] += 1
        ctx.nontriv(text)
        both = [e for e in case["lcd"] if (st + 1) in [m for m, _ in e[1]] and (ld + 1) in [m for m, _ in e[1]]]
        if expect and not both:
            ctx.violation("lcd-memory-cycle-missing", "%s: the reload (line %d) reads the cell the store (line %d) writes and feeds it again, "
                          "but no loop-carried dependency contains both: %s -> %s" % (arch, ld + 1, st + 1, text.replace("\n", " ; "),
                                                                                     [[m for m, _ in e[1]] for e in case["lcd"]]), rep)
        if not expect and both:
            ctx.violation("lcd-memory-cycle-spurious", "%s: store (line %d) and reload (line %d) address different cells in every iteration but a "
                          "loop-carried dependency contains both: %s" % (arch, st + 1, ld + 1, text.replace("\n", " ; ")), rep)
    ctx.coverage["memory_cycles"] = hist
    depcheck.run_shards(ctx, memcases, "memory", size=10)


def replay(ctx, obj):
    r = obj["replay"]
    if r.get("kind") == "parallel":
        import lcd_par
        spec = {"isa": r["isa"], "arch": r["arch"], "text": r["text"]}
        base = lcd_par.analyse({"isa": r["isa"], "arch": r["arch"], "text": "\n".join(r["body"]) + "\n"}, timeout=-1, want_paths=False, report=False)
        par = lcd_par.analyse(spec, W=r.get("W", 2), timeout=-1, want_paths=False, report=False)
        shift = r["body_first_line"] - 1
        want = {tuple(sorted(l for l, _ in deps)) for _, _, deps, _ in base["lcd"]}
        got = {tuple(sorted(l - shift for l, _ in deps)) for _, _, deps, _ in par["lcd"]}
        ctx.log("replay: body alone %s, padded kernel through %d workers %s" % (sorted(want), r.get("W", 2), sorted(got)))
        ctx.count()
        if want != got:
            ctx.violation(obj["key"], obj["what"], r)
        return
    if r.get("kind") in ("report", "report-memory"):
        if r.get("db"):
            pipe = deps.Pipeline(ctx, r["isa"], r["db"]["isa_yaml"], r["db"]["arch_yaml"])
            kernel, dg = pipe.analyse(r["text"], r.get("flagdeps", False))
            report_oracle(ctx, kernel, dg, r, arch_yaml=r["db"]["arch_yaml"])
        else:
            pipe = deps.Pipeline(ctx, r["isa"], arch=r["arch"])
            kernel, dg = pipe.analyse(r["text"], False)
            report_oracle(ctx, kernel, dg, r, arch=r["arch"])
        return
    if r.get("kind") == "memory":
        pipe = deps.Pipeline(ctx, r["isa"], arch=r["arch"])
        case, kernel, dg = deps.build_case(pipe, r["text"], False)
        ctx.log("replay LCD: %s" % case["lcd"])
        ctx.count()
        return
    if r.get("db"):
        pipe = deps.Pipeline(ctx, r["isa"], r["db"]["isa_yaml"], r["db"]["arch_yaml"])
        try:
            case, kernel, dg = deps.build_case(pipe, r["text"], r["flagdeps"])
            ctx.log("replay LCD: %s" % case["lcd"])
        except Exception as e:  # noqa
            ctx.violation(obj["key"], "replay raises %r" % e, r)
        ctx.count()
