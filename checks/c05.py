"""C05 -- loop-carried dependencies are exactly the cross-iteration dependency cycles.
Theorems: Props/C05.v (path enumeration sound+complete, result = first-kept de-duplication, each class once).
X: Model/Deps.lcd_entries = get_loopcarried_dependencies() (keys, member lines, latencies bit for bit).
Search: independent enumeration of winding-number-1 cycles over the reference RAW relation of two iterations."""
import depcheck
import deps

FINISH = dict(level="proof",
              rule="synthetic register-only and mixed kernels (length <= 10 so that enumeration is exhaustive), self-loops, cycles sharing "
                   "nodes, kernels placed beyond line 1000, with/without flag dependencies; shipped kernels x models; non-trivial = kernel "
                   "with at least one loop-carried dependency")


def run(ctx):
    depcheck.prepare(ctx, "Props/C05.v")
    cases = []
    nref = 0
    for case, kernel, dg, isa, gl, pipe in depcheck.synthetic(ctx, ctx.n(120, 2500), maxlen=10, regs_only=True):
        ctx.count()
        if case["lcd"]:
            ctx.nontriv((case["text"], case["db"]["isa_yaml"], case["flagdeps"]))
        if depcheck.lcd_oracle(ctx, case, isa, gl):
            nref += 1
        if len(cases) < 2:
            ctx.sample({"kernel": case["text"], "lcd": case["lcd"]})
        cases.append(case)
    for case, kernel, dg, isa, gl, pipe in depcheck.synthetic(ctx, ctx.n(40, 600), maxlen=10):
        ctx.count()
        cases.append(case)
    # kernels whose line numbers lie beyond 1000 (offset computation)
    for case0, kernel, dg, isa, gl, pipe in depcheck.synthetic(ctx, ctx.n(10, 100), maxlen=6, regs_only=True):
        text = "\n" * ctx.rng.choice([999, 1000, 1200, 2500]) + case0["text"]
        try:
            case, kernel, dg = deps.build_case(pipe, text, case0["flagdeps"])
        except Exception as e:  # noqa
            ctx.violation("lcd-raises", "kernel at line > 1000: %r" % e, {"isa": isa, "text": text, "flagdeps": case0["flagdeps"], "db": case0["db"]})
            continue
        case["db"] = case0["db"]
        ctx.count()
        cases.append(case)
    ctx.coverage["reference_enumerations"] = nref
    depcheck.run_shards(ctx, cases, "synthetic")
    real = [c for c, *_ in depcheck.real(ctx, ctx.n(8, 200), fast_only=ctx.tier == "quick")]
    for c in real:
        ctx.count()
        ctx.nontriv(c["origin"])
    depcheck.run_shards(ctx, real, "real", size=2)


def replay(ctx, obj):
    r = obj["replay"]
    if r.get("db"):
        pipe = deps.Pipeline(ctx, r["isa"], r["db"]["isa_yaml"], r["db"]["arch_yaml"])
        try:
            case, kernel, dg = deps.build_case(pipe, r["text"], r["flagdeps"])
            ctx.log("replay LCD: %s" % case["lcd"])
        except Exception as e:  # noqa
            ctx.violation(obj["key"], "replay raises %r" % e, r)
        ctx.count()
