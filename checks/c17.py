"""C17 -- model caches are transparent, also after interrupted or racing writes.

Theorems (coq/Props/C17.v): keyed-content invariant preserved by every step under both write disciplines; every
   load that returns, returns the parse of the content it read; under AtomicRename (temp file + os.replace,
   unreadable = miss) no process ever raises, nothing partial is visible under a final name and a later run always
   completes with the parse of the current content -- for every history, crash point and interleaving; under InPlace
   (the shipped code) that statement is refuted; the lazy load touches no cache.
X: the real command line tool is driven through generated cache histories in private worlds (harness/c17_hist.py);
   the recorded outcomes and file-system states of every history must be a run of the AtomicRename model
   (trace_fail evaluated by coqc).
Search: independent oracle -- every run that was not killed must exit 0 and print exactly the cold report of the
   current model-file content.
"""
import concurrent.futures
import json
import os

import vlib
import c17_hist as H
import c17_tie

FINISH = dict(level="proof",
              rule="one case = one history (3-8 operations on a private world: runs of the real command line tool, "
                   "edits, planted/truncated caches, killed writers, simultaneous cold starts, several analyses/loads with edits in "
                   "between inside one process); evaluations = "
                   "operations executed on the implementation; a history is non-trivial when it contains more than a "
                   "cold run followed by warm runs; distinct = distinct (arch, kernel, mode, operation list)")


def core_histories(ctx, hook):
    """The histories of the property's quantifier, instantiated on the small shipped models."""
    hs = []
    archs = ["zen1", "n1", "tx2"]

    def add(mode, ops, variants=(0, 1, 2), arch=None, kern=0):
        a = arch or archs[len(hs) % len(archs)]
        hs.append(dict(arch=a, kernel=H.KERNELS[H.ISA_OF[a]][kern % 3], mode=mode, variants=list(variants), ops=ops))

    add("comp", [["cli"], ["cli"], ["cli"]])                                            # cold, cache-writing, warm companion
    add("home", [["cli"], ["cli"], ["cli"]])                                            # warm home cache (data dir read-only)
    add("comp", [["plant", "comp", 4, "cur", 0], ["cli"], ["cli"]])                     # pre-existing valid cache in the package dir
    add("comp", [["plant", "comp", 4, 1, -1], ["cli"], ["cli"]])                        # pre-existing cache of an older format, other data
    add("home", [["plant", "home", 4, 1, 1], ["cli"], ["cli"]])                         # ... of a newer format, in the home cache
    add("comp", [["cli"], ["edit", 1], ["cli"], ["cli"], ["edit", 0], ["cli"], ["edit", 2], ["cli"]])   # edited after caching
    add("home", [["cli"], ["edit", 1], ["cli"], ["edit", 0], ["cli"]])
    add("home", [["load_other"], ["cli"], ["cli"], ["load_other"]])                     # same-name other file, shared home cache
    add("comp", [["load_other"], ["cli"], ["load_other"]])
    add("comp", [["load2"], ["load2"], ["cli"]])                                        # in-process cache
    # several loads / analyses inside ONE process with edits in between (the in-process cache must not serve them)
    add("comp", [["inproc", ["analyse", ["edit", 1], "analyse", ["edit", 2], "analyse", ["edit", 0], "analyse"]], ["cli"]], arch="zen1")
    add("home", [["inproc", ["analyse", ["edit", 1], "analyse"]], ["cli"]], arch="n1")
    add("comp", [["inproc", ["load", ["edit", 1], "load", ["edit", 2], "load_arch", ["edit", 0], "load"]]], arch="tx2")
    add("comp", [["cli"], ["inproc", ["load_arch", ["edit", 1], "load_arch", "analyse"]], ["cli"]], arch="n1")
    add("comp", [["inproc", ["load_rel", ["edit", 1], "load_rel", "load", ["edit", 2], "load_rel"]]], arch="zen1")
    ks = [0, 1, 2, 3]
    for k in ks:                                                                        # truncated cache file, every offset class
        add("comp", [["cli"], ["plant", "comp", k, "cur", 0], ["cli"], ["cli"]])
    for k in (ks if ctx.tier == "thorough" else [0, 2]):
        add("home", [["cli"], ["plant", "home", k, "cur", 0], ["cli"], ["cli"]])
    if hook:
        for k in [0, 1, 2, 3, 4]:                                                       # writer killed at every offset class
            add("comp", [["cli_crash", k], ["cli"], ["cli"]])
        for k in ([0, 1, 2, 3, 4] if ctx.tier == "thorough" else [2, 3]):
            add("home", [["cli_crash", k], ["cli"], ["cli"]])
        add("comp", [["load2"], ["cli_crash", 2], ["cli"], ["cli"]])                    # the kill hits the ISA cache
        add("comp", [["cli_crash", 1], ["cli_crash", 3], ["cli"]])
    for n in ([2, 3, 4, 5, 6] if ctx.tier == "thorough" else [2, 4, 6]):                # simultaneous cold starts
        add("comp" if n % 2 == 0 else "home", [["race", n], ["cli"]])
    if hook:
        add("comp", [["cli_crash", 2], ["race", 3], ["cli"]])
    return hs


def random_histories(ctx, hook, count):
    hs = []
    archs = ["zen1", "n1", "tx2"]
    for _ in range(count):
        a = ctx.rng.choice(archs)
        mode = ctx.rng.choice(["comp", "home"])
        ops = []
        for _ in range(ctx.rng.randint(3, 6)):
            r = ctx.rng.random()
            if r < 0.35:
                ops.append(["cli"])
            elif r < 0.5:
                ops.append(["edit", ctx.rng.choice([0, 1, 2])])
            elif r < 0.65:
                ops.append(["plant", ctx.rng.choice(["comp", "home"]), ctx.rng.randint(0, 4),
                            "cur", 0] if ctx.rng.random() < 0.7 else
                           ["plant", ctx.rng.choice(["comp", "home"]), 4, ctx.rng.choice([1, 2]), ctx.rng.choice([-1, 1])])
            elif r < 0.8 and hook:
                ops.append(["cli_crash", ctx.rng.randint(0, 4)])
            elif r < 0.86:
                ops.append(["race", ctx.rng.randint(2, 4)])
            elif r < 0.92:
                subs = []
                for _ in range(ctx.rng.randint(3, 5)):
                    x = ctx.rng.random()
                    subs.append(["edit", ctx.rng.choice([0, 1, 2])] if x < 0.4 else
                                ctx.rng.choice(["analyse", "load", "load_arch", "load_rel"]))
                subs.append(ctx.rng.choice(["analyse", "load", "load_arch"]))
                ops.append(["inproc", subs])
            elif r < 0.96:
                ops.append(["load_other"])
            else:
                ops.append(["load2"])
        ops.append(["cli"])
        kern = ctx.rng.choice(H.KERNELS[H.ISA_OF[a]])
        if ctx.tier != "thorough":
            kern = H.KERNELS[H.ISA_OF[a]][0]      # quick: reuse the cold references of the core histories
        hs.append(dict(arch=a, kernel=kern, mode=mode, variants=[0, 1, 2], ops=ops))
    return hs


def fix_plants(spec):
    """A plant in companion position of a read-only world is still a legal history; nothing to adjust.  Plants of
    data of *another* content under the current format version would violate the hypothesis same_ver: exclude."""
    for o in spec["ops"]:
        if o[0] == "plant" and o[3] != "cur" and o[4] == 0:
            o[4] = -1
    return spec


PRELUDE = """From Coq Require Import List Arith Bool String.
From OV Require Import Model.PyString Model.Cache.
Import ListNotations.
Set Printing Width 100000. Set Printing Depth 100000.
Definition apath := mkPath 0 0. Definition ipath := mkPath 1 1. Definition opath := mkPath 2 0.
Definition res (w : setup) (s : state) (es : list event) : string :=
  match trace_fail w [s] es 0 with None => "ok"%string | Some i => String.append "fail@" (string_of_nat i) end.
"""


def coq_text(worlds, iv):
    parts = [PRELUDE]
    names_a, names_i = [], []
    for i, w in enumerate(worlds):
        parts.append("Definition h%d : list event := [\n  %s].\n" % (i, ";\n  ".join(w.events)))
        wa, s0 = w.coq_setup("AtomicRename", iv)
        wi, _ = w.coq_setup("InPlace", iv)
        names_a.append("res %s %s h%d" % (wa, s0, i))
        names_i.append("res %s %s h%d" % (wi, s0, i))
    parts.append("Eval vm_compute in (String.concat \",\" [%s]).\n" % "; ".join(names_a))
    parts.append("Eval vm_compute in (String.concat \",\" [%s]).\n" % "; ".join(names_i))
    return "".join(parts)


def describe(spec, w):
    return {"arch": spec["arch"], "kernel": spec["kernel"], "mode": spec["mode"], "ops": spec["ops"], "log": w.log}


def execute(ctx, specs, jobs=8):
    # cold references first (sequential per key, memoised), then the histories in parallel
    for s in specs:
        refs = H.Refs.get(ctx.scratch, s["arch"], s["kernel"], s["variants"])
    worlds = [None] * len(specs)
    with concurrent.futures.ThreadPoolExecutor(max_workers=jobs) as ex:
        futs = {ex.submit(H.run_history, ctx.scratch, i, s): i for i, s in enumerate(specs)}
        for f in concurrent.futures.as_completed(futs):
            worlds[futs[f]] = f.result()
    return worlds


def judge(ctx, specs, worlds, tag):
    iv = H.internal_version()
    # references must make sense: the report-changing edit really changes the report, cold loads agree with themselves
    for s in specs[:1]:
        pass
    ref_errors = []
    for key, refs in H.Refs._memo.items():
        ref_errors += refs["errors"]
        reps = refs["report"]
        if H.CID_ARCH0 in reps and H.CID_ARCH0 + 1 in reps and reps[H.CID_ARCH0] == reps[H.CID_ARCH0 + 1]:
            ref_errors.append("edit 1 does not change the report for %s" % (key,))
    ctx.obligation("cold references (%s): cold runs succeed, cold loads are reproducible, the latency edit changes the report" % tag,
                   "harness", not ref_errors, "\n".join(ref_errors[:5]))
    for key, refs in H.Refs._memo.items():
        for fname, cid, what in refs["lossy"]:
            ctx.violation("cached-model-differs-from-parsed-model", "%s (content #%d, world of --arch %s): %s -- compared attribute by attribute "
                          "(every field of every instruction form, load/store table and header)" % (fname, cid, key[0], what),
                          {"refs": {"arch": key[0], "kernel": key[1], "variants": list(key[2])}})
        ctx.count(2 * (len(key[2]) + 2))
    # (search) the property itself on the implementation's outputs
    nviol = 0
    for i, (s, w) in enumerate(zip(specs, worlds)):
        ctx.count(sum(len(o[1]) if o[0] == "inproc" else 1 for o in s["ops"]))
        if (len(s["ops"]) > 1 or s["ops"][0][0] == "inproc") and any(o[0] != "cli" for o in s["ops"]):
            ctx.nontriv(json.dumps([s["arch"], s["kernel"], s["mode"], s["ops"]]))
        for key, what in w.bad:
            nviol += 1
            ctx.violation(key, "%s --arch %s, %s cache: %s; history: %s" % (
                os.path.basename(s["kernel"]), s["arch"], "home" if s["mode"] == "home" else "companion", what,
                " ; ".join(l for l in w.log if not l.startswith("   fs:"))), {"spec": s})
            break
    # (X) the recorded traces are runs of the AtomicRename model
    shards = []
    size = 8
    for a in range(0, len(worlds), size):
        shards.append(("c17_%s_%d" % (tag, a // size), coq_text(worlds[a:a + size], iv)))
    results = ctx.coq_eval_many(shards, timeout=300)
    ra, ri = [], []
    broken = ""
    for (ok, out), (name, _) in zip(results, shards):
        if not ok or len(out) != 2:
            broken = (out[0] if out else "no output")[-1500:]
            continue
        ra += out[0].split(",")
        ri += out[1].split(",")
    if broken or len(ra) != len(worlds):
        ctx.obligation("trace evaluation (%s) compiles" % tag, "correspondence", False, broken)
        return nviol
    unexpected = [(i, w.unexpected) for i, w in enumerate(worlds) if w.unexpected]
    rej_a = [i for i, r in enumerate(ra) if r != "ok"]
    rej_i = [i for i, r in enumerate(ri) if r != "ok"]
    detail = ""
    if rej_a:
        i = rej_a[0]
        k = int(ra[i].split("@")[1])
        detail = ("%d of %d histories are not runs of the AtomicRename model (accepted by the InPlace model: %d of those). "
                  "First: history %d %s; rejected at event %d: %s\nlog:\n%s" % (
                      len(rej_a), len(worlds), len([j for j in rej_a if j not in rej_i]), i,
                      json.dumps(specs[i]["ops"]), k, worlds[i].events[k] if k < len(worlds[i].events) else "?",
                      "\n".join(worlds[i].log)))
    for i in [j for j in rej_a if j in rej_i][:3]:
        k = int(ri[i].split("@")[1])
        ctx.log("history %d is a run of neither model; InPlace model rejects event %d: %s; AtomicRename: %s\n%s\n%s" % (
            i, k, worlds[i].events[k] if k < len(worlds[i].events) else "?", ra[i], json.dumps(specs[i]["ops"]), "\n".join(worlds[i].log)))
    ctx.obligation("correspondence (%s): all %d recorded histories (outcomes + file-system states after every operation) "
                   "are runs of the AtomicRename model" % (tag, len(worlds)), "correspondence", not rej_a, detail)
    ctx.obligation("correspondence (%s): no cache file under a name the model does not know" % tag, "correspondence",
                   not unexpected, "unexpected files: %s" % unexpected[:3])
    ctx.coverage.setdefault("model_acceptance", {})[tag] = {
        "histories": len(worlds), "accepted_by_AtomicRename_model": len(worlds) - len(rej_a),
        "accepted_by_InPlace_model": len(worlds) - len(rej_i)}
    ctx.log("%s: %d histories, AtomicRename model accepts %d, InPlace model accepts %d, oracle failures %d"
            % (tag, len(worlds), len(worlds) - len(rej_a), len(worlds) - len(rej_i), nviol))
    return nviol


def dotted_names(ctx):
    """model files whose name contains a dot (my.model.yml): the cache key must still contain the content hash (regression of the
    with_suffix defect repaired in /repo 5c7f137)"""
    rc, out = vlib.sh([vlib.PY, os.path.join(vlib.VERIF, "harness", "c17_dotted_stem.py"), vlib.REPO], env=vlib.repo_env(home=ctx.home), timeout=300)
    ctx.count(2)
    ctx.nontriv("dotted-model-file-name")
    if rc != 0:
        last = [l for l in out.strip().splitlines() if "->" in l][-2:]
        ctx.violation("edit-not-picked-up:dotted-model-file-name", "a model file whose name contains a dot gets a cache file without the content hash, "
                      "an edited file is served from the stale entry: %s" % " | ".join(last), {"dotted": True})


def isa_edits(ctx, only=None):
    """The ISA semantics file is a model file too: edits of it inside one process and between processes (oracle only; the Coq trace
    model of the cache protocol is exercised by the arch-file histories)."""
    combos = [("zen1", "comp"), ("n1", "comp"), ("zen1", "home")] if ctx.tier == "quick" else [(a, m) for a in ("zen1", "n1", "tx2") for m in ("comp", "home")]
    if only:
        combos = [tuple(only)]
    with concurrent.futures.ThreadPoolExecutor(max_workers=3) as ex:
        futs = {ex.submit(H.isa_edit_history, ctx.scratch, a, H.KERNELS[H.ISA_OF[a]][0], m): (a, m) for a, m in combos}
        for f in concurrent.futures.as_completed(futs):
            a, m = futs[f]
            log, bad = f.result()
            ctx.count(len(log))
            ctx.nontriv(json.dumps(["isa-edit", a, m]))
            for key, what in bad:
                if key == "harness":
                    ctx.obligation("ISA-edit reference for %s" % a, "harness", False, what)
                else:
                    ctx.violation(key, "--arch %s, %s cache: %s; history: %s" % (a, "home" if m == "home" else "companion", what, " ; ".join(log)),
                                  {"isa_edit": [a, m]})
                break
    ctx.coverage["isa_edit_histories"] = len(combos)


def run(ctx):
    ctx.trusted += [
        "Model/Cache.v is hand-written from hw_model.py (three reads of the model file, probe order, write target by os.access, "
        "truncate + chunk writes / temp + rename); tied by the history correspondence, not by translation",
        "SHA-256 modelled as injective (hash = content); pickle as decode(complete)=Some, decode(anything else)=None; "
        "POSIX rename atomic; os.access answers fixed during a history",
        "harness/c17_hist.py abstraction of a cache file (unpickles -> OComplete with a fingerprint-identified content, else "
        "OPartial by size class) and of a run (exit status + report text)",
    ]
    ctx.assumptions += [
        "same_ver: no cache file built by different loader code under the same INTERNAL_VERSION exists initially (Inv s0); "
        "theorem same_ver_hypothesis_needed shows it cannot be dropped",
        "only for code that hashes the model file again for the cache write (w_rehash, see coverage.rehash_in_source): edits "
        "of a model file do not fall between a load's parse and that hash (quiet; load_refines_parse_unguarded_refuted shows "
        "such code is not safe against it); for code that keys the cache by the parsed bytes load_refines_parse_full and "
        "current_code_safe need no restriction on edits",
        "kill timing is sampled at the byte classes {0, header, mid-stream, last byte missing, complete-not-renamed}; "
        "racing schedules of real processes are whatever the OS produced",
    ]
    ctx.ensure_static()
    ctx.compile_theorems("Props/C17.v")
    hook = H.hook_present()
    ctx.coverage["crash_hook_present"] = hook
    ctx.coverage["rehash_in_source"] = H.rehash_in_source()
    if not hook:
        ctx.log("crash-at-byte hook not present in this tree: killed-writer histories are replaced by planted truncations")
    # translator tie (T): regenerate the protocol from the current source and prove it equal to the model (in the background, while
    # the histories run), then replay the recorded histories with the regenerated code
    c17_tie.run(ctx, lambda: histories(ctx, hook), H.NCH)


def histories(ctx, hook):
    """Execute and judge the histories; returns them as batches (tag, specs, worlds) for the cross-check of the translator tie."""
    try:
        specs = [fix_plants(s) for s in core_histories(ctx, hook)]
        worlds = execute(ctx, specs)
        nv = judge(ctx, specs, worlds, "core")
        for s, w in list(zip(specs, worlds))[:3]:
            ctx.sample(describe(s, w))
        nrand = ctx.n(12, 150)
        specs2 = [fix_plants(s) for s in random_histories(ctx, hook, nrand)]
        worlds2 = execute(ctx, specs2)
        nv += judge(ctx, specs2, worlds2, "random")
        ctx.sample(describe(specs2[0], worlds2[0]))
        isa_edits(ctx)
        dotted_names(ctx)
    finally:
        cleanup(ctx)
    ctx.coverage["histories"] = len(specs) + len(specs2)
    ctx.coverage["history_kinds"] = sorted({o[0] for s in specs + specs2 for o in s["ops"]})
    return [("core", specs, worlds), ("random", specs2, worlds2)]


def cleanup(ctx):
    # immutable directories must be released before the scratch directory can be removed
    vlib.sh("chattr -R -i %s 2>/dev/null; true" % ctx.scratch)


def replay(ctx, obj):
    r = obj["replay"]
    if r.get("dotted"):
        return dotted_names(ctx)
    if "isa_edit" in r:
        try:
            isa_edits(ctx, only=r["isa_edit"])
        finally:
            cleanup(ctx)
        return
    if "refs" in r:
        try:
            refs = H.Refs.get(ctx.scratch, r["refs"]["arch"], r["refs"]["kernel"], r["refs"]["variants"])
        finally:
            cleanup(ctx)
        for fname, cid, what in refs["lossy"]:
            ctx.violation("cached-model-differs-from-parsed-model", "%s (content #%d): %s" % (fname, cid, what), r)
        if not refs["lossy"]:
            ctx.log("replay: cached and parsed model data agree attribute by attribute -- not reproduced on this tree")
        return
    if "spec" not in r:
        return run(ctx)
    spec = r["spec"]
    try:
        w = H.run_history(ctx.scratch, 0, spec)
    finally:
        cleanup(ctx)
    ctx.count(len(spec["ops"]))
    for l in w.log:
        ctx.log("replay: " + l)
    for key, what in w.bad:
        ctx.violation(key, what, r)
        break
    if not w.bad:
        ctx.log("replay: every run exited 0 with the cold report -- not reproduced on this tree")
