"""C12 -- register dependence equals architectural register overlap.

T: is_reg_dependend_of & helpers are regenerated from the parsers' source (tools/gen_c12.py),
   PropsGen/C12.v proves dep = overlap on the whole (finite) universe by vm_compute.
X: the regenerated Gallina and the Python originals are compared on every ordered pair.
Search: the Python originals (on operands produced by the real parser) are swept against an
   independent architectural partition; any mismatch is a concrete failing pair.
"""
import os
import vlib
import gen_c12
from vlib import coq_string as cs

FINISH = dict(level="proof",
              rule="exhaustive: every ordered pair of register names of the universe of each ISA "
                   "(x86 392 names, AArch64 656 (prefix,name) spellings, lower and upper case); a pair is "
                   "non-trivial when the two names differ; distinct = distinct ordered pairs")


# ---------------------------------------------------------------- independent universes (Python side)
def universe_x86():
    fams = [["rax", "eax", "ax", "al", "ah"], ["rbx", "ebx", "bx", "bl", "bh"], ["rcx", "ecx", "cx", "cl", "ch"],
            ["rdx", "edx", "dx", "dl", "dh"], ["rbp", "ebp", "bp", "bpl"], ["rsp", "esp", "sp", "spl"],
            ["rsi", "esi", "si", "sil"], ["rdi", "edi", "di", "dil"]]
    fams += [["r%d" % n, "r%dd" % n, "r%dw" % n, "r%db" % n] for n in range(8, 16)]
    fams += [["xmm%d" % n, "ymm%d" % n, "zmm%d" % n] for n in range(32)]
    fams += [["mm%d" % n] for n in range(8)] + [["k%d" % n] for n in range(8)]
    out = []
    for i, f in enumerate(fams):
        for nm in f:
            out += [(i, nm), (i, nm.upper())]
    return out


def universe_a64():
    out = []
    for pre, cls in [("w", "g"), ("x", "g")] + [(p, "v") for p in "bhsdqvz"] + [("p", "p")]:
        names = [(str(n), str(n)) for n in range(32)]
        if cls == "g":
            names += [("sp", "sp"), ("SP", "sp"), ("zr", "zr"), ("ZR", "zr")]
        for written, canon in names:
            out += [((cls, canon), pre, written), ((cls, canon), pre.upper(), written)]
    return out


def py_matrix(ctx, isa, use_parser):
    """dep[i] = sorted list of j with is_reg_dependend_of(u[i], u[j]) true, on the implementation."""
    from osaca.parser import ParserX86ATT, ParserAArch64
    from osaca.parser.register import RegisterOperand
    if isa == "x86":
        U = universe_x86()
        p = ParserX86ATT()
        ops = []
        for fam, nm in U:
            op = RegisterOperand(name=nm)
            if use_parser:
                r = p.parse_line("foo %%%s, %%%s" % (nm, nm))
                if len(r.operands) == 2 and isinstance(r.operands[0], RegisterOperand):
                    op = r.operands[0]
            ops.append(op)
        fams = [f for f, _ in U]
    else:
        U = universe_a64()
        p = ParserAArch64()
        ops = []
        for fam, pre, nm in U:
            op = RegisterOperand(name=nm, prefix=pre)
            if use_parser:
                try:
                    written = (pre + nm) if nm.lower() not in ("sp",) or pre.lower() == "w" else nm
                    r = p.parse_line("foo %s, %s" % (written, written))
                    if len(r.operands) == 2 and isinstance(r.operands[0], RegisterOperand):
                        op = r.operands[0]
                except Exception:
                    pass
            ops.append(op)
        fams = [f for f, _, _ in U]
    rows = []
    errors = []
    for i, a in enumerate(ops):
        row = []
        for j, b in enumerate(ops):
            try:
                if p.is_reg_dependend_of(a, b):
                    row.append(j)
            except Exception as e:  # a crash on a register pair is a failing input too
                errors.append((i, j, repr(e)))
        rows.append(row)
    return U, fams, rows, errors


def oracle_sweep(ctx, isa):
    U, fams, rows, errors = py_matrix(ctx, isa, use_parser=True)
    n = len(U)
    bad = []
    for i in range(n):
        have = set(rows[i])
        for j in range(n):
            want = fams[i] == fams[j]
            if want != (j in have):
                bad.append((i, j, want))
    ctx.count(n * n)
    for i in range(n):
        for j in range(n):
            if i != j:
                ctx.nontriv((isa, i, j)) if (i * 7 + j) % 97 == 0 else None
    ctx.coverage.setdefault("pairs", {})[isa] = n * n
    show = lambda u: u[1] if isa == "x86" else u[1] + u[2]
    for i, j, e in errors[:1]:
        ctx.violation("%s-dep-raises" % isa, "is_reg_dependend_of(%s, %s) raises %s" % (show(U[i]), show(U[j]), e),
                      {"isa": isa, "a": show(U[i]), "b": show(U[j])})
    if bad:
        i, j, want = bad[0]
        ctx.violation("%s-dep-differs-from-overlap" % isa,
                      "%d of %d ordered pairs wrong; first: %s vs %s reported %s, architectural overlap says %s"
                      % (len(bad), n * n, show(U[i]), show(U[j]), "independent" if want else "dependent",
                         "dependent" if want else "independent"),
                      {"isa": isa, "a": show(U[i]), "b": show(U[j]), "expected_dependent": want,
                       "all_bad_first20": [(show(U[a]), show(U[b]), w) for a, b, w in bad[:20]]})
    ctx.sample({"isa": isa, "universe_size": n, "example_pairs": [[show(U[3]), show(U[5]), 5 in rows[3]], [show(U[0]), show(U[n - 1]), (n - 1) in rows[0]]]})
    return not bad and not errors


def graph_sweep(ctx, isa, only=None):
    """"Treated as dependent" is observed where the relation is USED: for every same-family pair of the universe and as many random
    cross-family pairs, the two-line kernel `write a ; read b` (unknown mnemonic, default roles) must have the dependency edge in
    KernelDG iff the registers overlap architecturally."""
    import models
    from osaca.parser import ParserX86ATT, ParserAArch64
    from osaca.semantics import KernelDG
    U = universe_x86() if isa == "x86" else universe_a64()
    show = (lambda u: "%" + u[1]) if isa == "x86" else (lambda u: (u[1] + u[2]) if u[2].lower() != "sp" or u[1].lower() == "w" else u[2])
    fam = lambda u: u[0]
    mm, sem = models.load("zen2" if isa == "x86" else "n1")
    parser = ParserX86ATT() if isa == "x86" else ParserAArch64()
    same = [(i, j) for i in range(len(U)) for j in range(len(U)) if i != j and fam(U[i]) == fam(U[j])]
    ctx.rng.shuffle(same)
    same = same[:ctx.n(400, 4000)]
    cross = []
    while len(cross) < len(same):
        i, j = ctx.rng.randrange(len(U)), ctx.rng.randrange(len(U))
        if fam(U[i]) != fam(U[j]):
            cross.append((i, j))
    pairs = same + cross
    if only:
        idx = {show(u).lstrip("%").lower(): k for k, u in enumerate(U)}
        pairs = [(idx[only[0].lstrip("%").lower()], idx[only[1].lstrip("%").lower()])]
    bad, n = [], 0
    for i, j in pairs:
        a, b = U[i], U[j]
        tg = [u for u in U if fam(u) not in (fam(a), fam(b))]
        t = show(tg[(i * 31 + j) % len(tg)])
        text = ("foo $1, %s\nfoo %s, %s\n" % (show(a), show(b), t)) if isa == "x86" else ("foo %s, #1\nfoo %s, %s\n" % (show(a), t, show(b)))
        try:
            kernel = parser.parse_file(text)
            sem.add_semantics(kernel)
            dg = KernelDG(kernel, parser, mm, sem)
            has = dg.dg.has_edge(1, 2)
        except Exception as e:  # noqa
            bad.append((show(a), show(b), "raises %r" % e))
            continue
        n += 1
        want = fam(a) == fam(b)
        if has != want:
            bad.append((show(a), show(b), "edge %s, architectural overlap %s" % (has, want)))
    ctx.count(n)
    ctx.coverage.setdefault("graph_level_pairs", {})[isa] = n
    if bad:
        a, b, what = bad[0]
        ctx.violation("%s-dependency-graph-differs-from-overlap" % isa, "%d of %d two-line kernels `write a ; read b` wrong; first: %s then %s: %s"
                      % (len(bad), len(pairs), a, b, what), {"isa": isa, "graph": [a, b]})


def correspondence(ctx, isa):
    """Translated Gallina vs the Python original, all ordered pairs, inputs = constructed operands."""
    U, fams, rows, errors = py_matrix(ctx, isa, use_parser=False)
    exp = "[" + "; ".join("[" + "; ".join("%d" % j for j in r) + "]" for r in rows) + "]"
    if isa == "x86":
        uni = "map (fun p => mkreg (snd p) \"\") U86"
        dep = "x86_is_reg_dependend_of"
        imp = "Gen.RegDepX86"
    else:
        uni = "map (fun r => mkreg (a_name r) (a_prefix r)) UA64"
        dep = "a64_is_reg_dependend_of"
        imp = "Gen.RegDepA64"
    text = """From Coq Require Import String List Bool Arith.
From OV Require Import Model.PyString Model.RegRec Model.RegArch %s.
Import ListNotations.
Set Printing Width 100000. Set Printing Depth 100000.
Definition U := %s.
Definition expected : list (list nat) := %s.
Definition row (a : reg) : list nat :=
  map fst (filter (fun p => %s a (snd p)) (combine (seq 0 (length U)) U)).
Definition bad : list nat :=
  map fst (filter (fun p => negb (if list_eq_dec Nat.eq_dec (row (fst (snd p))) (snd (snd p)) then true else false))
                  (combine (seq 0 (length U)) (combine U expected))).
Definition show := (String.concat "," (map string_of_nat (firstn 20 bad)) ++ "|" ++ string_of_nat (length U) ++ "|" ++ string_of_nat (length expected))%%string.
Eval vm_compute in show.
""" % (imp, uni, exp, dep)
    ok, out, dt = ctx.coq_eval("corr_c12_" + isa, text, timeout=600)
    if not ok:
        ctx.obligation("correspondence %s: translated Gallina = Python on all pairs" % isa, "correspondence", False, out[0])
        return
    badrows, nu, ne = out[0].split("|")
    good = badrows == "" and nu == ne == str(len(U))
    detail = ""
    if not good:
        detail = "universe sizes coq=%s python=%s; disagreeing rows (first 20): %s -> %s" % (
            nu, len(U), badrows, [U[int(x)] for x in badrows.split(",") if x][:5])
    ctx.obligation("correspondence %s: translated Gallina = Python on all %d pairs" % (isa, len(U) ** 2), "correspondence", good, detail)
    ctx.log("correspondence %s: %s (%.1fs)" % (isa, "agree" if good else "DISAGREE " + detail, dt))


def run(ctx):
    ctx.trusted += ["translator tools/py2coq.py (fail-closed subset; cross-checked exhaustively by the correspondence sweep)",
                    "architectural register partition Model/RegArch.v, hand-written from the property text",
                    "RegisterOperand construction by the pyparsing grammar is exercised (oracle sweep), not modelled"]
    ctx.assumptions += ["register operands reaching is_reg_dependend_of carry a non-None name (x86) / name and prefix (AArch64)"]
    ctx.ensure_static()
    gen = gen_c12.generate(vlib.REPO, os.path.join(vlib.COQ, "Gen"))
    for fn, (ok, text) in gen.items():
        ctx.obligation("translate %s from the current source" % fn, "translation", ok, "" if ok else text)
    all_gen = all(ok for ok, _ in gen.values())
    compiled = True
    for fn, (ok, _) in gen.items():
        if ok:
            c, out, _ = ctx.coqc_gen(os.path.join(vlib.COQ, "Gen", fn))
            ctx.obligation("generated %s type-checks" % fn, "translation", c, out)
            compiled = compiled and c
    if all_gen and compiled:
        ctx.compile_theorems("PropsGen/C12.v")
    else:
        ctx.obligation("theorems of PropsGen/C12.v", "theorem", False, "generated definitions unavailable")
    for isa, fn in (("x86", "RegDepX86.v"), ("aarch64", "RegDepA64.v")):
        if gen[fn][0]:
            correspondence(ctx, isa)
    # direct search on the implementation (always run: it is cheap and exhaustive)
    for isa in ("x86", "aarch64"):
        oracle_sweep(ctx, isa)
        graph_sweep(ctx, isa)
    ctx.coverage["exhaustive"] = True


def replay(ctx, obj):
    from osaca.parser import ParserX86ATT, ParserAArch64
    r = obj["replay"]
    if "isa" not in r:
        return run(ctx)
    if "graph" in r:
        return graph_sweep(ctx, r["isa"], only=r["graph"])
    p = ParserX86ATT() if r["isa"] == "x86" else ParserAArch64()
    fmt = "foo %%%s, %%%s" if r["isa"] == "x86" else "foo %s, %s"
    ops = p.parse_line(fmt % (r["a"], r["b"])).operands
    got = bool(p.is_reg_dependend_of(ops[0], ops[1]))
    ctx.count()
    ctx.log("replay: %s vs %s -> dependent=%s, expected %s" % (r["a"], r["b"], got, r.get("expected_dependent")))
    if got != r.get("expected_dependent"):
        ctx.violation(obj["key"], obj["what"], r)
