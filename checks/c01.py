"""C01 -- port pressure is a feasible split of each instruction's micro-ops.

Theorems (Props/C01.v, exact arithmetic): the uniform split is feasible with slack 0; feasibility
implies non-negativity, support, total and Hall's condition for every port set; balancing writes
only to ports of the micro-op being balanced (any numeric instance, any number of passes);
tp_sum is the rounded column sum over lines with non-zero throughput.
X: Model/Pressure.v instantiated with binary64 (Model/Num.v) must reproduce the implementation's
   average_port_pressure / assign_optimal_throughput / get_throughput_sum BIT FOR BIT (and raise
   where Python raises) on synthetic port models and on shipped kernels x shipped models.
Search: Hall/total/support/non-negativity evaluated with exact fractions on the implementation's
   output (harness/pressure.py: feasibility)."""
import glob
import json
import os

import vlib
import pressure
import c01_gen
import c01_bal

FINISH = dict(level="proof",
              rule="synthetic cases: random port models (1-6 ports, multi-character names, string and list port collections, "
                   "1-4 micro-ops, overlapping/nested/disjoint port sets, alternatives, zero-throughput forms) x kernels of 1-12 "
                   "instructions x {uniform, once, twice}; real cases: shipped example/test kernels x shipped models; a case is "
                   "non-trivial when at least one instruction has a micro-op with >= 2 ports and the kernel has >= 2 counted lines; "
                   "distinct = distinct (ports, forms, kernel, mode) tuples")

KNOWN_TWICE = "second assign_optimal_throughput pass (osaca.inspect calls it twice)"


def num_prelude_shard(ctx):
    """round(x,2), int(x*100.0), sum() of the binary64 model vs CPython on random values."""
    rng = ctx.rng
    vals = []
    for _ in range(ctx.n(600, 4000)):
        k = rng.choice([1, 2, 3, 4, 5, 6, 7, 8])
        c = rng.choice([0.25, 0.5, 1, 2, 3, 0.33, 1.5, 0.1, 4, 10, 123456.785])
        x = c / k
        for _ in range(rng.randrange(0, 60)):
            x += rng.choice([-0.01, 0.01])
        vals.append(x)
    vals += [0.125, 0.135, 0.145, 0.005, -0.005, 0.0, -0.0, 2.675, 123456.785, 1e-17, -1e-17, 0.015, 0.025, 0.035,
             1e15 + 0.5, 4503599627370497.5, 0.004999999999999999, 0.005000000000000001, 5e-324, 1e300, 87.5, 99.995]
    L = pressure.flit
    r2 = [(v, round(v, 2)) for v in vals]
    tr = [(v * 100.0, int(v * 100.0)) for v in vals if abs(v) < 1e200]
    sums = []
    for _ in range(ctx.n(300, 2000)):
        l = [rng.choice(vals[:-6]) for _ in range(rng.randrange(1, 10))]
        sums.append((l, float(sum(l))))
    text = """From Coq Require Import ZArith List String PrimFloat.
From OV Require Import Model.Num Model.PyString.
Import ListNotations.
Definition r2 : list (float*float) := [%s].
Definition tr : list (float*Z) := [%s].
Definition sm : list (list float*float) := [%s].
Definition nbad := (List.length (filter (fun p => negb (andb (f_biteq (f_round2 (fst p)) (snd p)) (f_biteq (f_round2_Z (fst p)) (snd p)))) r2)
  + List.length (filter (fun p => negb (Z.eqb (f_trunc (fst p)) (snd p))) tr)
  + List.length (filter (fun p => negb (f_biteq (f_sum (fst p)) (snd p))) sm))%%nat.
Eval vm_compute in (string_of_nat nbad).
""" % ("; ".join("(%s, %s)" % (L(a), L(b)) for a, b in r2),
       "; ".join("(%s, (%d)%%Z)" % (L(a), b) for a, b in tr),
       "; ".join("([%s], %s)" % ("; ".join(L(x) for x in l), L(s)) for l, s in sums))
    ok, out, dt = ctx.coq_eval("numprelude", text)
    good = ok and out and out[0] == "0"
    ctx.obligation("binary64 prelude (round(x,2), int(), compensated sum()) = CPython on %d values" % (len(r2) + len(tr) + len(sums)),
                   "correspondence", good, "" if good else str(out)[:2000])
    ctx.count(len(r2) + len(tr) + len(sums))


def nontrivial(case):
    multi = any(len(list(u[1])) >= 2 for f in case["forms"] for u in (f["uops"] if not isinstance(f["uops"], dict) else sum(f["uops"].values(), [])))
    counted = sum(1 for fi in case["kernel"] if case["forms"][fi]["tp"] != 0.0)
    return multi and counted >= 2


def case_key(case):
    return json.dumps([case["ports"], case["forms"], case["kernel"], case["mode"], case.get("real")], sort_keys=True, default=str)


PENDING = []          # second-pass deviations waiting for the model's verdict on their case


def line_below_granularity(case, out, text):
    """is the line named in an oracle message an instruction with a micro-op below the balancing granularity?"""
    import re
    m = re.match(r"line (\d+) ", text)
    if not m:
        return False
    ln = int(m.group(1))
    return pressure.below_granularity(out[3][ln] if not isinstance(out[3][ln], dict) else list(out[3][ln].values())[0])


def flush_pending(ctx, disagree_ids, evaluated_ids):
    """deviations of a known family (second CLI pass; share below the balancing granularity): known finding iff the bit-exact
    model reproduces the implementation on that very case"""
    keep = []
    for cid, kind, text, case, prefix in PENDING:
        if cid in disagree_ids:
            ctx.violation(prefix.rstrip(":") + "-not-explained-by-model:" + kind, text + " -- and the bit-exact model of the balancer does NOT "
                          "reproduce this output, so it is not the known defect", {"case": case, "kind": kind})
        elif cid in evaluated_ids:
            ctx.violation(prefix + kind, text, {"case": case, "kind": kind})
        else:
            keep.append((cid, kind, text, case, prefix))
    PENDING[:] = keep


GRAN = "share-below-granularity:"


def judge(ctx, case, out, prop="C01"):
    """Independent oracle on the implementation's output."""
    mode = case["mode"]
    if out[0] != "ok":
        if mode == "uniform" or case.get("real") or out[1] in ("EKey",):
            return
        # the balancer raised.  Known only for instructions with a micro-op whose uniform share is within half a balancing
        # step per micro-op (no shipped model has one) or in the second CLI pass -- and only if the bit-exact model raises
        # the same error on this very case; anything else is reported
        if pressure.case_below_granularity(case):
            PENDING.append((id(case), "raises", "synthetic kernel, mode %s: the balancer raises %s" % (mode, out[2][:120]), case, GRAN))
        elif mode == "twice":
            PENDING.append((id(case), "raises", "synthetic kernel, mode %s: the balancer raises %s" % (mode, out[2][:120]), case, "second-pass:"))
        else:
            ctx.violation(mode + ":raises", "synthetic kernel, mode %s: the balancer raises %s" % (mode, out[2][:200]), {"case": case, "kind": "raises"})
        return
    bad = pressure.feasibility(case, out)
    if case.get("real") and case["real"][0] == "zen1":
        bad = [b for b in bad if b[0] not in ("hall", "total")]       # load/store multipliers scale the micro-ops
    for kind, text in bad:
        if kind == "crash":
            continue
        where = "real kernel %s on %s" % (case["real"][1].replace("\n", " ; ")[:400], case["real"][0]) if case.get("real") else "synthetic kernel"
        if mode != "uniform" and not case.get("real") and kind in ("hall", "total", "negative") and line_below_granularity(case, out, text):
            # a micro-op whose uniform share is within half a balancing step per micro-op of its instruction: the balancing
            # granularity exceeds the share (outside the hypothesis of the one-pass theorem; no shipped model has such a form)
            PENDING.append((id(case), kind, "%s, mode %s: %s" % (where, mode, text), case, GRAN))
            continue
        if mode == "twice":
            # the known second-pass defect is exactly what the bit-exact model of the balancer exhibits; the verdict is given
            # once the model has been evaluated on this case (run_cases): only a deviation the model REPRODUCES is that finding
            PENDING.append((id(case), kind, "%s, mode %s: %s" % (where, mode, text), case, "second-pass:"))
            continue
        ctx.violation(mode + ":" + kind, "%s, mode %s: %s" % (where, mode, text), {"case": case, "kind": kind})


def run_cases(ctx, cases_outs, label, shard_size=20):
    shards = []
    for i in range(0, len(cases_outs), shard_size):
        shards.append(("%s_%03d" % (label, i // shard_size), pressure.coq_shard(cases_outs[i:i + shard_size])))
    res = ctx.coq_eval_many(shards, timeout=900)
    nbad = 0
    nexact0 = 0
    details = []
    disagree_ids = set()
    for si, (ok, out) in enumerate(res):
        if not ok:
            nbad += 1
            details.append("shard %d failed to evaluate: %s" % (si, out[0][-1500:]))
            disagree_ids |= set(id(c) for c, _ in cases_outs[si * shard_size:(si + 1) * shard_size])
            continue
        bad, n, ex0 = out[0].split("|")
        nexact0 += int(ex0)
        for b in [x for x in bad.split(",") if x]:
            nbad += 1
            c, o = cases_outs[si * shard_size + int(b)]
            disagree_ids.add(id(c))
            details.append("case disagrees: %s -> impl %s" % (json.dumps(c, default=str)[:1500], str(o[:3])[:600]))
            # keep for the regression corpus of this run
            d = os.path.join(vlib.VERIF, "replays", ctx.prop)
            os.makedirs(d, exist_ok=True)
            with open(os.path.join(d, "disagree-%s-%d-%s.json" % (label, si, b)), "w") as f:
                json.dump({"property": ctx.prop, "key": "correspondence", "replay": {"case": c}}, f, default=str)
    ctx.obligation("correspondence %s: binary64 model = implementation bit for bit on %d cases" % (label, len(cases_outs)),
                   "correspondence", nbad == 0, "\n".join(details[:5]))
    flush_pending(ctx, disagree_ids, set(id(c) for c, _ in cases_outs))
    ctx.coverage.setdefault("exact_zero_events", {})[label] = nexact0
    return nbad


def synthetic(ctx, n, tiny=False):
    cases_outs = []
    hist = {}
    for i in range(n):
        case = pressure.gen_case(ctx.rng, tiny=tiny, mode=ctx.rng.choice(["once", "once", "twice", "uniform"]) if tiny else None)
        out = pressure.run_impl(case)
        cases_outs.append((case, out))
        ctx.count()
        if nontrivial(case):
            ctx.nontriv(case_key(case))
        k = "%s/%s" % (case["mode"], out[0] if out[0] == "ok" else out[1])
        hist[k] = hist.get(k, 0) + 1
        if i < 2:
            ctx.sample({"case": case, "impl": out[:3]})
        judge(ctx, case, out)
    ctx.coverage["synthetic_outcomes" + ("_tiny" if tiny else "")] = hist
    if tiny:
        ctx.coverage["tiny_cases_below_granularity"] = sum(1 for c, _ in cases_outs if pressure.case_below_granularity(c))
        return cases_outs
    ctx.coverage["synthetic_sizes"] = {"ports": _hist(len(c["ports"]) for c, _ in cases_outs),
                                       "kernel_len": _hist(len(c["kernel"]) for c, _ in cases_outs)}
    return cases_outs


def _hist(it):
    h = {}
    for x in it:
        h[str(x)] = h.get(str(x), 0) + 1
    return h


def real(ctx, npairs):
    import models
    files = pressure.kernel_files()
    pairs = []
    for f in files:
        isa = pressure.isa_of_file(f)
        for a in (models.X86 if isa == "x86" else models.A64):
            if a in models.nonempty_archs():
                pairs.append((a, f))
    ctx.rng.shuffle(pairs)
    if ctx.tier == "quick":
        pairs = [p for p in pairs if p[0] in models.SMALL + ["zen2"]]
    # every model at least once (first pair of each architecture), then the shuffled rest
    firsts = {}
    for p in pairs:
        firsts.setdefault(p[0], p)
    pairs = list(firsts.values()) + [p for p in pairs if p not in firsts.values()]
    pairs = pairs[:max(npairs, len(firsts))]
    cases_outs = []
    for a, f in pairs:
        # the uniform analysis comes LAST, on the semantics object that has just balanced the very same kernel: nothing of the
        # optimised pass may survive into it (per-object memos of looked-up pressure lists)
        for mode in (["twice", "uniform"] if ctx.tier == "quick" else ["once", "twice", "uniform"]):
            try:
                case, out = pressure.real_case(a, f, mode)
            except Exception as e:  # parse/semantics failure is not this property's business
                ctx.coverage.setdefault("real_skipped", []).append("%s %s: %r" % (a, os.path.basename(f), e))
                continue
            cases_outs.append((case, out))
            ctx.count()
            ctx.nontriv(case_key(case))
            judge(ctx, case, out)
    # --fixed means THE uniform split: every row of a uniform analysis is cycles/len(ports) per micro-op and port, computed here
    # with exact fractions from the micro-ops the line reports (zen1: load/store multipliers scale the micro-ops, skipped)
    from fractions import Fraction as Fr
    devs = []
    nuni = 0
    for case, out in cases_outs:
        if case["mode"] != "uniform" or out[0] != "ok" or not case.get("real") or case["real"][0] == "zen1":
            continue
        nuni += 1
        for ln, (fi, row) in enumerate(zip(case["kernel"], out[1])):
            us = pressure.uops_of(case, fi, out[3][ln])
            exp = [sum((c / len(ps) for c, ps in us if ps and p in ps), Fr(0)) for p in case["ports"]]
            if any(abs(Fr(x) - e) > Fr(1, 10 ** 9) for x, e in zip(row, exp)):
                devs.append("%s on %s, line %d: reported %s, uniform split of its micro-ops %s" % (
                    os.path.basename(str(case["real"][1]))[:60], case["real"][0], ln, row, [float(e) for e in exp]))
    ctx.obligation("correspondence real-uniform: every row of a uniform (--fixed) analysis, made on the semantics object that has just balanced the same "
                   "kernel, is the 1/N split of the line's micro-ops (%d analyses)" % nuni, "correspondence", not devs, "\n".join(devs[:5]))
    ctx.coverage["real_pairs"] = len(pairs)
    # generated kernels through the real parse + add_semantics path: the same model entry hit by several lines
    gen = 0
    for i in range(ctx.n(30, 300)):
        arch = ctx.rng.choice([a for a in models.nonempty_archs() if ctx.tier != "quick" or a in models.SMALL + ["zen2", "hsw", "n1"]])
        isa = "x86" if arch in models.X86 else "aarch64"
        path = os.path.join(ctx.scratch, "rep%d.s" % i)
        with open(path, "w") as f:
            f.write(pressure.repeated_entry_kernel(ctx.rng, isa))
        for mode in ("once", "twice", "uniform"):
            try:
                case, out = pressure.real_case(arch, path, mode)
            except Exception as e:  # noqa
                ctx.coverage.setdefault("real_skipped", []).append("%s generated: %r" % (arch, e))
                continue
            case["real"] = [arch, "generated:" + open(path).read()]
            cases_outs.append((case, out))
            ctx.count()
            ctx.nontriv(case_key(case))
            judge(ctx, case, out)
            gen += 1
    ctx.coverage["generated_real_path_cases"] = gen
    return cases_outs


def family2_cases(ctx):
    """the bounded family of theorem C01_family2_*: replayed on the implementation (quick: sample; thorough: all)"""
    subsets = [["A"], ["B"], ["C"], ["A", "B"], ["A", "C"], ["B", "C"], ["A", "B", "C"]]
    forms = [[s] for s in subsets] + [[a, b] for a in subsets for b in subsets]
    kernels = [[f] for f in forms] + [[g, f] for f in forms for g in forms]      # order irrelevant: the sample is compared per kernel
    assert len(kernels) == 3192
    idx = list(range(len(kernels)))
    if ctx.tier == "quick":
        idx = ctx.rng.sample(idx, 240)
    out = []
    for i in idx:
        fs = []
        kern = []
        for f in kernels[i]:
            fd = {"tp": 1.0, "uops": [[1, list(s)] for s in f]}
            if fd not in fs:
                fs.append(fd)
            kern.append(fs.index(fd))
        case = {"ports": ["A", "B", "C"], "forms": fs, "kernel": kern, "mode": "once"}
        o = pressure.run_impl(case)
        ctx.count()
        ctx.nontriv(("family2", i))
        judge(ctx, case, o)
        out.append((case, o))
    ctx.coverage["family2_replayed"] = len(idx)
    return out


def corpus_cases(ctx):
    out = []
    for p in sorted(glob.glob(os.path.join(vlib.VERIF, "corpus", "C01", "*.json"))):
        case = json.load(open(p))["case"]
        case["forms"] = [dict(f, uops={int(k): v for k, v in f["uops"].items()} if isinstance(f["uops"], dict) else f["uops"]) for f in case["forms"]]
        out.append((case, pressure.run_impl(case)))
    return out


def duplicate_ports(ctx):
    """The theorems assume that a micro-op's port collection names no port twice (ctx.assumptions).  Check it on the shipped data --
    a compact port string is read character by character, so `'2311'` is ports 2, 3, 1, 1 -- and, where it fails, analyse one such
    instruction form in a kernel that makes the balancer move it: the index list then holds one index twice and the write-back of
    the balanced values overwrites an updated cell with a stale one."""
    import models
    found = []
    for a in models.nonempty_archs():
        try:
            mm, sem = models.load(a)
        except Exception:
            continue
        rows = [(getattr(e, "mnemonic", None) or (e.get("name") if isinstance(e, dict) else None),
                 getattr(e, "port_pressure", None) if not isinstance(e, dict) else e.get("port_pressure")) for e in mm._data.get("instruction_forms", [])]
        for kind in ("load_throughput", "store_throughput"):
            rows += [(kind, getattr(r, "port_pressure", None) if not isinstance(r, dict) else r.get("port_pressure")) for r in (mm._data.get(kind) or [])]
        for name, pp in rows:
            for alt in (list(pp.values()) if isinstance(pp, dict) else [pp or []]):
                for u in alt or []:
                    try:
                        ps = list(u[1])
                    except Exception:
                        continue
                    if len(set(ps)) != len(ps):
                        found.append((a, str(name), [float(u[0]), ps], [[float(x[0]), list(x[1])] for x in alt]))
    ctx.obligation("assumption of the feasibility theorems holds for the shipped data: no micro-op names a port twice", "assumption", not found,
                   "; ".join("%s %s %s" % (a, n, u) for a, n, u, _ in found[:6]))
    ctx.coverage["shipped_uops_with_duplicate_port"] = len(found)
    seen = set()
    for a, name, u, alt in found:
        if (a, json.dumps(alt)) in seen or len(seen) >= 4:
            continue
        seen.add((a, json.dumps(alt)))
        mm, sem = models.load(a)
        ports = list(mm.get_ports())
        others = [p for p in ports if p in u[1]]
        # the form with the repeated port next to single-port work on each of its ports, optimised once
        forms = [{"tp": 1.0, "uops": alt}] + [{"tp": 1.0, "uops": [[float(k + 1), [p]]]} for k, p in enumerate(dict.fromkeys(others))]
        for mode in ("uniform", "once"):
            case = {"ports": ports, "forms": forms, "kernel": list(range(len(forms))), "mode": mode}
            out = pressure.run_impl(case)
            ctx.count()
            if out[0] != "ok":
                ctx.violation(mode + ":raises", "%s %s with micro-ops %s (a port named twice): the balancer raises %s" % (a, name, alt, out[2][:120]), {"case": case, "kind": "raises"})
                continue
            for kind, text in pressure.feasibility(case, out):
                if kind != "crash":
                    ctx.violation(mode + ":" + kind, "shipped form %s of %s, micro-ops %s (a port named twice), mode %s: %s" % (name, a, alt, mode, text), {"case": case, "kind": kind})


def run(ctx):
    ctx.trusted += ["binary64 model Model/Num.v: Coq primitive floats + CPython's round/sum algorithms, validated against CPython every run",
                    "hand-written model Model/Pressure.v tied to the code only by the bit-exact correspondence (generator quality bounds it)",
                    "exact-arithmetic theorems transfer to binary64 only up to rounding (DESIGN 0.2); the oracle is evaluated on the real floats"]
    ctx.assumptions += ["hidden_loads is false (every shipped model); port collections contain no duplicate port"]
    ctx.ensure_static()
    ctx.compile_theorems("Props/C01.v")
    c01_gen.run(ctx)      # T: average_port_pressure / get_throughput_sum regenerated from the source = the hand model (PropsGen/C01gen.v)
    c01_bal.run(ctx)      # T: assign_optimal_throughput (the balancer) regenerated from the source = the hand model (PropsGen/C01bal.v)
    num_prelude_shard(ctx)
    co = corpus_cases(ctx)
    if co:
        for c, o in co:
            judge(ctx, c, o)
        run_cases(ctx, co, "corpus")
    fam2 = family2_cases(ctx)
    run_cases(ctx, fam2, "family2")
    duplicate_ports(ctx)
    syn = synthetic(ctx, ctx.n(320, 6400))
    run_cases(ctx, syn, "synthetic")
    tiny = synthetic(ctx, ctx.n(160, 3200), tiny=True)   # shares of the order of the balancing step (exact zeros, shares rounding to 0.00)
    run_cases(ctx, tiny, "tiny")
    re = real(ctx, ctx.n(10, 400))
    run_cases(ctx, re, "real", shard_size=ctx.n(1, 4))


def replay(ctx, obj):
    r = obj["replay"]
    if "c01gen" in r:
        return c01_gen.replay(ctx, obj)
    case = r["case"]
    case["forms"] = [dict(f, uops={int(k): v for k, v in f["uops"].items()} if isinstance(f["uops"], dict) else f["uops"]) for f in case["forms"]]
    if case.get("real") and case["real"][1].startswith("generated:"):
        path = os.path.join(ctx.scratch, "replay.s")
        with open(path, "w") as f:
            f.write(case["real"][1][len("generated:"):])
        real = case["real"]
        case, out = pressure.real_case(real[0], path, case["mode"])
        case["real"] = real
    elif case.get("real"):
        case, out = pressure.real_case(case["real"][0], os.path.join(vlib.REPO, case["real"][1]), case["mode"])
    else:
        out = pressure.run_impl(case)
    ctx.count()
    ctx.log("replay: implementation returned %s" % str(out[:3])[:800])
    judge(ctx, case, out)
    if PENDING:
        run_cases(ctx, [(case, out)], "replay")
    if obj.get("key") == "correspondence":
        run_cases(ctx, [(case, out)], "replay")
