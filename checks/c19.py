"""C19 -- LCD timeout yields sound partial results and leaves no workers behind.

Theorems: Props/C19.v (partial_sound (+ refuted without key injectivity, + unconditional
   partial_genuine), poll-loop state machine: loop_terminates, complete_when_untimed,
   flag_iff_loop_exhausted, killed_or_joined, parallel_time_bounded; refuted edges
   flag_without_cut_refuted, sequential_untimed_refuted).
X: every instrumented run of the real multi-process search is replayed in the Coq model:
   (a) Model.Parallel.post on the raw list the (possibly killed) workers delivered = the dictionary
       returned; entries are a subset of the untimed dictionary; key_inj decided on the full list;
   (b) Model.Timeout.run_parallel on the recorded clock readings / is_alive observations reproduces
       exit kind, poll count, timed_out, the per-worker kill flags, and "all joined".
Search: kernel_x86_long_LCD.s, generated dense kernels and ordinary kernels x timeouts
   {0, 1, 2, generous, -1}: wall time, flag <=> some worker was SIGKILLed, warning <=> flag (CLI),
   reported LCDs subset of the untimed result with equal values, TP/CP unchanged, every worker
   joined before the shared list is read, no child process afterwards (/proc).
T: the CONTROL FLOW of both branches of check_for_loopcarried_dep (process creation per section, start, join-all, the poll loop with
   while...else, kill, join, list(all_paths); the sequential deadline loop) is regenerated from the current source as a function over
   an oracle (tools/gen_c19.py -> Gen/LcdCtl.v; harness/c19_tie.py); PropsGen/C19gen.v, C19genSeq.v, C19genAll.v prove it equal, for
   every oracle, to the functional reading Model/ProcCtl.v, hence to run_parallel FlagOnKill / run_sequential SeqDeadlinePerPath in their
   worlds, restate the theorems of Props/C19.v for it and prove the trace statements (every started worker joined, shared list read
   after the last join, flag iff SIGKILL sent) for every oracle; the recorded call sequences of the real runs are replayed through the
   regenerated function (notes/C19-gen.md).
Sequential branch (kernels below the threshold; harness/c19_seq.py): Model.Timeout.run_sequential under the
   rule read off the source (SeqIgnoresTimeout = as shipped, SeqDeadlinePerPath = repaired) is replayed on runs
   with a synthetic clock (the cut lands on a chosen path): flag, number of clock readings and the delivered
   list -- which must be the prefix of networkx's own unrestricted enumeration -- agree; post() on the delivered
   list = the dictionary.  Repaired tree: dense kernels of 20-49 lines in real time (search phase <= timeout +
   one step, flag <=> a yielded path was dropped, every entry a genuine cycle of the graph, subset of the
   untimed result, complete and unflagged when in time).  Shipped tree: the 40-line witness (known finding).
"""
import json
import os
import random as _random
import time

import vlib
import lcd_par
import c19_seq
import c19_tie
import c16

FINISH = dict(level="proof",
              rule="one evaluation = one instrumented run of the LCD search with a timeout (in-process API or CLI); "
                   "non-trivial = the run was cut (>= 1 worker SIGKILLed) or delivered >= 2 blocks; distinct = distinct (kernel, timeout, mode)")

K_SEQ = "kernel_dg.py:check_for_loopcarried_dep:sequential-branch-ignores-timeout"
K_FLAG = "kernel_dg.py:check_for_loopcarried_dep:while-else-sets-timed_out-without-killing"
K_STEP = "kernel_dg.py:check_for_loopcarried_dep:sequential-search-step-without-yield-unbounded"
SEQ_DRIVER = os.path.join(vlib.VERIF, "harness", "c19_seq.py")
STEP_US = 500000        # us: the longest admissible distance of two clock readings of the sequential search ("one step")
OVERHEAD = 5.0          # s: manager start, forks, last 0.2 s sleep, kills, joins
TPCP_REF = {}
KILL_SLACK = 2.0        # s: the parent may notice the passed deadline one 0.2 s poll late (plus scheduling noise)
PER_PATH = 0.001        # s per delivered path: list(ListProxy) is one round trip per element


# ------------------------------------------------------------------ kernels
def kernels(ctx):
    rng = ctx.rng
    c16.warm(ctx, ["zen2", "tx2"])
    out = {}
    out["long_LCD"] = {"isa": "x86", "arch": "zen2",
                       "text": open(os.path.join(vlib.REPO, "tests/test_files/kernel_x86_long_LCD.s")).read()}
    out["fib60"] = {"isa": "x86", "arch": "zen2", "text": lcd_par.gen_fib_x86(60)}
    # ordinary kernels (complete search is quick)
    real = c16.kernel_lines(os.path.join(vlib.REPO, "examples/gs/gs.s.zen.gcc.s"), "x86", True)
    out["gs+pad52"] = {"isa": "x86", "arch": "zen2", "text": lcd_par.pad_text(real, "x86", 52, rng)}
    a64 = c16.kernel_lines(os.path.join(vlib.REPO, "tests/test_files/kernel_aarch64.s"), "aarch64", False)
    out["a64+pad50"] = {"isa": "aarch64", "arch": "tx2", "text": lcd_par.pad_text(a64, "aarch64", 50, rng)}
    # medium kernels: untimed search takes seconds, a 1 s timeout cuts it with blocks already delivered
    cands = []
    for g in range(ctx.n(10, 30)):
        n = rng.choice([50, 52])
        seed = rng.randrange(10 ** 9)
        dbl = rng.choice([8, 9, 10, 11])
        text = lcd_par.gen_chain_x86(_random.Random(seed), n, dbl)
        cands.append(("medium-chain-n%d-d%d-s%d" % (n, dbl, seed), {"isa": "x86", "arch": "zen2", "text": text}))
    counts = c16.run_batches(ctx, [[{"op": "count", "spec": s, "cap": 3 * 10 ** 6}] for _, s in cands], timeout=120, jobs=10)
    med = []
    for (name, spec), res in zip(cands, counts):
        c, w = res[0].get("count"), res[0].get("work")
        if c and 60000 <= w <= 130000:       # sequential search of a few seconds
            med.append((c, name, spec))
    med.sort()
    for c, name, spec in med[:ctx.n(1, 3)]:
        out["%s-paths%d" % (name, c)] = spec
    ctx.coverage["medium_kernels"] = [n for n in out if n.startswith("medium")]
    return out


# ------------------------------------------------------------------ which rules does the tree under test implement?
def _sets_flag(n):
    import ast
    return (isinstance(n, ast.Assign) and len(n.targets) == 1 and isinstance(n.targets[0], ast.Attribute)
            and n.targets[0].attr == "timed_out" and isinstance(n.targets[0].value, ast.Name) and n.targets[0].value.id == "self"
            and isinstance(n.value, ast.Constant) and n.value.value is True)


def _branches():
    """(statements of the parallel branch, statements of the sequential branch) of check_for_loopcarried_dep:
    the `if klen >= self.INSTRUCTION_THRESHOLD:` ... `else:` of the function; None if it is not found exactly once."""
    import ast
    src = open(os.path.join(vlib.REPO, "osaca", "semantics", "kernel_dg.py")).read()
    fns = [n for n in ast.walk(ast.parse(src)) if isinstance(n, ast.FunctionDef) and n.name == "check_for_loopcarried_dep"]
    if len(fns) != 1:
        return None
    ifs = [n for n in ast.walk(fns[0]) if isinstance(n, ast.If) and n.orelse
           and any(isinstance(a, ast.Attribute) and a.attr == "INSTRUCTION_THRESHOLD" for a in ast.walk(n.test))]
    if len(ifs) != 1:
        return None
    everywhere = [n for n in ast.walk(fns[0]) if _sets_flag(n)]
    inside = [n for b in (ifs[0].body, ifs[0].orelse) for st in b for n in ast.walk(st) if _sets_flag(n)]
    if len(everywhere) != len(inside):      # the flag is also set outside the two branches: not a shape we know
        return None
    return ifs[0].body, ifs[0].orelse


def flag_rule_in_source():
    """Where, inside the `while ... else:` branch of the parallel search, is `self.timed_out = True`?
    Directly in the branch -> "FlagOnExhaustion" (as shipped); only inside an `if <x>.is_alive():` of the kill
    loop -> "FlagOnKill" (repaired).  Anything else -> None (fail closed)."""
    import ast
    br = _branches()
    if br is None:
        return None
    par = br[0]
    all_sets = [n for st in par for n in ast.walk(st) if _sets_flag(n)]
    whiles = [n for st in par for n in ast.walk(st) if isinstance(n, ast.While) and n.orelse]
    if len(whiles) != 1 or len(all_sets) != 1:
        return None
    orelse = whiles[0].orelse
    if any(_sets_flag(n) for n in orelse):
        return "FlagOnExhaustion"
    for loop in orelse:
        if not isinstance(loop, ast.For):
            continue
        for st in loop.body:
            if (isinstance(st, ast.If) and not st.orelse and isinstance(st.test, ast.Call) and isinstance(st.test.func, ast.Attribute)
                    and st.test.func.attr == "is_alive" and not st.test.args and any(_sets_flag(n) for n in st.body)
                    and any(isinstance(c, ast.Call) and isinstance(c.func, ast.Attribute) and c.func.attr in ("kill", "terminate")
                            for b in st.body for c in ast.walk(b))):
                return "FlagOnKill"
    return None


def seq_rule_in_source():
    """The sequential branch: no mention of the timeout, the clock or the flag -> "SeqIgnoresTimeout" (as shipped).
    Exactly one loop over the yielded paths whose body is `if <test naming timeout and calling time.time()>:
    self.timed_out = True; break` followed by `all_paths.append(<loop variable>)`, and no other flag assignment or
    clock test -> "SeqDeadlinePerPath" (repaired).  Anything else -> None (fail closed)."""
    import ast
    br = _branches()
    if br is None:
        return None
    seq = br[1]
    nodes = [n for st in seq for n in ast.walk(st)]
    names = {n.id for n in nodes if isinstance(n, ast.Name)}
    sets = [n for n in nodes if _sets_flag(n)]
    clock_calls = [n for n in nodes if isinstance(n, ast.Call) and isinstance(n.func, ast.Attribute) and n.func.attr == "time"]
    if not sets and not clock_calls and "timeout" not in names and not any(isinstance(n, ast.Break) for n in nodes):
        return "SeqIgnoresTimeout"
    if len(sets) != 1:
        return None
    good = []
    for loop in nodes:
        if not isinstance(loop, ast.For) or loop.orelse or len(loop.body) != 2 or not isinstance(loop.target, ast.Name):
            continue
        test, app = loop.body
        if not (isinstance(test, ast.If) and not test.orelse and len(test.body) == 2 and _sets_flag(test.body[0]) and isinstance(test.body[1], ast.Break)):
            continue
        tn = list(ast.walk(test.test))
        if not (any(isinstance(n, ast.Name) and n.id == "timeout" for n in tn)
                and any(isinstance(n, ast.Call) and isinstance(n.func, ast.Attribute) and n.func.attr == "time" for n in tn)):
            continue
        if not (isinstance(app, ast.Expr) and isinstance(app.value, ast.Call) and isinstance(app.value.func, ast.Attribute)
                and app.value.func.attr == "append" and len(app.value.args) == 1 and isinstance(app.value.args[0], ast.Name)
                and app.value.args[0].id == loop.target.id):
            continue
        good.append(loop)
    # one such loop; the only clock readings are start_time and the one in its test
    if len(good) == 1 and len(clock_calls) == 2:
        return "SeqDeadlinePerPath"
    return None


RULE = {"v": "FlagOnExhaustion", "seq": "SeqIgnoresTimeout"}


# ------------------------------------------------------------------ poll-loop trace -> model input
def trace_of(r):
    """From the event log: clock readings (us), per worker the model's finishing instant, expected outcome."""
    ev = r["events"]
    pids = [e["pid"] for e in ev if e["ev"] == "start"]
    times = [e["us"] for e in ev if e["ev"] == "time"]
    # segment: reading k (k>=1) starts poll k; is_alive events until the next reading belong to it
    poll = 0
    first_dead = {}
    seen_alive_at = {}
    for e in ev:
        if e["ev"] == "time":
            poll += 1          # poll 1 is start_time (index 0 of clk), so clk index = poll - 1
        elif e["ev"] == "is_alive":
            idx = poll - 1
            if e["alive"]:
                seen_alive_at[e["pid"]] = idx
            elif e["pid"] not in first_dead:
                first_dead[e["pid"]] = idx
    killed = {e["pid"] for e in ev if e["ev"] == "kill"}
    joined = [e["pid"] for e in ev if e["ev"] == "join"]
    return {"pids": pids, "times": times, "first_dead": first_dead, "killed": killed, "joined": joined}


def coq_trace_case(r, T_us):
    tr = trace_of(r)
    times = tr["times"]
    if r["timeout"] == -1:
        clk = "fun _ : nat => 0"
        fins = ["Some 0" for _ in tr["pids"]]
        exp_how, exp_poll = "ExitUntimed", 0
    else:
        # strictly increasing readings (the clock has us resolution here)
        for i in range(1, len(times)):
            if times[i] <= times[i - 1]:
                times[i] = times[i - 1] + 1
        clk = "fun i : nat => nth i [%s] %d" % ("; ".join(str(t) for t in times), times[-1] + 10 ** 9)
        exit_idx = len(times) - 1
        fins = []
        for p in tr["pids"]:
            if p in tr["killed"]:
                fins.append("None")
            else:
                fins.append("Some %d" % times[tr["first_dead"].get(p, exit_idx)])
        # which branch was taken is read off the events after the last clock reading, independently of the flag:
        # `else:` interleaves is_alive / [kill] / join per worker, `break` evaluates any() first and joins afterwards
        tail = []
        for e in r["events"]:
            if e["ev"] == "time":
                tail = []
            elif e["ev"] in ("is_alive", "join", "kill"):
                tail.append(e["ev"])
        last_alive = max([i for i, x in enumerate(tail) if x == "is_alive"] or [-1])
        if "kill" in tail or "join" in tail[:last_alive]:
            deadline = True
        elif len(tr["pids"]) >= 2:
            deadline = False
        else:       # a single worker that is dead: both branches look alike, only the clock tells
            deadline = times[-1] - times[0] > T_us
        exp_how = "ExitDeadline" if deadline else "ExitAllDone"
        exp_poll = exit_idx
    # the poll interval the code asked for (the model needs it only for its fuel); 0.2 s if the run never slept
    step = min([e["d_us"] for e in r["events"] if e["ev"] == "sleep" and e.get("d_us", 0) > 0] or [200000])
    ws = "[" + "; ".join("mkworker [] (%s)" % f for f in fins) + "]"
    killed = "[" + "; ".join("true" if p in tr["killed"] else "false" for p in tr["pids"]) + "]"
    alljoined = all(p in tr["joined"] for p in tr["pids"])
    return ("(let o := run_parallel " + RULE["v"] + " (%s) %d (%d) %s in "
            "how_eqb (how o) %s && Nat.eqb (exit_poll o) %d && Bool.eqb (timed_out o) %s && bl_eqb (killed o) %s && bl_eqb (joined o) (all_true %s) && %s)"
            % (clk, step, T_us, ws, exp_how, exp_poll, "true" if r["timed_out"] else "false", killed, ws, "true" if alljoined else "false"))


TRACE_PRELUDE = """From Coq Require Import ZArith List Bool String.
From OV Require Import Model.PyString Model.Parallel Model.Timeout.
Import ListNotations.
Open Scope Z_scope.
Definition how_eqb (a b : exit_kind) : bool :=
  match a, b with ExitUntimed, ExitUntimed | ExitAllDone, ExitAllDone | ExitDeadline, ExitDeadline | Hangs, Hangs | OutOfFuel, OutOfFuel => true | _, _ => false end.
Fixpoint bl_eqb (a b : list bool) : bool :=
  match a, b with [], [] => true | x :: a', y :: b' => Bool.eqb x y && bl_eqb a' b' | _, _ => false end.
"""


# ------------------------------------------------------------------ oracles on one run
def entry_map(lcd):
    return {e[0]: e for e in lcd}


def check_run(ctx, name, spec, job, r, full, tpcp):
    """Oracles of the property on one instrumented run. full = untimed canonical dictionary or None."""
    T = job["timeout"]
    rp = {"kind": "run", "name": name, "spec": spec, "job": {k: v for k, v in job.items() if k != "spec"}}
    ctx.count()
    if "error" in r:
        ctx.violation("timed-search-raises", "%s timeout=%s: %s" % (name, T, r["error"]), rp)
        return False
    kills = [e for e in r["events"] if e["ev"] == "kill"]
    cut = bool(kills) or any(w["exitcode"] not in (0, None) for w in r["workers"])
    if cut or len(r.get("paths", [])) >= 2:
        ctx.nontriv((name, T, json.dumps(job.get("shim")), job.get("W")))
    # wall time
    if T is not None and T >= 0 and r["parallel"]:
        bound = T + OVERHEAD + PER_PATH * r.get("n_paths", 0)
        if r["wall"] > bound:
            ctx.violation("timeout-overrun", "%s (%d lines) timeout=%s s: search returned after %.2f s (> timeout + %.1f s + %.1f ms/path x %d paths)"
                          % (name, r["klen"], T, r["wall"], OVERHEAD, PER_PATH * 1000, r.get("n_paths", 0)), rp)
    # the cut itself comes right after the deadline: first SIGKILL no later than timeout + one poll (+ noise) after the last worker start
    if T is not None and T >= 0 and r["parallel"] and kills and not job.get("shim"):
        starts = [e["t"] for e in r["events"] if e["ev"] == "start"]
        if starts and kills[0]["t"] - max(starts) > T + KILL_SLACK:
            ctx.violation("cut-later-than-timeout", "%s (%d lines) timeout=%s s: the first worker was killed %.2f s after the workers were started (> timeout + %.1f s)"
                          % (name, r["klen"], T, kills[0]["t"] - max(starts), KILL_SLACK), rp)
    # flag <=> cut
    if r["timed_out"] and not cut and not job.get("shim"):
        ctx.violation(K_FLAG, "%s timeout=%s: timed_out set although no worker was killed (all %d had finished); result complete: %s"
                      % (name, T, len(r["workers"]), full is not None and r["lcd"] == full), rp)
    if cut and not r["timed_out"]:
        ctx.violation("cut-without-flag", "%s timeout=%s: %d workers were SIGKILLed but timed_out is not set (no warning would be shown)"
                      % (name, T, len(kills)), rp)
    if T == -1 and (r["timed_out"] or cut):
        ctx.violation("untimed-run-cut", "%s timeout=-1: timed_out=%s kills=%d" % (name, r["timed_out"], len(kills)), rp)
    # in-process report: the footer follows the flag
    if "report_has_warning" in r and r["report_has_warning"] != r["timed_out"]:
        ctx.violation("warning-differs-from-flag", "%s timeout=%s: footer warning %s, timed_out %s" % (name, T, r["report_has_warning"], r["timed_out"]), rp)
    # soundness of what is reported
    if full is not None:
        fm = entry_map(full)
        wrong = [e for e in r["lcd"] if fm.get(e[0]) != e]
        if wrong:
            ctx.violation("partial-result-not-subset", "%s timeout=%s: %d reported LCDs are not entries of the untimed result; first %s vs %s"
                          % (name, T, len(wrong), wrong[0], fm.get(wrong[0][0])), rp)
        if not r["timed_out"] and r["lcd"] != full:
            ctx.violation("unflagged-result-incomplete", "%s timeout=%s: no flag but %d entries instead of %d"
                          % (name, T, len(r["lcd"]), len(full)), rp)
    # TP / CP untouched (reference: the untimed run; for kernels without one, the first run seen)
    if tpcp is None:
        tpcp = TPCP_REF.setdefault(name, (r.get("tp"), r.get("cp")))
    if tpcp is not None:
        if (r.get("tp"), r.get("cp")) != tpcp:
            ctx.violation("tp-cp-changed-by-timeout", "%s timeout=%s: TP/CP %s differ from the untimed run %s" % (name, T, (r.get("tp"), r.get("cp")), tpcp), rp)
    # workers: joined, dead, reaped; shared list read only after the last join
    ev = r["events"]
    started = [e["pid"] for e in ev if e["ev"] == "start"]
    joined = [e["pid"] for e in ev if e["ev"] == "join"]
    notj = [p for p in started if p not in joined]
    alive = [w for w in r["workers"] if w["alive"] or w["exitcode"] is None]
    if notj or alive or r["children_after"]:
        ctx.violation("worker-left-behind", "%s timeout=%s: %d of %d workers never joined, %d not terminated at return, children in /proc afterwards: %s"
                      % (name, T, len(notj), len(started), len(alive), r["children_after"][:4]), rp)
    if r["parallel"]:
        idx_read = [i for i, e in enumerate(ev) if e["ev"] == "read_shared"]
        idx_last = max([i for i, e in enumerate(ev) if e["ev"] in ("join", "kill")] or [-1])
        if idx_read and idx_read[0] < idx_last:
            ctx.violation("shared-list-read-before-workers-ended",
                          "%s timeout=%s: the parent read the shared list at event %d, before the last kill/join at event %d"
                          % (name, T, idx_read[0], idx_last), rp)
    return True


# ------------------------------------------------------------------ main campaign
def campaign(ctx, ks):
    plan = []   # (name, job)
    gen = 12
    for name, spec in ks.items():
        hard = name in ("long_LCD", "fib60")
        medium = name.startswith("medium")
        if not hard:
            plan.append((name, {"spec": spec, "timeout": -1, "threshold": 10 ** 6, "role": "full-seq"}))
            plan.append((name, {"spec": spec, "timeout": -1, "role": "untimed"}))
        touts = [0, 1, 2] if hard else ([1] if medium else [0, 1, 2, gen])
        if ctx.tier == "quick" and name == "fib60":
            touts = [1]
        if name == "long_LCD":   # a longer timeout: a poll interval that grows with the elapsed time only shows here
            touts = touts + ([6] if ctx.tier == "quick" else [3, 6, 11])
        for T in touts:
            plan.append((name, {"spec": spec, "timeout": T, "role": "timed"}))
        if medium:   # two workers: the search takes about half the sequential time, a 1 s timeout strikes in the middle
            for T in [0, 1, gen]:
                plan.append((name, {"spec": spec, "timeout": T, "W": 2, "role": "timed"}))
            plan.append((name, {"spec": spec, "timeout": 1, "W": 1, "role": "timed"}))
        if not hard and not medium:
            plan.append((name, {"spec": spec, "timeout": 1, "W": 3, "role": "timed"}))
            plan.append((name, {"spec": spec, "timeout": 2, "W": len(spec["text"].strip().split("\n")) + 3, "role": "timed"}))
    # each job in its own driver process (clean process table, hard limit)
    t0 = time.time()
    results = c16.run_batches(ctx, [[dict(j, want_paths=True, report=True)] for _, j in plan], timeout=240, jobs=4)
    ctx.log("ran %d instrumented searches in %.1fs" % (len(plan), time.time() - t0))
    full, tpcp, fullpaths = {}, {}, {}
    for (name, job), res in zip(plan, results):
        r = res[0]
        if job["role"] == "full-seq":
            if "error" in r:
                ctx.obligation("untimed sequential reference of %s" % name, "harness", False, r.get("trace", r["error"]))
                continue
            full[name] = r["lcd"]
            tpcp[name] = (r.get("tp"), r.get("cp"))
            fullpaths[name] = (r["paths"], r["offset"], r["lat_exact"])
    shards, smeta = [], []
    traces = []
    hist = {}
    for (name, job), res in zip(plan, results):
        r = res[0]
        if job["role"] == "full-seq":
            continue
        ok = check_run(ctx, name, ks[name], job, r, full.get(name), tpcp.get(name))
        if not ok:
            continue
        c19_tie.note_parallel(name, job, r)      # replayed through the regenerated control flow (c19_tie.run)
        nk = sum(1 for e in r["events"] if e["ev"] == "kill")
        key = "T=%s %s" % (job["timeout"], "cut" if nk else ("flag" if r["timed_out"] else "complete"))
        hist[key] = hist.get(key, 0) + 1
        ctx.sample({"kernel": name, "lines": r["klen"], "timeout": job["timeout"], "wall_s": round(r["wall"], 2), "timed_out": r["timed_out"],
                    "workers_killed": nk, "paths_delivered": r.get("n_paths"), "lcds": len(r["lcd"])}, limit=12)
        if r["parallel"]:
            traces.append((name, job, coq_trace_case(r, -1 if job["timeout"] == -1 else int(job["timeout"] * 10 ** 6))))
        # (a) post on the delivered list
        # Coq budget: de-duplication is quadratic in the number of distinct, long latency paths
        size = lambda ps: sum(len(p) for p in ps)
        if r.get("lat_exact") and r.get("n_paths", 0) <= 2500 and size(r["paths"]) <= 30000 and (r["timed_out"] or job["timeout"] == -1):
            body = lcd_par.COQ_PRELUDE
            body += "Definition ps : list path := %s.\n" % lcd_par.coq_paths(r["paths"])
            body += "Definition expected : list entry := %s.\n" % lcd_par.coq_expected(r["lcd"])
            checks = ["agrees %d ps expected" % r["offset"]]
            if name in fullpaths and fullpaths[name][2] and len(fullpaths[name][0]) <= 3000 and size(fullpaths[name][0]) <= 30000:
                body += "Definition allp : list path := %s.\n" % lcd_par.coq_paths(fullpaths[name][0])
                body += "Definition fulld : list entry := %s.\n" % lcd_par.coq_expected(full[name])
                # hypothesis and conclusion of partial_sound, decided on the real data
                checks.append("key_injb %d allp" % r["offset"])
                checks.append("forallb (fun p => existsb (fun q => eqb_of cmp_lp p q) allp) ps")
                checks.append("forallb (fun e => existsb (entry_eqb e) fulld) expected")
            body += 'Definition show := String.concat "" (map (fun b : bool => if b then "1" else "0") [%s]).\n' % "; ".join(checks)
            body += "Eval vm_compute in show.\n"
            shards.append(("corr_c19_post_%d" % len(shards), body))
            smeta.append((name, job, len(checks)))
    ctx.coverage["runs_by_outcome"] = hist
    if shards:
        outs = ctx.coq_eval_many(shards, timeout=600, jobs=8)
        bad = []
        for (name, job, nc), (ok, strs) in zip(smeta, outs):
            if not ok or not strs:
                bad.append("%s T=%s: coqc failed %s" % (name, job["timeout"], (strs[0] if strs else "")[-300:]))
            elif strs[0] != "1" * nc:
                bad.append("%s T=%s: [post=returned dict, key_inj(all), delivered subset of all, entries subset of full] = %s" % (name, job["timeout"], strs[0]))
        ctx.obligation("correspondence: Coq post(delivered paths) = returned dictionary; hypothesis and conclusion of partial_sound hold on the data (%d runs)"
                       % len(shards), "correspondence", not bad, "\n".join(bad))
    if traces:
        body = TRACE_PRELUDE + "Definition res : list bool := [\n %s ].\n" % ";\n ".join(t for _, _, t in traces)
        body += 'Definition show := String.concat "" (map (fun b : bool => if b then "1" else "0") res).\nEval vm_compute in show.\n'
        ok, out, dt = ctx.coq_eval("corr_c19_pollloop", body, timeout=600)
        good = ok and out and out[0] == "1" * len(traces)
        detail = "" if good else (out[0][-1500:] if not ok else "disagreeing runs: %s" % [(traces[i][0], traces[i][1]["timeout"], traces[i][1].get("W")) for i, c in enumerate(out[0]) if c != "1"])
        ctx.obligation("correspondence: Model.Timeout.run_parallel on the recorded clock/is_alive trace reproduces exit kind, poll count, "
                       "timed_out, kill flags, joins (%d runs)" % len(traces), "correspondence", good, detail)
        ctx.log("poll-loop correspondence on %d traces: %s (%.1fs)" % (len(traces), "agree" if good else "DISAGREE", dt))
    return full


# ------------------------------------------------------------------ the refuted edges, replayed on the implementation
def edges(ctx, ks, full):
    limit = 1 + OVERHEAD + 7
    # (1b) a dense kernel of EXACTLY the threshold length must take the timed (parallel) branch and return in time
    from osaca.semantics import KernelDG
    thr = int(KernelDG.INSTRUCTION_THRESHOLD)
    spec_t = {"isa": "x86", "arch": "zen2", "text": lcd_par.gen_fib_x86(thr)}
    t0 = time.time()
    res_t = c16.run_batches(ctx, [[{"spec": spec_t, "timeout": 1, "want_paths": False, "report": False}]], timeout=limit, jobs=1)[0][0]
    dt = time.time() - t0
    ctx.count()
    if "error" in res_t and "driver died or timed out" in res_t["error"]:
        ctx.violation("kernel_dg.py:check_for_loopcarried_dep:kernel-of-threshold-length-not-timed",
                      "dense kernel of exactly %d lines (the documented threshold for the timed multi-process search), --lcd-timeout 1: "
                      "still running after %.0f s" % (thr, dt), {"kind": "sequential-untimed", "spec": spec_t, "timeout": 1, "limit": limit})
    elif "error" in res_t:
        ctx.obligation("threshold-length edge run", "harness", False, res_t.get("trace", res_t["error"]))
    elif not res_t.get("timed_out"):
        ctx.log("threshold-length dense kernel returned after %.1fs without time-out flag" % res_t["wall"])
    # (2) flag without cut: the parent is descheduled (a) just before reading start_time with timeout 0,
    #     (b) during its first 0.2 s sleep with timeout 1 -- all workers finish meanwhile
    name = "gs+pad52"
    sp = ks[name]
    jobs = [{"spec": sp, "timeout": 0, "shim": {"first_time_sleep": 1.5}, "role": "timed"},
            {"spec": sp, "timeout": 1, "shim": {"first_sleep_extra": 1.5}, "role": "timed"}]
    # (c) no simulated descheduling: one worker whose hook delays add up to ~0.88 s finishes between the last poll
    #     inside a 1 s deadline (~0.8 s) and the first one beyond it (~1.0 s)
    hook = "RRZE_HPC_OSACA_VERIF_DELAY" in open(os.path.join(vlib.REPO, "osaca/semantics/kernel_dg.py")).read()
    if hook:
        nlines = len(sp["text"].strip().split("\n"))
        for seed in range(1, 2000):
            tot = sum(0.03 * _random.Random("%s/%s" % (seed, ln)).random() for ln in range(1, nlines + 1))
            if 0.85 <= tot <= 0.88:
                jobs.append({"spec": sp, "timeout": 1, "W": 1, "delay": seed, "role": "timed"})
                break
    out = c16.run_batches(ctx, [[dict(j, want_paths=True, report=True)] for j in jobs], timeout=120, jobs=1)
    for j, r in zip(jobs, [o[0] for o in out]):
        if not j.get("shim"):
            n0 = len(ctx.violations) + sum(v["count"] for v in ctx.violations)
            check_run(ctx, name, sp, j, r, full.get(name), None)
            kills = [e for e in r.get("events", []) if e["ev"] == "kill"]
            ctx.coverage["flag_without_cut_natural"] = {"delay_seed": j["delay"], "timed_out": r.get("timed_out"), "kills": len(kills),
                                                        "complete": r.get("lcd") == full.get(name), "wall": r.get("wall")}
            ctx.log("natural window run (hook seed %s, 1 worker, timeout 1): timed_out=%s kills=%d complete=%s wall=%.2f"
                    % (j["delay"], r.get("timed_out"), len(kills), r.get("lcd") == full.get(name), r.get("wall", -1)))
            continue
        if not check_run(ctx, name, sp, j, r, full.get(name), None):
            continue
        c19_tie.note_parallel(name, j, r)
        kills = [e for e in r["events"] if e["ev"] == "kill"]
        rp = {"kind": "run", "name": name, "spec": sp, "job": {k: v for k, v in j.items() if k != "spec"}}
        if r["timed_out"] and not kills and r["lcd"] == full.get(name):
            ctx.violation(K_FLAG, "%s (%d lines), timeout %s s, parent descheduled for 1.5 s %s: timed_out set (warning shown) although all %d workers had "
                          "finished, none was killed and the result is complete" % (name, r["klen"], j["timeout"],
                          "before reading start_time" if "first_time_sleep" in j["shim"] else "inside its first time.sleep(0.2)", len(r["workers"])), rp)
        else:
            ctx.log("flag edge not observed: T=%s flag=%s kills=%d complete=%s" % (j["timeout"], r["timed_out"], len(kills), r["lcd"] == full.get(name)))


# ------------------------------------------------------------------ the sequential branch (kernels below the threshold)
def run_seq(ctx, batches, timeout=240, jobs=4):
    """c16.run_batches with harness/c19_seq.py as the driver (one driver process per batch)"""
    old = c16.DRIVER
    c16.DRIVER = SEQ_DRIVER
    try:
        return c16.run_batches(ctx, batches, timeout=timeout, jobs=jobs)
    finally:
        c16.DRIVER = old


SEQ_PRELUDE = """From Coq Require Import ZArith List Bool String.
From OV Require Import Model.PyString Model.Parallel Model.Timeout.
Import ListNotations.
Open Scope Z_scope.
Fixpoint nl_eqb (a b : list nat) : bool :=
  match a, b with [], [] => true | x :: a', y :: b' => Nat.eqb x y && nl_eqb a' b' | _, _ => false end.
(* one run: the model on the recorded readings and an enumeration of N paths (named 0..N-1) must give the flag,
   the number of readings made after start_time, and the delivered list = the first k names *)
Definition seq_case (rule : seq_rule) (readings : list Z) (T : Z) (N k : nat) (flag : bool) (nread : nat) : bool :=
  let clk := fun i : nat => nth i readings (last readings 0 + 1000000000) in
  let o := run_sequential rule clk T (seq 0 N) in
  Bool.eqb (s_flag o) flag && nl_eqb (s_result o) (seq 0 k) &&
  Nat.eqb nread (match rule with
                 | SeqIgnoresTimeout => 0%nat
                 | SeqDeadlinePerPath => if T =? -1 then 0%nat else if s_flag o then s_exit o else (s_exit o - 1)%nat
                 end) &&
  negb (match s_how o with SeqOutOfFuel => true | _ => false end).
"""


def seq_small_kernels(ctx):
    """short kernels whose complete enumeration is small enough for networkx's unrestricted search (the reference)"""
    rng = ctx.rng
    out = {}
    out["fib10/8"] = {"isa": "x86", "arch": "zen2", "text": lcd_par.gen_fib_x86(10, pool=8)}
    out["fib13/9"] = {"isa": "x86", "arch": "zen2", "text": lcd_par.gen_fib_x86(13, pool=9)}
    for g in range(ctx.n(2, 6)):
        n = rng.choice([11, 12, 13, 14])
        seed = rng.randrange(10 ** 9)
        out["chain%d-s%d" % (n, seed)] = {"isa": "x86", "arch": "zen2",
                                          "text": lcd_par.gen_chain_x86(_random.Random(seed), n, rng.randrange(3, n - 2), pool=rng.choice([5, 7, n - 2]))}
    for g in range(ctx.n(2, 6)):
        n = rng.choice([10, 12, 14])
        seed = rng.randrange(10 ** 9)
        out["rand%d-s%d" % (n, seed)] = {"isa": "x86", "arch": "zen2", "text": lcd_par.gen_x86(_random.Random(seed), n, rng.choice([3, 4, 6]), 0.7)}
        seed = rng.randrange(10 ** 9)
        out["a64rand%d-s%d" % (n, seed)] = {"isa": "aarch64", "arch": "tx2", "text": lcd_par.gen_a64(_random.Random(seed), n, rng.choice([3, 4, 6]), 0.7)}
    out["kernel_x86.s"] = {"isa": "x86", "arch": "zen2", "text": c16.kernel_lines(os.path.join(vlib.REPO, "tests/test_files/kernel_x86.s"), "x86", False)}
    out["kernel_aarch64.s"] = {"isa": "aarch64", "arch": "tx2", "text": c16.kernel_lines(os.path.join(vlib.REPO, "tests/test_files/kernel_aarch64.s"), "aarch64", False)}
    return out


def check_seq_run(ctx, name, spec, job, r, ref):
    """Oracles of the property on one run of the sequential branch.  ref = the untimed run of the same kernel
    (complete dictionary, TP, CP) or None.  Returns False if the run is unusable."""
    T = job["timeout"]
    rp = {"kind": "seq", "name": name, "spec": spec, "job": {k: v for k, v in job.items() if k != "spec"}}
    ctx.count()
    if "error" in r:
        ctx.violation("timed-search-raises", "%s (sequential) timeout=%s: %s" % (name, T, r["error"]), rp)
        return False
    repaired = RULE["seq"] == "SeqDeadlinePerPath"
    yielded = sum(g[3] for g in r["gens"])
    dropped = yielded - r["n_delivered"]
    exhausted = all(g[4] for g in r["gens"])
    cut = dropped > 0 or not exhausted
    if cut or r["n_delivered"] >= 2:
        ctx.nontriv((name, T, json.dumps(job.get("clock"))))
    if r["children_after"]:
        ctx.violation("worker-left-behind", "%s (sequential) timeout=%s: children in /proc afterwards: %s" % (name, T, r["children_after"][:4]), rp)
    if not r["dag"]:
        ctx.obligation("dependency graph of %s is acyclic" % name, "harness", False, "the step bound of the restricted search relies on it")
    if dropped not in (0, 1):
        ctx.violation("sequential-search-drops-paths", "%s timeout=%s: the generators yielded %d paths, %d reached the post-processing" % (name, T, yielded, r["n_delivered"]), rp)
    # flag <=> cut
    if cut and not r["timed_out"]:
        ctx.violation("cut-without-flag", "%s (sequential, %d lines) timeout=%s: the search stopped early (%d yielded, %d kept, generators exhausted: %s) "
                      "but timed_out is not set" % (name, r["klen"], T, yielded, r["n_delivered"], exhausted), rp)
    if r["timed_out"] and not cut:
        ctx.violation("flag-without-cut-sequential", "%s (sequential) timeout=%s: timed_out set although all %d yielded paths were kept and every generator ran to its end"
                      % (name, T, yielded), rp)
    if T == -1 and (r["timed_out"] or cut):
        ctx.violation("untimed-run-cut", "%s (sequential) timeout=-1: timed_out=%s cut=%s" % (name, r["timed_out"], cut), rp)
    if "report_has_warning" in r and r["report_has_warning"] != r["timed_out"]:
        ctx.violation("warning-differs-from-flag", "%s (sequential) timeout=%s: footer warning %s, timed_out %s" % (name, T, r["report_has_warning"], r["timed_out"]), rp)
    # the delivered list is a prefix of the unrestricted enumeration, in networkx's order
    if r.get("is_prefix") is False:
        ctx.violation("sequential-result-not-prefix", "%s timeout=%s: delivered path %s is %s, the unrestricted enumeration has %s there"
                      % ((name, T) + tuple(r["first_diff"])), rp)
    if r.get("ref_is_nx") is False:
        ctx.obligation("reference enumeration of harness/c19_seq.py = networkx all_simple_paths on the unrestricted graph (%s)" % name, "harness", False, "")
    if "ref_total" in r and not r.get("ref_capped") and (r["n_delivered"] < r["ref_total"]) != r["timed_out"]:
        ctx.violation("cut-without-flag" if not r["timed_out"] else "flag-without-cut-sequential",
                      "%s (sequential) timeout=%s: %d of %d paths delivered, timed_out=%s" % (name, T, r["n_delivered"], r["ref_total"], r["timed_out"]), rp)
    # time: real clock only
    if repaired and not job.get("clock") and T is not None and T >= 0:
        if r["search_us"] is not None and r["search_us"] > T * 1e6 + STEP_US:
            ctx.violation(K_STEP, "%s (%d lines) timeout=%s s: the sequential search was left %.2f s after its start (longest distance of two clock readings %.2f s): "
                          "a generator step ran that long without yielding" % (name, r["klen"], T, r["search_us"] / 1e6, r["max_gap_us"] / 1e6), rp)
        bound = T + OVERHEAD + PER_PATH * r["n_delivered"]
        if r["wall"] > bound:
            ctx.violation("timeout-overrun", "%s (%d lines, sequential) timeout=%s s: returned after %.2f s (> timeout + %.1f s + %.1f ms/path x %d paths)"
                          % (name, r["klen"], T, r["wall"], OVERHEAD, PER_PATH * 1000, r["n_delivered"]), rp)
    # every reported entry is a genuine cycle of the graph with the right latencies (independent of any reference run)
    edges = {(a, b): float.fromhex(l) for a, b, l in r["edges"]}
    if all(isinstance(a, int) and isinstance(b, int) for a, b in edges):
        for e in r["lcd"]:
            why = c19_seq.genuine_cycle(e, edges, r["offset"])
            if why:
                ctx.violation("reported-lcd-not-a-cycle", "%s (sequential) timeout=%s: entry %s: %s" % (name, T, e[0], why), rp)
                break
    if ref is not None:
        fm = entry_map(ref["lcd"])
        wrong = [e for e in r["lcd"] if fm.get(e[0]) != e]
        if wrong:
            ctx.violation("partial-result-not-subset", "%s (sequential) timeout=%s: %d reported LCDs are not entries of the untimed result; first %s vs %s"
                          % (name, T, len(wrong), wrong[0], fm.get(wrong[0][0])), rp)
        if not r["timed_out"] and r["lcd"] != ref["lcd"]:
            ctx.violation("unflagged-result-incomplete", "%s (sequential) timeout=%s: no flag but %d entries instead of %d" % (name, T, len(r["lcd"]), len(ref["lcd"])), rp)
        if "tp" in r and "tp" in ref and (r.get("tp"), r.get("cp")) != (ref.get("tp"), ref.get("cp")):
            ctx.violation("tp-cp-changed-by-timeout", "%s (sequential) timeout=%s: TP/CP %s differ from the untimed run %s"
                          % (name, T, (r.get("tp"), r.get("cp")), (ref.get("tp"), ref.get("cp"))), rp)
    return True


def seq_model_case(r, T):
    """Coq term: Model.Timeout.run_sequential under the rule of the source reproduces this run"""
    T_us = -1 if T == -1 else int(round(T * 10 ** 6))
    reads = r["readings"] if r["readings"] else [0]
    return "seq_case %s [%s] (%d) %d %d %s %d" % (RULE["seq"], "; ".join(str(x) for x in reads), T_us, r["ref_total"], r["n_delivered"],
                                                   "true" if r["timed_out"] else "false", max(0, r["n_readings"] - 1))


def seq_small(ctx):
    """Tie of the sequential state machine + oracles, on kernels whose complete enumeration is known."""
    ks = seq_small_kernels(ctx)
    names = list(ks)
    t0 = time.time()
    first = run_seq(ctx, [[{"spec": ks[n], "timeout": -1, "want": "small", "report": True}] for n in names], timeout=200, jobs=8)
    refs = {}
    for n, res in zip(names, first):
        r = res[0]
        job = {"timeout": -1, "want": "small", "report": True}
        if "error" in r:
            if "driver died" in r["error"]:
                ctx.log("small sequential kernel %s: untimed reference not finished in 200 s, skipped" % n)
            else:
                ctx.obligation("untimed sequential reference of %s" % n, "harness", False, r.get("trace", r["error"]))
            continue
        if check_seq_run(ctx, n, ks[n], job, r, None) and not r["timed_out"] and r["ref_total"] <= 3000:
            refs[n] = r
    # synthetic clocks: reading i = start + i * d microseconds; the cut lands on path k = first i with i * d > T
    rng = ctx.rng
    plan = []
    for n in refs:
        N = refs[n]["ref_total"]
        cuts = sorted(c for c in {1, 2, N, N + 1, max(1, N // 2), rng.randrange(1, N + 3), rng.randrange(1, N + 3)} if c >= 1)[:ctx.n(5, 7)]
        for k in cuts:
            T = rng.choice([1, 2, 1, 0.5])
            d = int(T * 10 ** 6 // k) + 1
            plan.append((n, {"timeout": T, "clock": {"synthetic_us": d}, "want": "small", "report": True}))
        plan.append((n, {"timeout": 0, "clock": {"synthetic_us": 1}, "want": "small", "report": True}))       # cut at the first path
        plan.append((n, {"timeout": 0, "clock": {"synthetic_us": 0}, "want": "small", "report": True}))       # clock stands still: 0 > 0 is false
        plan.append((n, {"timeout": 12, "clock": {"synthetic_us": 3}, "want": "small", "report": True}))      # generous
        plan.append((n, {"timeout": -1, "clock": {"synthetic_us": 10 ** 6}, "want": "small", "report": True}))
    by = {}
    for n, j in plan:
        by.setdefault(n, []).append(j)
    res = run_seq(ctx, [[dict(j, spec=ks[n]) for j in js] for n, js in by.items()], timeout=240, jobs=8)
    cases, meta, shards, smeta = [], [], [], []
    hist = {}
    for (n, js), rs in zip(by.items(), res):
        for j, r in zip(js, rs):
            if not check_seq_run(ctx, n, ks[n], j, r, refs[n]):
                continue
            c19_tie.note_sequential(n, j, r)
            key = "%s" % ("cut" if r["timed_out"] else "complete")
            hist[key] = hist.get(key, 0) + 1
            ctx.sample({"kernel": n, "lines": r["klen"], "branch": "sequential", "timeout": j["timeout"], "clock_us_per_reading": j["clock"]["synthetic_us"],
                        "timed_out": r["timed_out"], "paths_delivered": r["n_delivered"], "paths_total": r["ref_total"], "lcds": len(r["lcd"])}, limit=16)
            cases.append(seq_model_case(r, j["timeout"]))
            meta.append((n, j))
            if r.get("lat_exact") and (r["timed_out"] or j["timeout"] == -1) and len(shards) < ctx.n(10, 30):
                body = lcd_par.COQ_PRELUDE
                body += "Definition ps : list path := %s.\n" % lcd_par.coq_paths(r["paths"])
                body += "Definition expected : list entry := %s.\n" % lcd_par.coq_expected(r["lcd"])
                body += "Definition allp : list path := %s.\n" % lcd_par.coq_paths(r["all_paths"])
                body += "Definition fulld : list entry := %s.\n" % lcd_par.coq_expected(refs[n]["lcd"])
                checks = ["agrees %d ps expected" % r["offset"], "key_injb %d allp" % r["offset"],
                          "forallb (fun p => existsb (fun q => eqb_of cmp_lp p q) allp) ps",
                          "forallb (fun e => existsb (entry_eqb e) fulld) expected"]
                body += 'Definition show := String.concat "" (map (fun b : bool => if b then "1" else "0") [%s]).\n' % "; ".join(checks)
                body += "Eval vm_compute in show.\n"
                shards.append(("corr_c19_seqpost_%d" % len(shards), body))
                smeta.append((n, j))
    ctx.coverage["sequential_small"] = {"kernels": {n: refs[n]["ref_total"] for n in refs}, "runs_by_outcome": hist, "rule": RULE["seq"]}
    ctx.log("sequential branch: %d small kernels, %d synthetic-clock runs in %.1fs (%s)" % (len(refs), len(cases), time.time() - t0, hist))
    if cases:
        body = SEQ_PRELUDE + "Definition res : list bool := [\n %s ].\n" % ";\n ".join(cases)
        body += 'Definition show := String.concat "" (map (fun b : bool => if b then "1" else "0") res).\nEval vm_compute in show.\n'
        ok, out, dt = ctx.coq_eval("corr_c19_sequential", body, timeout=600)
        good = ok and out and out[0] == "1" * len(cases)
        detail = "" if good else (out[0][-1500:] if not ok else "disagreeing runs: %s" % [(meta[i][0], meta[i][1]["timeout"], meta[i][1]["clock"]) for i, c in enumerate(out[0]) if c != "1"][:10])
        ctx.obligation("correspondence: Model.Timeout.run_sequential %s on the recorded clock readings reproduces timed_out, the number of readings and "
                       "the delivered list (= that prefix of networkx's unrestricted enumeration) (%d runs)" % (RULE["seq"], len(cases)), "correspondence", good, detail)
        ctx.log("sequential correspondence on %d runs: %s (%.1fs)" % (len(cases), "agree" if good else "DISAGREE", dt))
    if shards:
        outs = ctx.coq_eval_many(shards, timeout=600, jobs=8)
        bad = []
        for (n, j), (ok, strs) in zip(smeta, outs):
            if not ok or not strs:
                bad.append("%s T=%s: coqc failed %s" % (n, j["timeout"], (strs[0] if strs else "")[-300:]))
            elif strs[0] != "1111":
                bad.append("%s T=%s: [post=returned dict, key_inj(all), delivered subset of all, entries subset of full] = %s" % (n, j["timeout"], strs[0]))
        ctx.obligation("correspondence (sequential): Coq post(delivered prefix) = returned dictionary; hypothesis and conclusion of sequential_result_sound "
                       "hold on the data (%d runs)" % len(shards), "correspondence", not bad, "\n".join(bad))


def seq_real(ctx):
    """The sequential branch in real time."""
    repaired = RULE["seq"] == "SeqDeadlinePerPath"
    rng = ctx.rng
    limit = 1 + OVERHEAD + 7
    fib40 = {"isa": "x86", "arch": "zen2", "text": lcd_par.gen_fib_x86(40)}
    if not repaired:
        # the code as shipped: the 40-line witness of the known finding
        t0 = time.time()
        res = run_seq(ctx, [[{"spec": fib40, "timeout": 1, "want": "none"}]], timeout=limit, jobs=1)[0][0]
        dt = time.time() - t0
        ctx.count()
        rp = {"kind": "seq", "name": "fib40", "spec": fib40, "job": {"timeout": 1, "want": "none"}, "limit": limit}
        if "error" in res and "driver died or timed out" in res["error"]:
            ctx.violation(K_SEQ, "40-line kernel (vaddpd chain reading the two previous results), --lcd-timeout 1: the search was still running after %.0f s "
                          "(sequential branch for < 50 lines never looks at the timeout); the same chain padded to 50 lines returns in time" % dt, rp)
        elif "error" in res:
            ctx.obligation("sequential edge run", "harness", False, res.get("trace", res["error"]))
        else:
            ctx.log("sequential edge: 40-line dense kernel returned after %.1fs, timed_out=%s (edge not observed)" % (res["wall"], res["timed_out"]))
        return
    # the repaired code: dense kernels of 20-49 lines, timeout 1 s
    big = {"fib40": fib40,
           "fib49": {"isa": "x86", "arch": "zen2", "text": lcd_par.gen_fib_x86(49)},
           "deadend40": {"isa": "x86", "arch": "zen2", "text": c19_seq.gen_deadend_x86(40)},
           # an instruction WITH a genuine loop-carried dependency (addq $1,%rcx) that also feeds an exponentially branching region which
           # never returns to it: a search that first asks "is there a path at all?" and then walks everything in front of the target
           "rootfed49": {"isa": "x86", "arch": "zen2", "text": "addq $1, %rcx\nmovq %rcx, %rax\n" + "movq %rax, %rbx\naddq %rbx, %rax\n" * 22
                                                               + "cmpq %rdx, %rcx\njne .L1\n"}}
    n = rng.choice([30, 36, 44, 48])
    seed = rng.randrange(10 ** 9)
    big["chain%d-s%d" % (n, seed)] = {"isa": "x86", "arch": "zen2", "text": lcd_par.gen_chain_x86(_random.Random(seed), n, n - 4, pool=rng.choice([9, 14]))}
    for g in range(ctx.n(1, 4)):
        n = rng.choice([20, 26, 33, 41, 49])
        seed = rng.randrange(10 ** 9)
        big["rand%d-s%d" % (n, seed)] = {"isa": "x86", "arch": "zen2", "text": lcd_par.gen_x86(_random.Random(seed), n, rng.choice([3, 4, 5]), 0.8)}
    plan = [(k, {"timeout": 1, "want": "none", "report": True}) for k in big]
    if ctx.tier == "thorough":
        plan += [("fib49", {"timeout": 2, "want": "none", "report": True}), ("fib40", {"timeout": 0, "want": "none", "report": True})]
    # a smaller instance with a complete reference: cut in real time, generous, untimed
    med = {"fib20": {"isa": "x86", "arch": "zen2", "text": lcd_par.gen_fib_x86(20)},
           "fib17/9": {"isa": "x86", "arch": "zen2", "text": lcd_par.gen_fib_x86(17, pool=9)}}
    big.update(med)
    for k in med:
        plan.append((k, {"timeout": -1, "want": "medium", "report": True, "role": "ref"}))
        for T in [0.02, 0.05, 0.1, 12, 0]:
            plan.append((k, {"timeout": T, "want": "medium", "report": True}))
    t0 = time.time()
    res = run_seq(ctx, [[dict(j, spec=big[k])] for k, j in plan], timeout=limit + 20, jobs=4)
    ctx.log("sequential branch in real time: %d runs in %.1fs" % (len(plan), time.time() - t0))
    refs = {}
    for (k, j), rs in zip(plan, res):
        if j.get("role") == "ref" and "error" not in rs[0]:
            refs[k] = rs[0]
    hist = {}
    for (k, j), rs in zip(plan, res):
        r = rs[0]
        rp = {"kind": "seq", "name": k, "spec": big[k], "job": j, "limit": limit + 20}
        if "error" in r and "driver died or timed out" in r["error"]:
            ctx.count()
            ctx.violation(K_STEP, "%s (%d lines), --lcd-timeout %s: the repaired sequential search was still running after %.0f s: a step of the path generator "
                          "runs that long without yielding a path" % (k, len(big[k]["text"].strip().split("\n")), j["timeout"], limit + 20), rp)
            continue
        if not check_seq_run(ctx, k, big[k], j, r, refs.get(k)):
            continue
        key = "T=%s %s" % (j["timeout"], "cut" if r["timed_out"] else "complete")
        hist[key] = hist.get(key, 0) + 1
        ctx.sample({"kernel": k, "lines": r["klen"], "branch": "sequential", "timeout": j["timeout"], "wall_s": round(r["wall"], 2),
                    "search_s": None if r["search_us"] is None else round(r["search_us"] / 1e6, 3), "longest_step_s": round(r["max_gap_us"] / 1e6, 4),
                    "timed_out": r["timed_out"], "paths_delivered": r["n_delivered"], "lcds": len(r["lcd"])}, limit=30)
        if j["timeout"] == 1 and k.startswith("fib4") and not r["timed_out"]:
            ctx.obligation("the dense kernel %s does not finish within 1 s (the run exercises the cut)" % k, "harness", False, "it returned complete after %.2f s" % r["wall"])
    ctx.coverage["sequential_real_time"] = hist


# ------------------------------------------------------------------ CLI: the warning follows the flag
def cli(ctx, ks, cases=None):
    c16.setup_home_data(ctx)
    d = os.path.join(ctx.scratch, "cli")
    os.makedirs(d, exist_ok=True)
    cases = cases or [("long_LCD", 1, True), ("gs+pad52", 10, False), ("gs+pad52", -1, False)]
    for name, T, expect in cases:
        path = os.path.join(d, name.replace("+", "_") + ".s")
        with open(path, "w") as f:
            f.write(ks[name]["text"])
        env = vlib.repo_env(home=ctx.home)
        t0 = time.time()
        rc, out = vlib.sh([vlib.PY, "-c", c16.CLI, "0", "--arch", "zen2", "--lcd-timeout", str(T), "--ignore-unknown", path], timeout=120, env=env, cwd=ctx.scratch)
        dt = time.time() - t0
        ctx.count()
        rp = {"kind": "cli", "name": name, "spec": ks[name], "timeout": T, "expect_warning": expect}
        if rc != 0 or "Loop-Carried Dependencies" not in out:
            ctx.violation("cli-fails-with-timeout", "%s --lcd-timeout %s: exit %s: %s" % (name, T, rc, out[-300:]), rp)
            continue
        has = "WARNING: LCD analysis timed out" in out
        if has != expect:
            ctx.violation("cli-warning-wrong", "%s --lcd-timeout %s (%.1f s): warning %s although the search %s"
                          % (name, T, dt, "shown" if has else "missing", "was cut short (it cannot finish)" if expect else "ran to completion"), rp)
        kids = lcd_par.children_of(os.getpid())
        kids = [k for k in kids if k["comm"].startswith("python")]
        if kids:
            ctx.violation("worker-left-behind", "after the CLI run on %s: %s" % (name, kids), rp)


def run(ctx):
    ctx.trusted += ["Model/Timeout.v: hand-written state machine of the poll loop, tied by replaying recorded clock/is_alive traces of real runs "
                    "AND (since the translator tie of the control flow) proved equal to the code regenerated from the current source in the "
                    "world Model/ProcCtl.toracle",
                    "Model/Parallel.v post (see C16)",
                    "runtime residue (observed, not proved): wall-clock bounds, SIGKILL delivery and reaping, atomicity of ListProxy.extend "
                    "when the sender is killed, /proc as the process table"]
    ctx.trusted += ["Model/Timeout.v run_sequential: hand-written state machine of the sequential loop, tied by replaying runs with a synthetic clock "
                    "against networkx's unrestricted enumeration; Deps.paths as the model of all_simple_paths (C05) for restricted_search_same_paths"]
    ctx.assumptions += ["sequential branch: StepsWithin (every resumption of the path generator takes at most dmax) is not proved; the longest distance of two "
                        "clock readings is measured on every real-time run and must stay below %.1f s" % (STEP_US / 1e6)]
    ctx.assumptions += ["is_alive() observed at the instant of the preceding clock reading (the model has one timestamp per poll)",
                        "key_inj (no two different latency paths over the same lines) -- decided on every complete path list of the run",
                        "overhead bound used by the wall-time oracle: %.1f s + %.1f ms per delivered path" % (OVERHEAD, PER_PATH * 1000)]
    ctx.ensure_static()
    ctx.compile_theorems("Props/C19.v")
    rule = flag_rule_in_source()
    ctx.coverage["flag_rule_in_source"] = rule
    ctx.obligation("the flag rule of the `while ... else:` branch is recognised in the current source (FlagOnExhaustion / FlagOnKill)",
                   "translation", rule is not None,
                   "" if rule else "self.timed_out = True is neither the branch's own statement nor inside `if p.is_alive():` of the kill loop")
    RULE["v"] = rule or "FlagOnExhaustion"
    srule = seq_rule_in_source()
    ctx.coverage["seq_rule_in_source"] = srule
    ctx.obligation("the sequential branch (kernels below the threshold) is recognised in the current source (SeqIgnoresTimeout / SeqDeadlinePerPath)",
                   "translation", srule is not None,
                   "" if srule else "neither `all_paths.extend(generator)` without any reference to the timeout, nor one loop `if <deadline test>: "
                   "self.timed_out = True; break` + `all_paths.append(path)`")
    RULE["seq"] = srule or "SeqIgnoresTimeout"
    ctx.log("sequential rule in source: %s (theorems that apply: %s)" % (srule, "sequential_result_is_prefix, sequential_flag_iff_cut, "
            "sequential_time_bounded, sequential_complete_when_*" if srule == "SeqDeadlinePerPath" else "sequential_shipped_ignores_clock; "
            "sequential_untimed_refuted is observable"))
    ctx.log("flag rule in source: %s (theorems that apply: %s)" % (rule, "flag_iff_some_worker_killed, no_flag_means_complete, "
            "every_worker_finished_no_flag" if rule == "FlagOnKill" else "flag_iff_loop_exhausted; flag_without_cut_*_refuted are observable"))
    ks = kernels(ctx)
    ctx.coverage["kernels"] = {n: len(s["text"].strip().split("\n")) for n, s in ks.items()}
    full = campaign(ctx, ks)
    seq_small(ctx)
    seq_real(ctx)
    edges(ctx, ks, full)
    # translator tie for the control flow: regenerate it from the current source, re-check PropsGen/C19gen.v against it, replay the recorded runs
    # (one theorem file per branch + one for the whole search: a change in one branch leaves the theorems about the other standing)
    c19_tie.run(ctx, ["PropsGen/C19gen.v", "PropsGen/C19genSeq.v", "PropsGen/C19genAll.v"], "C19", sequential=True)
    cases = [("long_LCD", 1, True), ("gs+pad52", 10, False), ("gs+pad52", -1, False)]
    if RULE["seq"] == "SeqDeadlinePerPath":     # the CLI on the sequential branch: cut -> warning, in time -> none
        ks = dict(ks, fib40={"isa": "x86", "arch": "zen2", "text": lcd_par.gen_fib_x86(40)}, fib20={"isa": "x86", "arch": "zen2", "text": lcd_par.gen_fib_x86(20)})
        cases += [("fib40", 1, True), ("fib20", 10, False)]
    cli(ctx, ks, cases)


def replay(ctx, obj):
    r = obj["replay"]
    if r.get("kind") == "sequential-untimed":
        t0 = time.time()
        res = c16.run_batches(ctx, [[{"spec": r["spec"], "timeout": r["timeout"], "want_paths": False, "report": False}]], timeout=r["limit"], jobs=1)[0][0]
        ctx.count()
        ctx.log("replay: %.1fs, %s" % (time.time() - t0, res.get("error", "returned")))
        if "error" in res:
            ctx.violation(obj["key"], obj["what"], r)
        return
    if r.get("kind") == "cli":
        cli(ctx, {r["name"]: r["spec"]}, [(r["name"], r["timeout"], r["expect_warning"])])
        return
    if r.get("kind") == "seq":
        RULE["seq"] = seq_rule_in_source() or "SeqIgnoresTimeout"
        job = dict(r["job"])
        job.pop("role", None)
        ref = None
        if job.get("want") in ("small", "medium"):
            ref = run_seq(ctx, [[{"spec": r["spec"], "timeout": -1, "want": "none", "report": True}]], timeout=120, jobs=1)[0][0]
            ref = None if "error" in ref else ref
        t0 = time.time()
        res = run_seq(ctx, [[dict(job, spec=r["spec"])]], timeout=r.get("limit", 120), jobs=1)[0][0]
        ctx.log("replay (sequential): %.1fs, %s" % (time.time() - t0, res.get("error", "returned, timed_out=%s wall=%s" % (res.get("timed_out"), res.get("wall")))))
        if "error" in res and "driver died or timed out" in res["error"]:
            ctx.count()
            ctx.violation(obj["key"], obj["what"], r)
            return
        check_seq_run(ctx, r.get("name", "replay"), r["spec"], job, res, ref)
        return
    spec, job = r["spec"], dict(r["job"])
    full = None
    jobs = [[dict(job, spec=spec, want_paths=True, report=True)]]
    ref = c16.run_batches(ctx, [[{"spec": spec, "timeout": -1, "threshold": 10 ** 6, "want_paths": False}]], timeout=40, jobs=1)[0][0]
    tp = None
    if "error" not in ref:
        full, tp = ref["lcd"], (ref.get("tp"), ref.get("cp"))
    res = c16.run_batches(ctx, jobs, timeout=240, jobs=1)[0][0]
    before = len(ctx.violations)
    check_run(ctx, r.get("name", "replay"), spec, job, res, full, tp)
    if job.get("shim") and "error" not in res and res["timed_out"] and not [e for e in res["events"] if e["ev"] == "kill"]:
        ctx.violation(obj["key"], obj["what"], r)
    ctx.log("replay: timed_out=%s wall=%s violations=%d" % (res.get("timed_out"), res.get("wall"), len(ctx.violations) - before))
