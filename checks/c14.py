"""C14 -- loop-carried dependencies are invariant under rotation of the loop body.
Theorems: Props/C14.v -- the scan is prefix-determined; the dependency graph of the doubled rotated kernel is a window of the
periodic stream's edge relation; the cross-iteration paths, the entries before de-duplication (equal sums, same members) and the
reported entries of `rotate r k` and of the unrotated kernel correspond (any numeric instance); for exact rationals the reported
sums and the LCD figure are equal.  Props/C05.v -- the reported set is the de-duplicated image of all such paths.
X: LCD correspondence (Model/Deps.lcd_entries = implementation) + exhaustive-rotation metamorphic oracle on the implementation.
Residue (not a theorem): under floats the kept representative of a cycle may add the same weights in a different order."""
import depcheck
import deps

FINISH = dict(level="proof",
              rule="every rotation offset of generated kernels (register and memory dependencies, write-back addressing) on synthetic "
                   "databases and of shipped example/test kernels on shipped models of their ISA; non-trivial = kernel with >= 1 LCD")


def running_sum(rng, isa):
    D = rng.choice([0, 8, 16, -8])
    K = rng.choice([8, 16, 4])
    if isa == "x86":
        B, V = rng.sample(["rbx", "rax", "rcx", "rdi"], 2)
        cell = "%d(%%%s)" % (D, B) if D else "(%%%s)" % B
        st = rng.choice(["addq %%%s, %s", "addq %%%s, %s", "subq %%%s, %s", "movq %%%s, %s"]) % (V, cell)
        ld = "movq %s, %%%s" % (cell, V)
        bump = rng.choice(["addq $%d, %%%s" % (K, B), "subq $%d, %%%s" % (K, B), "incq %%%s" % B, "leaq %d(%%%s), %%%s" % (K, B, B)])
        fill = ["cmpq %rdx, %" + B, "jne .L1", "addq %rsi, %r9", "imulq %r8, %r8"]
    else:
        B, V = rng.sample(["x1", "x2", "x3", "x4"], 2)
        cell = "[%s, #%d]" % (B, D) if D else "[%s]" % B
        st = "str %s, %s" % (V, cell)
        ld = "ldr %s, %s" % (V, cell)
        bump = rng.choice(["add %s, %s, #%d" % (B, B, K), "sub %s, %s, #%d" % (B, B, K)])
        fill = ["cmp x9, " + B, "b.ne .L1", "add x12, x12, x13", "mul x14, x14, x14"]
    body = [st, ld] if rng.random() < 0.8 else [ld, st]
    if rng.random() < 0.85:
        body.insert(rng.choice([0, 1, 2, 2, 2]), bump)
    if rng.random() < 0.4:
        body.insert(body.index(ld) + 1, ("addq %%rsi, %%%s" % V) if isa == "x86" else "add %s, %s, x12" % (V, V))
    for f in rng.sample(fill, rng.choice([0, 1, 2, 2])):
        body.append(f)
    return "\n".join(body) + "\n"


def long_body(rng, isa):
    """50-58 lines: a few registers are written by exactly one line (single-instruction loop-carried cycles), the others by several.
    returns (text, indices of the single-instruction cycles)"""
    n = rng.randrange(50, 59)
    if isa == "x86":
        once = ["%r8", "%r9", "%r10", "%r11"]
        many = ["%rax", "%rbx", "%rcx", "%rdx", "%rsi", "%rdi"]
        mk1 = lambda r: rng.choice(["addq $8, %s", "subq $1, %s", "incq %s"]) % r                       # noqa
        mk2 = lambda a, b: rng.choice(["addq %s, %s", "imulq %s, %s", "movq %s, %s"]) % (a, b)          # noqa
        vec = lambda: "vaddpd %%ymm%d, %%ymm%d, %%ymm%d" % (rng.randrange(8), rng.randrange(8), rng.randrange(8))   # noqa
    else:
        once = ["x19", "x20", "x21", "x22"]
        many = ["x1", "x2", "x3", "x4", "x5", "x6"]
        mk1 = lambda r: rng.choice(["add {0}, {0}, #8", "sub {0}, {0}, #1"]).format(r)                  # noqa
        mk2 = lambda a, b: rng.choice(["add {1}, {1}, {0}", "mul {1}, {1}, {0}", "mov {1}, {0}"]).format(a, b)   # noqa
        vec = lambda: "fadd d%d, d%d, d%d" % (rng.randrange(8), rng.randrange(8), rng.randrange(8))     # noqa
    body = []
    for _ in range(n - len(once)):
        body.append(vec() if rng.random() < 0.45 else (mk2(*rng.sample(many, 2)) if rng.random() < 0.7 else mk1(rng.choice(many))))
    singles = []
    for r in once:
        body.insert(rng.randrange(len(body) + 1), mk1(r))
    singles = [i for i, l in enumerate(body) if any(r in l for r in once)]
    return "\n".join(body) + "\n", singles


def run(ctx):
    depcheck.prepare(ctx, "Props/C14.v")
    ctx.compile_theorems("Props/C05.v")
    ctx.assumptions += ["rotation = re-numbering the rotated line list 1..n (what OSACA sees for a kernel-only file); the theorem's latency equality "
                        "is exact for rationals, for floats the summation order of one cycle may differ (compared with 1e-9 by the oracle)"]
    cases = []
    for case, kernel, dg, isa, gl, pipe in depcheck.synthetic(ctx, ctx.n(60, 800), maxlen=9):
        if case["lcd"]:
            ctx.nontriv((case["text"], case["db"]["isa_yaml"]))
        n = depcheck.rotation_oracle(ctx, pipe, case["text"], case["flagdeps"], isa, "synthetic kernel")
        for v in ctx.violations:
            if v["key"] == "lcd-changes-under-rotation" and not v["known"]:
                pass
        if len(cases) < 2:
            ctx.sample({"kernel": case["text"], "rotations_checked": n, "lcd": case["lcd"]})
        cases.append(case)
    depcheck.run_shards(ctx, cases, "synthetic")
    # generated store / pointer-bump / load kernels on the REAL ISA databases (tracked register changes, read-modify-write
    # stores, flags): memory dependencies whose bookkeeping must not depend on where the loop is cut
    import c06
    import models as _models
    avail = _models.nonempty_archs()
    memcases = []
    for i in range(ctx.n(50, 600)):
        isa = ctx.rng.choice(["x86", "aarch64"])
        arch = [m for m in (c06.X86_MODELS if isa == "x86" else c06.A64_MODELS) if m in avail][0]
        pipe = deps.Pipeline(ctx, isa, arch=arch)
        text, info = c06.gen(ctx.rng, isa)
        # close the loop: a reload feeding the stored value makes the store/load pair part of a cycle
        text += ("addq %rsi, %rdx\n" if isa == "x86" else "add x9, x9, x12\n")
        try:
            n = depcheck.rotation_oracle(ctx, pipe, text, ctx.rng.random() < 0.3, isa, "generated memory kernel on " + arch)
            case, kernel, dg = deps.build_case(pipe, text, False)
            case["origin"] = "generated memory kernel on " + arch
            memcases.append(case)
            if case["lcd"]:
                ctx.nontriv(text)
        except Exception as e:  # noqa
            ctx.coverage.setdefault("memory_kernel_errors", []).append(repr(e)[:200])
    # running-sum kernels: a (read-modify-write) store, a reload of the same cell that feeds the store again, and a
    # pointer bump somewhere in the body -- the store/load pair lies ON a loop-carried cycle, so losing or inventing the
    # store-to-load edge at one cut changes the LCD figure itself
    for i in range(ctx.n(24, 240)):
        isa = "x86" if i % 3 else "aarch64"
        arch = [m for m in (c06.X86_MODELS if isa == "x86" else c06.A64_MODELS) if m in avail][0]
        pipe = deps.Pipeline(ctx, isa, arch=arch)
        text = running_sum(ctx.rng, isa)
        try:
            depcheck.rotation_oracle(ctx, pipe, text, ctx.rng.random() < 0.3, isa, "running-sum kernel on " + arch)
            case, kernel, dg = deps.build_case(pipe, text, False)
            case["origin"] = "running-sum kernel on " + arch
            memcases.append(case)
            if case["lcd"]:
                ctx.nontriv(text)
        except Exception as e:  # noqa
            ctx.coverage.setdefault("memory_kernel_errors", []).append(repr(e)[:200])
    depcheck.run_shards(ctx, memcases, "memory", size=10)
    # bodies of 50 and more lines take the PARALLEL path search: the rotations that put each single-instruction cycle last,
    # first and at a section border must report the same cycles
    for i in range(ctx.n(2, 10)):
        isa = "x86" if i % 2 == 0 else "aarch64"
        arch = [m for m in (c06.X86_MODELS if isa == "x86" else c06.A64_MODELS) if m in avail][0]
        pipe = deps.Pipeline(ctx, isa, arch=arch)
        text, singles = long_body(ctx.rng, isa)
        n = len(text.strip().split("\n"))
        rots = sorted(set([(j + 1) % n for j in singles] + [j % n for j in singles] + [ctx.rng.randrange(1, n)]))
        try:
            k = depcheck.rotation_oracle(ctx, pipe, text, False, isa, "long body (%d lines, parallel search) on %s" % (n, arch), rots=rots)
            ctx.nontriv(text)
            ctx.coverage["long_body_rotations"] = ctx.coverage.get("long_body_rotations", 0) + k
        except Exception as e:  # noqa
            ctx.coverage.setdefault("memory_kernel_errors", []).append(repr(e)[:200])
    # twin forms: one mnemonic in two addressing forms that the model costs differently (unit-stride vs gather SVE loads on a64fx,
    # numeric vs symbolic displacement): which entry a line gets must not depend on which line of the body is looked up first.
    # Every rotation is analysed on NEW model objects, as every command line run is.
    twins = [("aarch64", "a64fx", ["ld1d {z2.d}, p0/z, [x1, x4, lsl #3]", "ld1d {z1.d}, p0/z, [x0, z1.d, lsl #3]", "ld1d {z4.d}, p0/z, [x2, z1.d, lsl #3]",
                                   "fmla z3.d, p0/m, z2.d, z4.d", "incd x4", "whilelo p0.d, x4, x5", "b.first .L4"]),
             ("aarch64", "a64fx", ["ld1w {z1.s}, p0/z, [x0, z1.s, uxtw #2]", "ld1w {z2.s}, p0/z, [x1, x4, lsl #2]", "fadd z3.s, z3.s, z2.s", "incw x4", "b.first .L4"]),
             ("x86", "zen3", ["vmovsd (%rax,%rbx,8), %xmm1", "vaddsd %xmm1, %xmm0, %xmm0", "vmovsd tab(,%rbx,8), %xmm2", "vaddsd %xmm2, %xmm0, %xmm0", "addq $1, %rbx"]),
             ("x86", "zen3", ["movq (,%rcx,8), %rcx", "movq 8(%rax,%rcx,8), %rdx", "addq %rdx, %rsi", "addq $8, %rax"]),
             # one mnemonic matched by a specific form AND by a more general fallback with other data (m1/v2: ldr *,[x,imd] before ldr *,[x,*,*,*];
             # a72: ldr q scale 1 before scale *): the first form in FILE order applies, whichever line of the body is looked up first
             ("aarch64", "m1", ["ldr x1, [x1]", "ldr x5, [x2, x4, lsl #3]", "add x4, x4, x5", "add x6, x6, x1", "cmp x4, x7"]),
             ("aarch64", "v2", ["ldr x5, [x2, x4, lsl #3]", "ldr x1, [x1, #8]", "add x6, x6, x5", "subs x7, x7, #1"]),
             ("aarch64", "a72", ["ldr q0, [x1, x2, lsl #4]", "ldr q1, [x3, x4]", "fadd v2.2d, v0.2d, v1.2d", "str q2, [x3, x4]", "add x2, x2, #1"]),
             # a second address register DERIVED from the store's base before the store, the reload goes through the derived register and the
             # base is re-assigned from it: whether the store->load edge exists must not depend on where the body is cut
             ("aarch64", "a64fx", ["add x3, x1, #8", "ldr d1, [x2], #8", "fmadd d3, d0, d2, d1", "str d3, [x1, #8]", "ldr d0, [x3]", "mov x1, x3", "cmp x1, x5", "b.ne .L4"]),
             ("aarch64", "n1", ["mov x3, x1", "str d3, [x1]", "ldr d0, [x3]", "fadd d3, d0, d1", "add x1, x1, #8"]),
             ("x86", "zen2", ["movq %rax, %rbx", "vmovsd %xmm3, 8(%rax)", "vmovsd 8(%rbx), %xmm0", "vaddsd %xmm0, %xmm1, %xmm3", "addq $8, %rax"]),
             ("x86", "zen2", ["leaq 8(%rax), %rbx", "addq $8, %rbx", "vmovsd %xmm3, 16(%rax)", "vmovsd (%rbx), %xmm0", "vmulsd %xmm0, %xmm1, %xmm3", "movq %rbx, %rax"])]
    for isa, arch, body in twins:
        if arch not in avail:
            continue
        try:
            k = depcheck.rotation_oracle(ctx, None, "\n".join(body) + "\n", False, isa, "twin-form kernel on " + arch,
                                         fresh=lambda isa=isa, arch=arch: deps.Pipeline(ctx, isa, arch=arch, fresh=True))
            ctx.nontriv("\n".join(body))
            ctx.coverage["twin_form_rotations"] = ctx.coverage.get("twin_form_rotations", 0) + k
        except Exception as e:  # noqa
            ctx.coverage.setdefault("memory_kernel_errors", []).append("twin %s: %r" % (arch, repr(e)[:200]))
    import pressure, models
    pairs = []
    for f in pressure.kernel_files():
        isa = pressure.isa_of_file(f)
        for a in (models.X86 if isa == "x86" else models.A64):
            if a in models.nonempty_archs() and (ctx.tier == "thorough" or a in models.SMALL + ["zen2"]):
                pairs.append((a, f, isa))
    ctx.rng.shuffle(pairs)
    done = 0
    for a, f, isa in pairs[:ctx.n(6, 120)]:
        pipe = deps.Pipeline(ctx, isa, arch=a)
        from osaca.semantics import reduce_to_section
        kernel = reduce_to_section(pipe.parser.parse_file(open(f).read()), isa)
        lines = [k.line for k in kernel if k.mnemonic is not None]
        if not 2 <= len(lines) <= 40:
            continue
        text = "\n".join(lines) + "\n"
        try:
            depcheck.rotation_oracle(ctx, pipe, text, False, isa, "%s on %s" % (f.split("/repo/")[-1], a), max_rot=ctx.n(6, 40),
                                     fresh=(lambda isa=isa, a=a: deps.Pipeline(ctx, isa, arch=a, fresh=True)) if done % 2 == 0 else None)
            done += 1
        except Exception as e:  # noqa
            ctx.coverage.setdefault("real_skipped", []).append("%s %s: %r" % (a, f, e))
    ctx.coverage["real_kernels_rotated"] = done


def replay(ctx, obj):
    r = obj["replay"]
    if r.get("origin", "").endswith(tuple(["zen1", "zen2", "zen3", "zen4", "snb", "ivb", "hsw", "icl", "icx", "spr", "n1", "tx2", "a64fx", "a72", "tsv110", "m1", "v2"])):
        arch = r["origin"].split(" on ")[-1]
        pipe = deps.Pipeline(ctx, r["isa"], arch=arch)
        depcheck.rotation_oracle(ctx, pipe, r["text"], r["flagdeps"], r["isa"], r["origin"])
        depcheck.rotation_oracle(ctx, None, r["text"], r["flagdeps"], r["isa"], r["origin"],
                                 fresh=lambda: deps.Pipeline(ctx, r["isa"], arch=arch, fresh=True))
