"""C02 -- optimised schedule never worse than uniform and close to the true optimum.

Theorems (Props/C02.v): weak duality (optimum is a lower bound for every feasible schedule, unbounded);
the 5355-kernel family is complete for its shape and, on the bit-exact binary64 model of the CLI path,
within 0.15 of the exact optimum, never above uniform, never more than 0.01 below the optimum.
X: the family is ALSO run through the real implementation and compared bit for bit with the model's
   values the theorem is about (quick: every 4th kernel; thorough: all); random kernels share C01's
   correspondence.  Search: exact optimum with fractions on the implementation's outputs."""
import itertools
import json
import os
from fractions import Fraction as F

import vlib
import pressure
import c01

FINISH = dict(level="proof",
              rule="family: ordered kernels of length <= 4 (<= 3 with 2-cycle forms) over single-micro-op forms on the 7 non-empty "
                   "subsets of 3 ports, enumerated in Coq (5355) and replayed on the implementation; random: C01's generator, "
                   "each kernel analysed uniform / once / twice; non-trivial = kernel with >= 2 counted lines and a multi-port micro-op")

SUBSETS = [["A"], ["B"], ["C"], ["A", "B"], ["A", "C"], ["B", "C"], ["A", "B", "C"]]


def family():
    forms = [(False, s) for s in SUBSETS] + [(True, s) for s in SUBSETS]
    forms1 = forms[:7]

    def words(al, n):
        ws = [[]]
        for _ in range(n):
            ws = [[a] + w for w in ws for a in al]
        return ws
    return words(forms, 1) + words(forms, 2) + words(forms, 3) + words(forms1, 4)


def family_case(w):
    forms = []
    kernel = []
    for two, s in w:
        f = {"tp": 1.0, "uops": [[2 if two else 1, list(s)]]}
        if f not in forms:
            forms.append(f)
        kernel.append(forms.index(f))
    return {"ports": ["A", "B", "C"], "forms": forms, "kernel": kernel, "mode": "twice"}


def family_check(ctx):
    fam = family()
    assert len(fam) == 5355
    step = 1 if ctx.tier == "thorough" else 4
    offset = ctx.rng.randrange(step)
    idxs = list(range(offset, len(fam), step))
    expected = []
    worst = (F(0), None)
    for i in idxs:
        case = family_case(fam[i])
        out = pressure.run_impl(case)
        ctx.count()
        ctx.nontriv(("fam", i))
        if out[0] != "ok":
            ctx.violation("family:crash", "family kernel %d raises %s" % (i, out[2]), {"family_index": i})
            expected.append(None)
            continue
        b = max(out[2])
        expected.append(b)
        opt = pressure.optimum(case, out)
        uni = max(pressure.run_impl(dict(case, mode="uniform"))[2])
        d = abs(F(b) - opt)
        if d > worst[0]:
            worst = (d, i)
        if d > F(15, 100):
            ctx.violation("family:not-within-0.15", "family kernel %d: bottleneck %s vs optimum %s" % (i, b, float(opt)), {"family_index": i})
        if b > uni + 1e-9:
            ctx.violation("family:worse-than-uniform", "family kernel %d: optimised %s > uniform %s" % (i, b, uni), {"family_index": i})
    ctx.coverage["family_checked"] = len(idxs)
    ctx.coverage["family_worst_gap"] = [float(worst[0]), worst[1]]
    ctx.coverage["exhaustive"] = step == 1
    ctx.sample({"family_index": idxs[len(idxs) // 2], "kernel": fam[idxs[len(idxs) // 2]], "bottleneck": expected[len(idxs) // 2]})
    # model values (the ones the theorem speaks about) vs implementation, bit for bit
    nsh = 16
    shards = []
    per = (len(idxs) + nsh - 1) // nsh
    for s in range(nsh):
        part = list(zip(idxs, expected))[s * per:(s + 1) * per]
        if not part:
            continue
        text = """From Coq Require Import ZArith List Bool String PrimFloat.
From OV Require Import Model.Num Model.Pressure Model.Family Model.PyString.
Import ListNotations.
Definition want : list (nat * option float) := [%s].
Definition bad := filter (fun p => match cli_bottleneck FNum (nth (fst p) family []), snd p with
                                  | Ok b, Some e => negb (f_biteq b e) | Err _, None => false | _, _ => true end) want.
Eval vm_compute in (String.concat "," (map (fun p => string_of_nat (fst p)) bad) ++ "|" ++ string_of_nat (List.length want))%%string.
""" % "; ".join("(%d%%nat, %s)" % (i, "None" if e is None else "Some " + pressure.flit(e)) for i, e in part)
        shards.append(("fam_%02d" % s, text))
    res = ctx.coq_eval_many(shards, timeout=900)
    bad = []
    for ok, out in res:
        if not ok:
            bad.append("shard failed: " + out[0][-800:])
        else:
            b, n = out[0].split("|")
            bad += [x for x in b.split(",") if x]
    ctx.obligation("family: binary64 model bottleneck = implementation bit for bit on %d of 5355 kernels" % len(idxs),
                   "correspondence", not bad, "disagreeing family indices / errors: %s" % bad[:10])


def judge_bottleneck(ctx, base, outs, cobjs, worst):
    """bottleneck of the optimised modes vs uniform and vs the exact optimum; second-pass deviations wait for the model's verdict"""
    def report(mode, kind, text):
        if base.get("real"):
            text += " -- %s: %s" % (base["real"][0], str(base["real"][1]).replace("\n", " ; ")[:500])
        if mode == "twice":
            c01.PENDING.append((id(cobjs[mode]), kind, text, cobjs[mode], "second-pass:"))
        else:
            ctx.violation("once:" + kind, text, {"case": cobjs[mode]})
    if outs["uniform"][0] != "ok" or not outs["uniform"][2]:
        return None
    uni = max(outs["uniform"][2])
    opt = pressure.optimum(base, outs["uniform"])
    for mode in ("once", "twice"):
        o = outs[mode]
        if o[0] != "ok" or not o[2]:
            continue
        b = max(o[2])
        if b > uni + 1e-9:
            report(mode, "bottleneck-above-uniform", "optimised bottleneck %s > uniform %s" % (b, uni))
        under = float(opt - F(b))
        if mode == "once":
            worst[0] = max(worst[0], under)
        # Theorem C02_optimum_is_lower_bound with the eps = 0.005 splits of one balancing pass bounds the
        # undercut by 0.005 per micro-op that has a choice of ports (+ the 0.01 rounding of the totals).
        nmulti = sum(1 for fi in base["kernel"] if base["forms"][fi]["tp"] != 0.0
                     for u in base["forms"][fi]["uops"] if len(list(u[1])) >= 2)
        if under > 0.01 + 1e-9:
            if mode == "once" and under <= 0.01 + 0.005 * nmulti + 1e-9:
                ctx.violation("once:bottleneck-below-optimum-accumulated-half-steps",
                              "bottleneck %s undercuts the exact optimum %s by %.4f (<= 0.005 per multi-port micro-op: %d)"
                              % (b, float(opt), under, nmulti), {"case": cobjs[mode]})
            else:
                report(mode, "bottleneck-below-optimum", "bottleneck %s undercuts the exact optimum %s by %.4f" % (b, float(opt), under))
    return uni, opt


def random_check(ctx, n):
    """Each random kernel under uniform / once / twice; bottleneck comparisons with exact optimum."""
    cases_outs = []
    worst = [0.0]
    for i in range(n):
        base = pressure.gen_case(ctx.rng, mode="uniform")
        if any(isinstance(f["uops"], dict) for f in base["forms"]):
            # alternatives change the micro-op set between modes: no optimum comparison, but the choice of the
            # alternative is part of the model and is compared bit for bit
            optmin = None
            for mode in pressure.MODES:
                c = dict(base, mode=mode)
                o = pressure.run_impl(c)
                cases_outs.append((c, o))
                if o[0] != "ok" or not o[2] or mode == "uniform":
                    continue
                # whichever alternatives were chosen: every line still carries micro-ops of its OWN form, and the bottleneck does
                # not undercut the best optimum any choice of alternatives admits
                for ln, got in pressure.foreign_uops(c, o):
                    ctx.violation(mode + ":line-carries-micro-ops-of-another-form", "line %d reports the micro-ops %s, not an alternative of its "
                                  "instruction form %s" % (ln, str(got)[:160], str(base["forms"][base["kernel"][ln]]["uops"])[:200]), {"case": c})
                    break
                if len(base["ports"]) <= 5:
                    optmin = pressure.optimum_over_alternatives(base) if optmin is None else optmin
                    nmulti = sum(max(sum(1 for u in a if len(list(u[1])) >= 2) for a in pressure.alternatives_of(base["forms"][fi]))
                                 for fi in base["kernel"] if base["forms"][fi]["tp"] != 0.0)
                    under = float(optmin - F(max(o[2])))
                    if under > 0.01 + 0.005 * nmulti + 1e-9:
                        text = "bottleneck %s undercuts the best exact optimum over all alternative choices %s by %.4f" % (max(o[2]), float(optmin), under)
                        if mode == "twice":
                            c01.PENDING.append((id(c), "bottleneck-below-optimum", text, c, "second-pass:"))
                        else:
                            ctx.violation("once:bottleneck-below-optimum", text, {"case": c})
            ctx.count()
            continue
        outs, cobjs = {}, {}
        for mode in pressure.MODES:
            c = dict(base, mode=mode)
            outs[mode] = pressure.run_impl(c)
            cobjs[mode] = c
            cases_outs.append((c, outs[mode]))
        ctx.count()
        if c01.nontrivial(base):
            ctx.nontriv(c01.case_key(base))
        r = judge_bottleneck(ctx, base, outs, cobjs, worst)
        if r is None:
            continue
        uni, opt = r
        if i < 2:
            ctx.sample({"case": base, "uniform": uni, "optimum": float(opt), "once": outs["once"][2] if outs["once"][0] == "ok" else outs["once"][1]})
    ctx.coverage["worst_undercut_once"] = worst[0]
    return cases_outs


def real_path_check(ctx, n):
    """generated kernels through the real parse + add_semantics + CLI scheduling path (the same entry hit by several lines)"""
    import models
    import os
    cases_outs = []
    worst = [0.0]
    done = 0
    for i in range(n):
        arch = ctx.rng.choice([a for a in models.nonempty_archs() if a != "zen1" and (ctx.tier != "quick" or a in models.SMALL + ["zen2", "hsw", "n1"])])
        isa = "x86" if arch in models.X86 else "aarch64"
        path = os.path.join(ctx.scratch, "rep%d.s" % i)
        text = pressure.repeated_entry_kernel(ctx.rng, isa)
        with open(path, "w") as f:
            f.write(text)
        outs, cobjs = {}, {}
        try:
            for mode in pressure.MODES:
                c, o = pressure.real_case(arch, path, mode)
                c["real"] = [arch, "generated:" + text]
                outs[mode], cobjs[mode] = o, c
        except Exception as e:  # noqa
            ctx.coverage.setdefault("real_skipped", []).append("%s: %r" % (arch, e))
            continue
        base = cobjs["uniform"]
        if any(isinstance(f["uops"], dict) for f in base["forms"]):
            continue
        for mode in pressure.MODES:
            cases_outs.append((cobjs[mode], outs[mode]))
        ctx.count()
        done += 1
        judge_bottleneck(ctx, base, outs, cobjs, worst)
    ctx.coverage["real_path_kernels"] = done
    return cases_outs


def run(ctx):
    ctx.trusted += ["binary64 model Model/Num.v + Model/Pressure.v tied to the code by bit-exact correspondence (family replayed on the implementation)",
                    "exact optimum: Model/Family.opt6 (Coq) and harness/pressure.optimum (fractions) are independent implementations of max_S confined(S)/|S|"]
    ctx.ensure_static()
    ctx.compile_theorems("Props/C02.v", timeout=1800)
    family_check(ctx)
    co = random_check(ctx, ctx.n(150, 2500))
    c01.run_cases(ctx, co, "random")
    rp = real_path_check(ctx, ctx.n(24, 300))
    c01.run_cases(ctx, rp, "realpath", shard_size=4)


def replay(ctx, obj):
    r = obj["replay"]
    if "family_index" in r:
        case = family_case(family()[r["family_index"]])
        out = pressure.run_impl(case)
        opt = pressure.optimum(case, out)
        ctx.count()
        ctx.log("family kernel %d: bottleneck %s optimum %s" % (r["family_index"], max(out[2]), float(opt)))
        if abs(F(max(out[2])) - opt) > F(15, 100):
            ctx.violation(obj["key"], obj["what"], r)
        return
    case = r["case"]
    if case.get("real") and str(case["real"][1]).startswith("generated:"):
        import os
        path = os.path.join(ctx.scratch, "replay.s")
        with open(path, "w") as f:
            f.write(case["real"][1][len("generated:"):])
        _, out = pressure.real_case(case["real"][0], path, case["mode"])
        case, uni = pressure.real_case(case["real"][0], path, "uniform")
    else:
        out = pressure.run_impl(case)
        uni = pressure.run_impl(dict(case, mode="uniform"))
    opt = pressure.optimum(case, uni)
    b = max(out[2])
    ctx.count()
    ctx.log("replay: bottleneck %s uniform %s optimum %s" % (b, max(uni[2]), float(opt)))
    if b > max(uni[2]) + 1e-9 or float(opt - F(b)) > 0.01 + 1e-9:
        ctx.violation(obj["key"], obj["what"], r)
