"""C07 -- instruction-form lookup is sound and complete for operand kinds.

Theorems: coq/Props/C07.v over coq/Model/Match.v (matcher transcribed branch for branch) and
          coq/Model/MatchSpec.v (kind / admits, from the property text).
T (tie):  harness/c07_gen.py: the matcher predicates, _match_operands, get_instruction, is_vector_register and the operand
          classes' __eq__ are re-translated from the CURRENT source on every run (tools/gen_c07.py, tools/py2coq_dyn.py,
          dynamically typed values of coq/Model/PyDyn.v) and coq/PropsGen/C07gen.v re-proves against that text that they
          are the hand model on every value of its operand / pattern types (coq/Model/MatchEmbed.v), both ISAs; the
          translated functions are evaluated on dumps of the real objects of the shards below against the Python functions
          (second column), and the dumps are compared with the embedding (third column).
X (tie):  (a) synthetic machine models (YAML text -> the repo's loader; plus entries created in-process)
              x instructions instantiating an entry / near misses / random operands, looked up through the
              REAL ArchSemantics.assign_tp_lt / ISASemantics.assign_src_dst (suffix fall-backs, composition
              path) with MachineModel.get_instruction instrumented; position of the returned entry compared
              with Model/Match.v (expected answers embedded in the case files; Coq prints disagreements only);
              _check_operands compared operand-wise on the same material;
          (b) every (quick: seeded 10 %) entry of every shipped model and of both ISA DBs: the instruction
              synthesised from the entry's own pattern and one near miss; same comparison, on the real tables;
          (c) assembly lines of the repo's test kernels through the real parsers.
Oracle:   kind/admits re-implemented in Python from the property text (harness/c07_lib.py), evaluated on what
          the implementation returned: the entry applied must admit every operand kind, no earlier entry of the
          name may admit them, and "unknown" is only allowed when no entry admits them.
"""
import glob
import json
import os
import time

import vlib
import c07_lib as L
import c07_gen as G

FINISH = dict(level="proof",
              rule="one evaluation = one lookup (mnemonic + operand list) answered by the implementation and by the "
                   "model, or one operand-vs-pattern test; non-trivial = the lookup found an entry or the near-miss "
                   "was rejected by exactly one operand; distinct = distinct (isa, entry pattern text, operand text)")

PRELUDE = """From Coq Require Import String List ZArith.
From OV Require Import Model.PyString Model.Match.
Import ListNotations.
Open Scope string_scope.
"""


# ------------------------------------------------------------------ shard writer
class Shard:
    GEN = None                 # set by run(): {"ok":..., "meta":...} of the translation stage
    GEN_BUDGET = 600           # second/third-column cases per shard

    def __init__(self, name):
        self.name = name
        self.tables = []       # Gallina list terms
        self.cases = []        # (expr, expected, meta)
        self.selfterms = {}    # table index -> pyval term of the MachineModel object incl. its forms dict
        self.gen = bool(Shard.GEN and Shard.GEN["ok"])
        self.dumper = G.dumper_for(Shard.GEN["meta"]) if self.gen else None
        self.n_gen = 0

    def add_table(self, isa, table, mm=None):
        ents = []
        for key, form in table:
            try:
                ents.append(L.ser_entry(key, form))
            except L.Unmodelled:
                # an entry outside the vocabulary: keep its position, never matches by name
                ents.append('(E "" [])')
        self.tables.append("[" + ";\n  ".join(ents) + "]")
        ti = len(self.tables) - 1
        if self.gen and mm is not None:
            try:
                self.selfterms[ti] = G.self_term(self.dumper, mm, G.forms_dict_term(self.dumper, mm, table))
            except (G.Undumpable, L.Unmodelled):
                pass
        return ti

    def gen_room(self):
        return self.gen and self.n_gen < self.GEN_BUDGET

    def add_gen(self, expr, expected, meta):
        self.cases.append((expr, expected, dict(meta, column="translated")))
        self.n_gen += 1

    def text(self):
        out = [G.SHARD_PRELUDE if self.gen else PRELUDE]
        if self.gen:
            out.append(self.dumper.definitions())
        for i, t in enumerate(self.tables):
            out.append("Definition tbl%d : list entry :=\n  %s.\n" % (i, t))
        out.append("Definition cases : list (string * string) := [\n  %s].\n" % ";\n  ".join(
            "(%s, %s)" % (e, L.cs(x)) for e, x, _ in self.cases))
        out.append("Eval vm_compute in (report cases).\n")
        return "\n".join(out)


def expect_lookup(table, res):
    if isinstance(res, Exception):
        return "!" if isinstance(res, AttributeError) else "?" + type(res).__name__
    if res is None:
        return "-"
    i = L.index_of(table, res)
    return str(i) if i is not None else "?outside"


def add_lookup_case(sh, ti, isa, table, how, mn, ops, res, meta):
    try:
        ops_t = L.ser_list([L.ser_operand(o) for o in ops])
        mn_t = L.cs(mn)
    except L.Unmodelled:
        return False
    fn = "lookup_with_suffix %s tbl%d %s" % (L.coq_isa(isa), ti, mn_t) if how == "L" else \
         "get_instruction %s tbl%d (Some %s)" % (L.coq_isa(isa), ti, mn_t)
    sh.cases.append(("show_lookup (%s %s)" % (fn, ops_t), expect_lookup(table, res), meta))
    return True


def add_gen_calls(sh, ti, table, calls, meta, limit=2):
    """second column: the TRANSLATED get_instruction on dumps of the real table / operands, for raw get_instruction
    calls recorded on the real model object (name, operands, returned form | None | exception)"""
    if ti not in sh.selfterms:
        return
    for name, ops, res in calls[:limit]:
        if not sh.gen_room():
            return
        try:
            nm = "PNone" if name is None else "(PStr %s)" % L.cs(name)
            ops_t = sh.dumper.share("(PList [%s])" % "; ".join(sh.dumper.term(o) for o in ops))
        except (G.Undumpable, L.Unmodelled, TypeError):
            continue
        if isinstance(res, Exception):
            x = "!" + type(res).__name__
        elif res is None:
            x = "-"
        else:
            i = L.index_of(table, res)
            x = str(i) if i is not None else "?outside"
        sh.add_gen("show_form (g_get_instruction %s %s %s)" % (sh.selfterms[ti], nm, ops_t), x, dict(meta, get_instruction=name))


def add_gen_match(sh, mm, form, ops, meta):
    """second column: the translated _match_operands on dumps of an entry's pattern list and an operand list"""
    if not sh.gen_room():
        return
    try:
        pats_t = sh.dumper.share("(PList [%s])" % "; ".join(sh.dumper.term(p) for p in form.operands))
        ops_t = sh.dumper.share("(PList [%s])" % "; ".join(sh.dumper.term(o) for o in ops))
        st = G.self_term(sh.dumper, mm)
    except (G.Undumpable, L.Unmodelled):
        return
    x = G.expect_value(lambda: mm._match_operands(form.operands, ops))
    sh.add_gen("PyDyn.show_res (g_match_operands %s %s %s)" % (st, pats_t, ops_t), x, dict(meta, match_operands=True))


def add_check_case(sh, isa, mm, pat, op, meta):
    try:
        e = "show_res (check_operand %s %s %s)" % (L.coq_isa(isa), L.ser_pattern(pat), L.ser_operand(op))
    except L.Unmodelled:
        return False
    try:
        r = mm._check_operands(pat, op)
        x = "T" if r else "F"
    except AttributeError:
        x = "!"
    except Exception as ex:
        x = "?" + type(ex).__name__
    sh.cases.append((e, x, meta))
    if sh.gen_room():
        R = L._cls()[0]
        try:
            tp, to, st = sh.dumper.term(pat), sh.dumper.term(op), G.self_term(sh.dumper, mm)
        except (G.Undumpable, L.Unmodelled):
            return True
        # the translated _check_operands on the dumps of the real objects = the Python function itself
        sh.add_gen("PyDyn.show_res (g_check_operands %s %s %s)" % (st, tp, to),
                   G.expect_value(lambda: mm._check_operands(pat, op)), dict(meta, check=True))
        # the dumps = the embedding of the terms the serialiser wrote (dict operands are embedded by their canonical
        # text, foreign objects by an arbitrary class: nothing to compare there)
        parts = []
        if not isinstance(pat, dict):
            parts.append('okstr (agrees (embed_pattern envV %s) %s) "pattern"' % (L.ser_pattern(pat), tp))
        sop = L.ser_operand(op)
        if sop != "OOther" and not sop.startswith("(ODict"):
            parts.append('okstr (agrees (embed_operand envV %s) %s) "operand"' % (sop, to))
        if parts:
            sh.cases.append((' ++ "/" ++ '.join(parts), "/".join("ok" for _ in parts), dict(meta, column="embedding", check=True)))
    return True


def run_shards(ctx, shards, label):
    shards = [s for s in shards if s.cases]
    t = time.time()
    results = ctx.coq_eval_many([(s.name, s.text()) for s in shards], timeout=900)
    bad, total = [], 0
    for s, (ok, out) in zip(shards, results):
        if not ok or not out:
            ctx.obligation("correspondence shard %s evaluates" % s.name, "correspondence", False, (out or ["no output"])[0][-3000:])
            continue
        first, nbad, n = out[0].rsplit("|", 2)
        total += int(n)
        if int(n) != len(s.cases):
            ctx.obligation("correspondence shard %s complete" % s.name, "correspondence", False, "%s of %d cases" % (n, len(s.cases)))
        if int(nbad):
            for item in first.split(","):
                idx = int(item.split(":")[0])
                bad.append((s, idx, item))
    def describe(lst):
        if not lst:
            return ""
        s, idx, item = lst[0]
        return "%d disagreements; first: case %d of %s computed/expected = %s\n  %s\n  meta: %s" % (
            len(lst), idx, s.name, item.split(":", 1)[1], s.cases[idx][0][:1500], json.dumps(s.cases[idx][2], default=str)[:1500])
    col = lambda b: b[0].cases[b[1]][2].get("column", "model")
    n_col = {"model": 0, "translated": 0, "embedding": 0}
    for s in shards:
        for c in s.cases:
            n_col[c[2].get("column", "model")] += 1
    bad_model = [b for b in bad if col(b) == "model"]
    bad_tr = [b for b in bad if col(b) == "translated"]
    bad_emb = [b for b in bad if col(b) == "embedding"]
    ctx.obligation("correspondence %s: Model/Match.v = implementation on %d cases" % (label, n_col["model"]), "correspondence", not bad_model, describe(bad_model))
    if n_col["translated"]:
        ctx.obligation("translator cross-check %s: translated matcher (vm_compute on dumps of the real objects) = the Python functions on %d calls"
                       % (label, n_col["translated"]), "correspondence", not bad_tr, describe(bad_tr))
        ctx.obligation("embedding cross-check %s: dumps of the real operand / pattern objects agree with Model/MatchEmbed.v on %d pairs"
                       % (label, n_col["embedding"]), "correspondence", not bad_emb, describe(bad_emb))
    ctx.count(total)
    ctx.coverage.setdefault("columns", {})[label] = n_col
    ctx.log("correspondence %s: %d cases in %d shards (%d model, %d translated, %d embedding), %d disagreements (%.1fs)" % (
        label, total, len(shards), n_col["model"], n_col["translated"], n_col["embedding"], len(bad), time.time() - t))
    return bad


# ------------------------------------------------------------------ the oracle on one answered lookup
def classify_not_admitted(isa, form, ops):
    R = L._cls()[0]
    if len(form.operands) != len(ops):
        return "entry-applied-despite-operand-count"
    for p, o in zip(form.operands, ops):
        k = L.spec_kind(isa, o)
        if not L.spec_admits(isa, p, k):
            if isa == "x86" and isinstance(p, R) and p.name == "gpr" and k == ("reg", "k"):
                return "x86-gpr-pattern-applied-to-mask-register"
            if isa != "x86" and isinstance(p, R) and isinstance(o, R) and o.shape is None and p.shape not in (None, L.W):
                return "aarch64-shaped-pattern-applied-to-shapeless-register"
            return "entry-applied-to-different-operand-kind"
    return "entry-applied-to-different-operand-kind"


def scale_none(form):
    return any(getattr(p, "scale", 0) is None for p in form.operands)


def judge(ctx, isa, table, mn, ops, res, replay, shipped_data=False):
    """oracle: what the documented rule selects vs what the implementation returned (well-formed vocabulary only)"""
    if isinstance(res, Exception):
        if all(L.wf_operand(isa, o) for o in ops):
            ctx.violation("lookup-raises", "lookup of %s %s raises %s: %s" % (mn, L.show_ops(ops), type(res).__name__, res), replay)
        return "raise"
    if not all(L.wf_operand(isa, o) for o in ops):
        return "nonwf-operand"
    got = L.index_of(table, res) if res is not None else None
    want = L.spec_lookup(isa, table, mn, ops)
    if got == want:
        return "agree"
    involved = [table[i][1] for i in (got, want) if i is not None]
    # `scale: ~` is outside the documented vocabulary; on shipped data it is read as "unscaled" and judged
    if not all(L.wf_pattern(isa, p) or (shipped_data and getattr(p, "scale", 0) is None) for f in involved for p in f.operands):
        return "nonwf-pattern"
    kinds = [L.spec_kind(isa, o) for o in ops]
    if got is not None and not (table[got][0] in L.spec_names(isa, mn)):
        key = "entry-of-another-mnemonic-applied"
    elif got is not None and not L.spec_entry_admits(isa, table[got][1], kinds):
        key = "entry-without-scale-applied-to-scaled-access" if scale_none(table[got][1]) else classify_not_admitted(isa, table[got][1], ops)
    elif want is not None and scale_none(table[want][1]):
        key = "entry-without-scale-never-matches-unscaled-access"
    elif got is None:
        key = "reported-unknown-although-an-entry-admits-the-operands"
    else:
        key = "not-the-first-admitting-entry"
    what = "%s %s: implementation %s, documented rule %s" % (
        mn, L.show_ops(ops),
        "unknown" if got is None else "entry #%d %s %s" % (got, table[got][0], L.show_ops(table[got][1].operands)),
        "unknown" if want is None else "entry #%d %s %s" % (want, table[want][0], L.show_ops(table[want][1].operands)))
    replay = dict(replay)
    replay.update({"got": got, "want": want})
    if shipped_data:
        key = "shipped-" + key
    ctx.violation(key, what, replay)
    return key


def replay_table(table, keys):
    return [[k, [L.op_to_json(p) for p in f.operands]] for k, f in table if k in keys]


# ------------------------------------------------------------------ (a) synthetic models
def synthetic(ctx):
    from osaca.semantics import MachineModel, ArchSemantics
    n_models = ctx.n(40, 240)
    n_look = ctx.n(50, 60)
    shards, sh = [], None
    stats = {}
    for t in range(n_models):
        isa = "x86" if t % 2 == 0 else "aarch64"
        d = os.path.join(ctx.scratch, "syn%d" % t)
        os.makedirs(d)
        path = os.path.join(d, "m.yml")
        text = L.random_model_yaml(isa, ctx.rng)
        with open(path, "w") as f:
            f.write(text)
        mm = MachineModel(path_to_yaml=path)
        L.add_inprocess_entries(mm, isa, ctx.rng)
        sem = ArchSemantics(mm, path_to_yaml=path)
        sem._isa_model = mm
        rec = L.Recorder(mm)
        table = L.flat_table(mm)
        if sh is None or len(sh.cases) > 400:
            sh = Shard("c07_syn_%d" % len(shards))
            shards.append(sh)
        ti = sh.add_table(isa, table, mm)
        twin = None
        for q in range(n_look):
            if twin is not None:
                # the same instruction with the displacement KIND flipped (number <-> symbol), looked up right after on the same
                # model object: what was looked up before must not matter
                key, form, mn, ops = twin
                twin, mode = None, "twin"
            else:
                key, form = ctx.rng.choice(table)
                ops = L.instantiate_all(isa, form, ctx.rng)
                r = ctx.rng.random()
                mode = "own"
                if ops is None or r < 0.15:
                    ops = [L.random_operand(isa, ctx.rng) for _ in range(ctx.rng.randint(0, 4))]
                    mode = "random"
                elif r < 0.6:
                    ops = L.near_miss(isa, ops, ctx.rng)
                    mode = "near"
                mn = L.spellings(isa, key, ctx.rng)
                flip = L.flip_displacement_kind(ops)
                if flip is not None and ctx.rng.random() < 0.6:
                    twin = (key, form, mn, flip)
            path_kind = "tp_lt" if ctx.rng.random() < 0.7 else "src_dst"
            (res, main, extra, err), _form = (L.real_lookup_tp_lt if path_kind == "tp_lt" else L.real_lookup_src_dst)(sem, rec, mn, ops)
            meta = {"model": t, "isa": isa, "mn": mn, "ops": L.show_ops(ops), "mode": mode, "path": path_kind}
            if not add_lookup_case(sh, ti, isa, table, "L", mn, ops, res, meta):
                stats["unmodelled"] = stats.get("unmodelled", 0) + 1
                continue
            for name, eops, eres in extra[:2]:          # lookups of the load/store composition path
                add_lookup_case(sh, ti, isa, table, "G", name, eops, eres, dict(meta, extra=True))
                stats["composition lookups"] = stats.get("composition lookups", 0) + 1
            add_gen_calls(sh, ti, table, main + extra, meta, limit=3)
            add_gen_match(sh, mm, form, ops, meta)
            for _ in range(2):
                if ops:
                    k2, f2 = ctx.rng.choice(table) if ctx.rng.random() < 0.5 else (key, form)
                    if f2.operands:
                        add_check_case(sh, isa, mm, ctx.rng.choice(f2.operands), ctx.rng.choice(ops), dict(meta, check=True))
            if path_kind == "tp_lt" and not isinstance(res, Exception):
                # the observable the report uses: tp_unknown <=> nothing found (directly or by composition)
                unknown = "tp_unknown" in _form.flags
                comp_found = any(r is not None and not isinstance(r, Exception) for _, _, r in extra)
                if unknown != (res is None and not comp_found) and err is None:
                    ctx.obligation("tp_unknown flag <=> no entry found", "correspondence", False, json.dumps(meta))
            replay = {"kind": "table", "isa": isa, "mnemonic": mn, "ops": [L.op_to_json(o) for o in ops],
                      "table": replay_table(table, set(L.spec_names(isa, mn)))}
            verdict = judge(ctx, isa, table, mn, ops, res, replay)
            stats[verdict] = stats.get(verdict, 0) + 1
            stats[mode] = stats.get(mode, 0) + 1
            if res is not None and not isinstance(res, Exception):
                stats["found"] = stats.get("found", 0) + 1
                ctx.nontriv(("syn", isa, L.show_ops(res.operands), L.show_ops(ops)))
            if q < 1 and t < 3:
                ctx.sample(meta)
        rec.remove()
    run_shards(ctx, shards, "(a) synthetic models")
    ctx.coverage["synthetic"] = dict(stats, models=n_models)


# ------------------------------------------------------------------ (b) shipped entries
def shipped(ctx):
    import models
    from osaca.semantics import MachineModel
    frac = ctx.n(0.10, 1.0)
    shards = []
    stats = {}
    archs = models.nonempty_archs()
    targets = [(a, "arch") for a in archs] + [("x86", "isa"), ("aarch64", "isa")]
    isa_sem = {}
    for name, what in targets:
        if what == "arch":
            mm, sem = models.load(name)
            isa = mm.get_ISA().lower()
            isa_sem.setdefault(isa, sem)
            model, look = mm, L.real_lookup_tp_lt
        else:
            isa = name
            sem = isa_sem.get(isa) or models.load("zen1" if isa == "x86" else "n1")[1]
            model, look = sem._isa_model, L.real_lookup_src_dst
        rec = L.Recorder(model)
        table = L.flat_table(model)
        chosen = [i for i in range(len(table)) if frac >= 1.0 or ctx.rng.random() < frac]
        todo = []
        for i in chosen:
            key, form = table[i]
            if not all(L.wf_pattern(isa, p) or getattr(p, "scale", 0) is None for p in form.operands):
                stats["entry outside the vocabulary (C15)"] = stats.get("entry outside the vocabulary (C15)", 0) + 1
                continue
            ops = L.instantiate_all(isa, form, ctx.rng)
            if ops is None:
                stats["pattern admits no instruction"] = stats.get("pattern admits no instruction", 0) + 1
                continue
            r = ctx.rng.random()
            mn = key.lower() if r < 0.7 else key if r < 0.85 else L.spellings(isa, key, ctx.rng)
            todo.append((i, mn, ops, "own"))
            todo.append((i, mn, L.near_miss(isa, ops, ctx.rng), "near"))
        for c0 in range(0, len(todo), 300):
            chunk = todo[c0:c0 + 300]
            keys = set()
            for i, mn, ops, mode in chunk:
                keys.update(L.spec_names(isa, mn))
                keys.add(table[i][0])
            sub = [(k, f) for k, f in table if k in keys]
            sh = Shard("c07_%s_%s_%d" % (what, name.replace("+", "p"), c0))
            ti = sh.add_table(isa, sub, model if len(sub) <= 400 else None)
            shards.append(sh)
            for i, mn, ops, mode in chunk:
                (res, main, extra, err), _form = look(sem, rec, mn, ops)
                meta = {"model": name, "what": what, "entry": i, "mn": mn, "ops": L.show_ops(ops), "mode": mode}
                add_lookup_case(sh, ti, isa, sub, "L", mn, ops, res, meta)
                if ctx.rng.random() < 0.25:
                    add_gen_calls(sh, ti, sub, main, meta, limit=2)
                if table[i][1].operands and ops:
                    j = ctx.rng.randrange(min(len(ops), len(table[i][1].operands)))
                    add_check_case(sh, isa, model, table[i][1].operands[j], ops[j], dict(meta, check=True))
                replay = {"kind": "shipped", "model": name, "what": what, "isa": isa, "mnemonic": mn,
                          "ops": [L.op_to_json(o) for o in ops]}
                # near misses are artificial instructions: failures there belong to the matcher, not to the data
                verdict = judge(ctx, isa, table, mn, ops, res, replay, shipped_data=(mode == "own"))
                stats[verdict] = stats.get(verdict, 0) + 1
                if mode == "own":
                    got = L.index_of(table, res) if res is not None and not isinstance(res, Exception) else None
                    how = "own entry" if got == i else "earlier entry" if got is not None and got < i else "later entry" if got is not None else "unknown"
                    stats["own pattern -> " + how] = stats.get("own pattern -> " + how, 0) + 1
                    if got is not None:
                        ctx.nontriv((name, i))
        rec.remove()
        ctx.log("(b) %s %s: %d of %d entries" % (what, name, len(chosen), len(table)))
    run_shards(ctx, shards, "(b) shipped entries")
    ctx.coverage["shipped"] = dict(stats, fraction=frac)


# ------------------------------------------------------------------ (c) real assembly through the real parsers
PROBES = {
    "x86": ["addq $1, %rax", "vaddpd %zmm1, %zmm2, %zmm3", "kmovw %k1, %k2", "kmovw %eax, %k2", "vfmadd231pd (%rax,%rbx,8), %ymm1, %ymm2",
            "jne .L3", "movq 8(%rsp), %rcx", "vmovapd %ymm0, (%rdi,%rax)", "cmpl $7, %r8d", "vgatherdpd (%rax,%xmm1,8), %ymm2{%k1}"],
    "aarch64": ["ldr x0, [x1, #8]", "ldr x0, [x1, x2, lsl #3]", "ldp x0, x1, [x2]", "str x0, [x1], #8", "stp q0, q1, [x2, #32]!",
                "whilelo p1.d, x5, x9", "fmla v0.4s, v1.4s, v2.4s", "ld1d {z0.d}, p0/z, [x1, x2, lsl #3]", "b.ne .L3",
                "csel x0, x1, x2, ne", "fadd d0, d1, d2", "add x0, x1, #16", "fmov d0, #1.0e+0", "prfm pldl1keep, [x0, #64]"],
}


def real_assembly(ctx):
    import models
    from osaca.parser import ParserX86ATT, ParserAArch64
    shards = []
    stats = {}
    files = sorted(glob.glob(os.path.join(vlib.REPO, "tests", "test_files", "kernel_*.s")) +
                   glob.glob(os.path.join(vlib.REPO, "tests", "test_files", "triad_*.s")))
    lines = {"x86": list(PROBES["x86"]), "aarch64": list(PROBES["aarch64"])}
    for f in files:
        isa = "aarch64" if ("aarch64" in f.lower() or "arm" in f.lower()) else "x86"
        if "intel" in f.lower():
            continue
        for ln in open(f, errors="replace").read().splitlines():
            s = ln.strip()
            if s and not s.startswith((".", "#", "/")) and not s.endswith(":"):
                lines[isa].append(s)
    for isa, archs in (("x86", ["zen4", "spr"]), ("aarch64", ["m1", "a64fx"])):
        parser = ParserX86ATT() if isa == "x86" else ParserAArch64()
        parsed = []
        for s in dict.fromkeys(lines[isa]):
            try:
                form = parser.parse_line(s, 1)
            except Exception:
                continue
            if form.mnemonic is None or any(isinstance(o, tuple) for o in form.operands):
                continue
            parsed.append((s, form.mnemonic, form.operands))
        for arch in archs:
            if arch not in models.nonempty_archs():
                continue
            mm, sem = models.load(arch)
            rec = L.Recorder(mm)
            table = L.flat_table(mm)
            keys = set()
            for s, mn, ops in parsed:
                keys.update(L.spec_names(isa, mn))
            sub = [(k, f) for k, f in table if k in keys]
            sh = Shard("c07_asm_%s" % arch)
            ti = sh.add_table(isa, sub, mm if len(sub) <= 400 else None)
            shards.append(sh)
            for s, mn, ops in parsed:
                (res, main, extra, err), _form = L.real_lookup_tp_lt(sem, rec, mn, ops)
                meta = {"arch": arch, "line": s, "ops": L.show_ops(ops)}
                add_lookup_case(sh, ti, isa, sub, "L", mn, ops, res, meta)
                for name, eops, eres in extra[:2]:
                    add_lookup_case(sh, ti, isa, sub, "G", name, eops, eres, dict(meta, extra=True))
                add_gen_calls(sh, ti, sub, main + extra, meta, limit=2)
                if ops and sub:
                    # one operand of the real line against a pattern of the entry found (or of any entry of these keys)
                    j = ctx.rng.randrange(len(ops))
                    src = res if (res is not None and not isinstance(res, Exception) and len(res.operands) > j and ctx.rng.random() < 0.7) else ctx.rng.choice(sub)[1]
                    if src.operands:
                        pat = src.operands[j] if src is res else ctx.rng.choice(src.operands)
                        add_check_case(sh, isa, mm, pat, ops[j], dict(meta, check=True))
                verdict = judge(ctx, isa, table, mn, ops, res, {"kind": "asm", "arch": arch, "isa": isa, "line": s}, shipped_data=True)
                stats[verdict] = stats.get(verdict, 0) + 1
                if res is not None:
                    ctx.nontriv(("asm", arch, s))
            rec.remove()
    run_shards(ctx, shards, "(c) assembly lines through the real parsers")
    ctx.coverage["assembly"] = dict(stats, lines={k: len(v) for k, v in lines.items()})


def run(ctx):
    ctx.trusted += ["hand-written model coq/Model/Match.v: proved equal, on every run, to the matcher functions as translated from the current source (PropsGen/C07gen.v); additionally pinned by the correspondence shards",
                    "translator tools/py2coq_dyn.py + tools/gen_c07.py (fail-closed subset; its output is evaluated against the Python functions on dumps of the real objects every run) and the semantics of coq/Model/PyDyn.v",
                    "embedding coq/Model/MatchEmbed.v of the hand model's operand/pattern types into Python values (compared with generic dumps of the real objects every run)",
                    "not translated: the suffix fall-backs in arch_semantics.assign_tp_lt / isa_semantics.assign_src_dst (hand model lookup_with_suffix, correspondence only), the loader operand_to_class",
                    "specification coq/Model/MatchSpec.v (kind/admits) and its Python twin harness/c07_lib.py, written from the property text",
                    "serialiser harness/c07_lib.py (reads the attributes of the operand objects the matcher reads)",
                    "ruamel.yaml and the repo's loader for the tables (the tables reach the model as the loader built them)"]
    ctx.assumptions += ["mnemonics are ASCII (str.upper is modelled per ASCII character)",
                        "RegisterOperand equality between a parsed index register and an entry's RegisterOperand compares name, prefix, shape, lanes (the other attributes keep their defaults)",
                        "well-formed vocabulary for check_iff_admits: DESIGN section 25 / wf_pattern, wf_operand in Model/MatchSpec.v"]
    ctx.ensure_static()
    if os.path.exists(os.path.join(vlib.COQ, "Props", "C07.v")):
        ctx.compile_theorems("Props/C07.v")
    else:
        ctx.obligation("theorems of Props/C07.v", "theorem", False, "file missing")
    # T: regenerate the matcher from the current source, re-prove it equal to the hand model (harness/c07_gen.py);
    # a failure here is a broken obligation, and the stages below are the search for a concrete failing input
    Shard.GEN = G.run_T(ctx)
    synthetic(ctx)
    real_assembly(ctx)
    shipped(ctx)
    applied(ctx)


def applied(ctx, only=None):
    """The matched entry must also be APPLIED: an instruction written with exactly the operand kinds an entry declares is not flagged
    unknown by add_semantics (observe_at of the property: the tp_unknown / lt_unknown flags).  Entries with an EMPTY operand list
    (ret, nop, vzeroupper, cltq ...) are the corner where 'found' and 'truthy' differ."""
    import models
    from osaca.parser import ParserX86ATT, ParserAArch64
    archs = [a for a in models.nonempty_archs() if ctx.tier != "quick" or a in models.SMALL + ["zen2", "hsw"]]
    n = 0
    for a in ([only[0]] if only else archs):
        mm, sem = models.load(a)
        isa = mm.get_ISA().lower()
        parser = ParserX86ATT() if isa == "x86" else ParserAArch64()
        seen = set()
        for e in mm._data["instruction_forms"]:
            ops = e.get("operands") if isinstance(e, dict) else getattr(e, "operands", None)
            name = e.get("name") if isinstance(e, dict) else getattr(e, "mnemonic", None)
            tp = e.get("throughput") if isinstance(e, dict) else getattr(e, "throughput", None)
            lt = e.get("latency") if isinstance(e, dict) else getattr(e, "latency", None)
            if ops or not isinstance(name, str) or not name.isalnum() or name.lower() in seen or (only and name.lower() != only[1]):
                continue
            seen.add(name.lower())
            try:
                form = parser.parse_line("        " + name.lower(), 1)
                if form.mnemonic is None or form.operands:
                    continue
                sem.assign_src_dst(form)
                sem.assign_tp_lt(form)
            except Exception as ex:  # noqa
                ctx.violation("operandless-instruction-raises", "%s `%s`: %r" % (a, name.lower(), ex), {"kind": "applied", "arch": a, "name": name.lower(), "isa": isa})
                continue
            n += 1
            ctx.count()
            flags = list(form.flags or [])
            if (tp is not None and "tp_unknown" in flags) or (lt is not None and "lt_unknown" in flags):
                ctx.violation("matched-entry-not-applied", "%s `%s`: the model has an entry with no operands (throughput %s, latency %s) that get_instruction "
                              "finds, yet add_semantics flags the instruction %s" % (a, name.lower(), tp, lt, flags), {"kind": "applied", "arch": a, "name": name.lower(), "isa": isa})
    ctx.coverage["operandless_entries_applied"] = n


# ------------------------------------------------------------------ replay
def replay(ctx, obj):
    from osaca.semantics import MachineModel, ArchSemantics
    from osaca.parser.instruction_form import InstructionForm
    r = obj["replay"]
    if "kind" not in r:
        return run(ctx)
    if r["kind"] == "applied":
        return applied(ctx, only=(r["arch"], r["name"]))
    isa = r["isa"]
    if r["kind"] == "asm":
        import models
        from osaca.parser import ParserX86ATT, ParserAArch64
        mm, sem = models.load(r["arch"])
        form = (ParserX86ATT() if isa == "x86" else ParserAArch64()).parse_line(r["line"], 1)
        mn, ops = form.mnemonic, form.operands
        look, model = L.real_lookup_tp_lt, mm
    elif r["kind"] == "shipped":
        import models
        ops = [L.op_from_json(o) for o in r["ops"]]
        mn = r["mnemonic"]
        if r["what"] == "arch":
            mm, sem = models.load(r["model"])
            look, model = L.real_lookup_tp_lt, mm
        else:
            mm, sem = models.load("zen1" if isa == "x86" else "n1")
            look, model = L.real_lookup_src_dst, sem._isa_model
    else:
        mm = MachineModel(isa=isa)
        mm._data["ports"] = ["0", "1"]
        for key, pats in r["table"]:
            mm._data["instruction_forms_dict"][key].append(
                InstructionForm(mnemonic=key, operands=[L.op_from_json(p) for p in pats], throughput=1.0, latency=1.0, port_pressure=[[1, "0"]]))
        import models
        sem = ArchSemantics(mm, path_to_yaml=models.isa_path(isa))
        sem._isa_model = mm
        ops = [L.op_from_json(o) for o in r["ops"]]
        mn = r["mnemonic"]
        look, model = L.real_lookup_tp_lt, mm
    rec = L.Recorder(model)
    table = L.flat_table(model)
    (res, main, extra, err), _ = look(sem, rec, mn, ops)
    rec.remove()
    verdict = judge(ctx, isa, table, mn, ops, res, {k: v for k, v in r.items() if k not in ("got", "want")},
                    shipped_data=r["kind"] in ("asm", "shipped"))
    ctx.count(1)
    ctx.log("replay: %s %s -> %s (%s)" % (mn, L.show_ops(ops), expect_lookup(table, res), verdict))
