"""C09 -- x86 AT&T parser recovers every line and operand exactly as written.

Theorems (Props/C09.v over Model/ParseX86.v, Model/ParseFileX86.v): render/parse round trip for every
AST of the sub-language and every layout, classification of comment/label/directive lines, exclusivity,
parse_file line numbers / verbatim text / count.
Tie (X): random ASTs + layouts are rendered by the Coq `render_line` (in the case shard) and by its
Python mirror (byte-identical or the shard reports it), parsed by the real ParserX86ATT and by the model;
a malformed stream (token deletions / duplications / swaps) compares the verdicts wherever the model does
not answer Unmodelled; whole files compare line numbers, verbatim text and outcomes.
Segment-override references %seg:disp(base,index,scale) are inside the model (displacement kept as written: number text or
identifier[@relocation[+-offset]]; every base/index/scale shape); the serialiser harness/c09_gen.py:impl_segment normalises the two
shapes the grammar leaves in segment_ext (bare number string / dict) to one AST.
Written forms whose extras the code drops (opmask/zeroing, @relocation+-offset of identifiers, b/f of numeric labels) are rendered
too; model and oracle expect code_view(ast) -- everything the property names -- and the dropped parts are logged as observations.
Search (needs no model): ast_of(impl.parse_line(render ast)) == code_view(ast), the positions of non-blank lines,
and a metamorphic oracle (blanks around separators must not change the result).
"""
import re

import vlib  # noqa: F401
import c09_gen as g

FINISH = dict(level="proof",
              rule="one evaluation = one line (or one line of a file) parsed by the real ParserX86ATT and by the model; "
                   "non-trivial = an instruction line with at least one operand; distinct = distinct line texts")

HEADER = """From Coq Require Import String Ascii List Bool ZArith NArith.
From OV Require Import Model.ParseX86 Model.ParseFileX86.
Import ListNotations.
Open Scope string_scope.
Set Printing Width 100000. Set Printing Depth 100000.
Definition c (n : nat) : string := String (ascii_of_nat n) "".
Definition nat_str (n : nat) : string := show_N (N.of_nat n).
Fixpoint idx {A} (i : nat) (l : list A) : list (nat * A) := match l with [] => [] | x :: r => (i, x) :: idx (S i) r end.
Definition cat (l : list string) : string := String.concat "," l.
"""

KEY_WS = "x86-operand-kind-depends-on-blanks"
KEY_CMT = "x86-comment-with-non-ascii-text-raises"
NON_ASCII = ["caf\u00e9", "\u00b5s", "na\u00efve", "\u2192 x", "gr\u00f6\u00dfe", "\u00a9 2024", "\u4e2d\u6587", "a\u00e9b c"]

KNOWN_GRAMMAR_DIGESTS = {"e35a1f46b7802b61",   # pinned tree
                         "2a04efe4a12bffa4"}   # pinned tree + patches/C09-fix-*.diff

# minimised regression lines (run first): (line, canonical AST as written)
CORPUS = [
    ("mov 5 , %eax", "I:mov:M(5;-;-;1),R(eax)"),                 # absolute address followed by a blank
    ("mov 5, %eax", "I:mov:M(5;-;-;1),R(eax)"),
    ("jmp 4096\t", "I:jmp:M(4096;-;-;1)"),
    ("mov 0x10(%rax), %rbx", "I:mov:M(16;rax;-;1),R(rbx)"),      # hexadecimal displacement
    ("mov -0x10(%rax,%rbx), %rcx", "I:mov:M(-16;rax;rbx;1),R(rcx)"),  # scale omitted
    ("mov (,%rbx,8), %rcx", "I:mov:M(-;-;rbx;8),R(rcx)"),         # index without base
    ("mov ( , %rbx ), %rcx", "I:mov:M(-;-;rbx;1),R(rcx)"),
    ("movq $-0xFF , %RAX // c", "I:movq:I(-255),R(RAX)"),
    ("movabs $0xFFFFFFFFFFFFFFFF,%rax#c", "I:movabs:I(18446744073709551615),R(rax)"),
    ("jne .L4", "I:jne:L(.L4)"),
    ("lea foo(%rip), %rax", "I:lea:M(L(foo);rip;-;1),R(rax)"),
    ("ret", "I:ret:"),
    # segment-override references: ONE operand, displacement kept as written
    ("movq %fs:8(%rax), %rbx", "I:movq:S(fs;N(8);rax;-;1),R(rbx)"),
    ("movq %fs:0x28, %rax", "I:movq:S(fs;N(0x28);-;-;1),R(rax)"),
    ("movq %fs:40 , %rax", "I:movq:S(fs;N(40);-;-;1),R(rax)"),
    ("movl %ebx,%fs:16( %rax )", "I:movl:R(ebx),S(fs;N(16);rax;-;1)"),
    ("movq %gs:0x10(%rdi,%rsi,4) , %rcx  # tls slot", "I:movq:S(gs;N(0x10);rdi;rsi;4),R(rcx)"),
    ("addq $-0x20, %fs:0(%rdx,%rcx,8)", "I:addq:I(-32),S(fs;N(0);rdx;rcx;8)"),
    ("movq %fs : -8 (%rax), %rbx", "I:movq:S(fs;N(-8);rax;-;1),R(rbx)"),
    ("movq %gs:(,%rsi,4), %rbx", "I:movq:S(gs;-;-;rsi;4),R(rbx)"),
    ("movq %fs:var@TPOFF-8(%rcx), %rbx", "I:movq:S(fs;L(var;TPOFF;-8);rcx;-;1),R(rbx)"),
    ("movq %fs:var @TPOFF + 8, %rbx", "I:movq:S(fs;L(var;TPOFF;8);-;-;1),R(rbx)"),
    # opmask, indirect, relocation, numeric label, prefixes: one operand each, of the written kind, named parts kept
    ("vaddpd %zmm1, %zmm2, %zmm3{%k1}{z}", "I:vaddpd:R(zmm1),R(zmm2),R(zmm3)"),
    ("vmovupd %zmm1, 8(%rax,%rbx,2) {%k1}", "I:vmovupd:R(zmm1),M(8;rax;rbx;2)"),
    ("jmp *%rax", "I:jmp:*R(rax)"),
    ("jmp *8(%rax)", "I:jmp:M(8;rax;-;1)"),
    ("call *foo@GOTPCREL(%rip)", "I:call:M(L(foo);rip;-;1)"),
    ("call *foo@GOTPCREL", "I:call:*L(foo;GOTPCREL;-)"),
    ("jmp *0x10", "I:jmp:*N(0x10)"),
    ("call foo@PLT", "I:call:L(foo)"),
    ("mov $foo@GOT-4, %rax", "I:mov:L(foo),R(rax)"),
    ("mov foo@GOTPCREL+8(%rip), %rax", "I:mov:M(L(foo);rip;-;1),R(rax)"),
    ("jmp 1b", "I:jmp:L(1)"),
    ("jne 22f # c", "I:jne:L(22)"),
    ("data16 data32 lea 8(%rax), %rbx", "I:lea:M(8;rax;-;1),R(rbx)"),
]


def mutate(rng, line):
    s = list(line)
    for _ in range(rng.randint(1, 3)):
        if not s:
            break
        r = rng.random()
        i = rng.randrange(len(s))
        if r < 0.3:
            del s[i]
        elif r < 0.5:
            s.insert(i, s[i])
        elif r < 0.65 and len(s) > 1:
            j = rng.randrange(len(s))
            s[i], s[j] = s[j], s[i]
        elif r < 0.85:
            s.insert(i, rng.choice(",()%$:#/.-_ \t0123456789abfxX{}*@+\"'"))
        else:
            s[i] = rng.choice(g.PRINTABLE + " ")
    return "".join(s)


def normalise_blanks(line):
    """Same tokens, no blanks around separators / parentheses / at the ends (comment cut off)."""
    m = re.search(r"#|//", line)
    if m:
        line = line[:m.start()]
    line = line.strip(" \t\r")
    line = re.sub(r"[ \t\r]*([,():@{}*])[ \t\r]*", r"\1", line)
    return re.sub(r"[ \t\r]+", " ", line)


def metamorphic(parser, line):
    """Independent of any model: do blanks change what the implementation recovers?"""
    a, _ = g.impl_line(parser, line)
    b, _ = g.impl_line(parser, normalise_blanks(line))
    if a.startswith("I:") and b.startswith("I:") and a != b:
        return a, b
    return None


# ---------------------------------------------------------------------------------------------- streams
def wf_shard(cases):
    """cases: list of (lay, ast, line_py)"""
    rows = []
    for lay, ast, line in cases:
        rows.append("(%s, %s, %s, %s, %s)" % (g.cq_layout(lay), g.cq_ast(ast), g.cq_str(line), g.cq_str(g.canon_instr(ast)),
                                              g.cq_str(g.canon_code(ast))))
    return HEADER + """
Definition cases : list (layout * instr * string * string * string) := [
%s
].
Definition chk (p : nat * (layout * instr * string * string * string)) : list string :=
  let '(i, (lay, a, line, canon, code)) := p in
  let r := render_line lay a in
  (if String.eqb r line then [] else [nat_str i ++ ":render"])
  ++ (if String.eqb (show_instr a) canon then [] else [nat_str i ++ ":canon"])
  ++ (if String.eqb (show_code_view a) code then [] else [nat_str i ++ ":codeview"])
  ++ (if String.eqb (show_outcome (parse_line r)) code then [] else [nat_str i ++ ":model=" ++ show_outcome (parse_line r)]).
Eval vm_compute in (cat (flat_map chk (idx 0 cases)) ++ "|" ++ nat_str (length cases)).
""" % ";\n".join(rows)


def mal_shard(cases):
    """cases: list of (line, impl canonical)"""
    rows = ["(%s, %s)" % (g.cq_str(l), g.cq_str(o)) for l, o in cases]
    return HEADER + """
Definition cases : list (string * string) := [
%s
].
Definition chk (p : nat * (string * string)) : list string :=
  let '(i, (line, impl)) := p in
  let m := show_outcome (parse_line line) in
  if String.eqb m "U" then [] else if String.eqb m impl then [] else [nat_str i ++ ":" ++ m].
Definition unm : nat := length (filter (fun p => String.eqb (show_outcome (parse_line (fst p))) "U") cases).
Eval vm_compute in (String.concat (c 1) (flat_map chk (idx 0 cases)) ++ "|" ++ nat_str unm ++ "|" ++ nat_str (length cases)).
""" % ";\n".join(rows)


def file_shard(cases):
    """cases: list of (content, start_line, [(number, text, impl canonical)])"""
    rows = []
    for content, start, exp in cases:
        rows.append("(%s, %d, [%s])" % (g.cq_str(content), start,
                                       "; ".join("(%d, %s, %s)" % (n, g.cq_str(t), g.cq_str(o)) for n, t, o in exp)))
    return HEADER + """
Definition cases : list (string * nat * list (nat * string * string)) := [
%s
].
Fixpoint cmp (got : list fline) (exp : list (nat * string * string)) : bool :=
  match got, exp with
  | [], [] => true
  | f :: got', (n, t, o) :: exp' =>
      andb (Nat.eqb (fl_number f) n)
      (andb (String.eqb (fl_text f) t)
      (andb (let m := show_outcome (fl_parsed f) in orb (String.eqb m "U") (orb (String.eqb o "?") (String.eqb m o))) (cmp got' exp')))
  | _, _ => false
  end.
Definition chk (p : nat * (string * nat * list (nat * string * string))) : list string :=
  let '(i, (content, start, exp)) := p in
  if cmp (parse_file content start) exp then [] else [nat_str i].
Eval vm_compute in (cat (flat_map chk (idx 0 cases)) ++ "|" ++ nat_str (length cases)).
""" % ";\n".join(rows)


SPACE_SHARD = HEADER + """
Definition all256 : list nat := seq 0 256.
Eval vm_compute in (cat (map nat_str (filter (fun n => is_py_space (ascii_of_nat n)) all256))).
"""


def gen_comment_line(rng):
    return g.gen_ws(rng) + ("//" if rng.random() < 0.4 else "#") + g.gen_comment_text(rng)


def gen_label_line(rng):
    r = rng.random()
    if r < 0.2:
        name = str(rng.randint(0, 99))
    elif r < 0.6:
        name = g.gen_ident(rng)
    else:
        name = rng.choice(g.ALPHA + "-_.") + "".join(rng.choice(g.ALNUM + "$_.+-()") for _ in range(rng.randint(0, 8)))
    s = g.gen_ws(rng) + name + g.gen_ws(rng) + ":" + g.gen_ws(rng)
    if rng.random() < 0.3:
        s += ("//" if rng.random() < 0.4 else "#") + g.gen_comment_text(rng)
    return s, name


def gen_directive_line(rng):
    name = rng.choice(["text", "align", "p2align", "globl", "type", "size", "cfi_startproc", "byte", "long", "quad",
                       "section", "L4", "file", "ident", "_x", "0"])
    r = rng.random()
    if r < 0.3:
        rest = ""
    elif r < 0.7:
        rest = rng.choice([" 16", "\t4,,10", " main", " main, @function", " .text.startup,ax,@progbits", " 1,2,3 # c",
                           " x // y", "\t.-main", " 0x90", " a:", " %rax", " ,", "#c",
                           ' "a, b # c"', ' "a\\"b"', ' "x" # c', ' 1 "a b.c"', " 'x'", ' "GCC: (GNU) 9.1"',
                           ' .note.GNU-stack,"",@progbits', ' "abc', " 'a", ' "a""b", 2', ' "#" "," # "', " '\\'' , 3"])
    else:
        rest = rng.choice(" \t") + "".join(rng.choice(g.PRINTABLE + "  \t\"\"''")
                                           for _ in range(rng.randint(0, 12)))
        if rest.strip(" \t\r").startswith(":"):
            rest = " x" + rest
    return g.gen_ws(rng) + "." + name + rest, name


BLANKS = ["", " ", "\t", "  \t ", "\r", "\x0c", "\x0b", " \x1c\x1d\x1e\x1f ", "\xa0", "\x85", " \r"]


def gen_file(rng):
    lines, want = [], []   # want: (0-based position, text, kind-or-canonical)
    for _ in range(rng.randint(0, 14)):
        r = rng.random()
        if r < 0.25:
            lines.append(rng.choice(BLANKS))
            continue
        if r < 0.65:
            ast = g.gen_ast(rng)
            t = g.render_line(g.gen_layout(rng, len(ast[1])), ast)
            exp = g.canon_code(ast)
        elif r < 0.77:
            t, exp = gen_comment_line(rng), "C"
        elif r < 0.9:
            t, n = gen_label_line(rng)
            exp = "L:" + n
        else:
            t, n = gen_directive_line(rng)
            exp = "D:" + n
        want.append((len(lines), t, exp))
        lines.append(t)
    content = "\n".join(lines)
    if rng.random() < 0.5 and lines:
        content += "\n"
    return content, rng.choice([0, 0, 0, 1, 7, 1000]), want


# ---------------------------------------------------------------------------------------------- the check
def first_operand_class(ast):
    ops = ast[1]
    if ops and ops[0][0] == "mem" and ops[0][2] is None and ops[0][3] is None:
        return True
    return False


def run(ctx):
    from osaca.parser import ParserX86ATT
    parser = ParserX86ATT()
    ctx.trusted += [
        "hand-written model Model/ParseX86.v + Model/ParseFileX86.v (tied to the pyparsing grammar by the differential streams of this run)",
        "pyparsing itself, and every grammar alternative the model answers Unmodelled for: number+identifier `8+foo`, `a::b`, "
        "`%st(1)`, a mask inside the parentheses `(%rax{%k1})` or on a segment / `*` register, `%fs:` with an empty extension, "
        "`*%fs:8`, `$ 5` / `% rax` with inner blanks, an identifier followed by a blank and a number, doubled / missing commas, "
        "identifiers starting with `-`, comment text that is not printable ASCII",
        "harness/c09_gen.py: impl_operand / impl_segment / impl_star (serialisation of the operand objects, incl. the raw "
        "pyparsing leftovers in segment_ext and in the `offset` list of `*` operands) and code_view (mirror of the Coq "
        "code_view, compared with it on every generated case)",
        "Python mirror of render (harness/c09_gen.py): compared with the Coq render on every generated case",
    ]
    ctx.assumptions += [
        "file content is Latin-1 (code points < 256) in the file-level comparison; the theorems are over byte strings",
        "comment text is printable ASCII and blanks (anything else: Unmodelled)",
        "layouts put at least one blank between mnemonic and first operand; blanks are space, tab, CR",
    ]
    ctx.ensure_static()
    ctx.compile_theorems("Props/C09.v")

    # structural digest of the live grammar objects: a change alone is no verdict, it triples this run's case budget
    import hashlib
    digest = hashlib.sha1("|".join(str(getattr(parser, a, None)) for a in
                                   ("comment", "label", "directive", "register", "instruction_parser")).encode()).hexdigest()[:16]
    boost = 1 if digest in KNOWN_GRAMMAR_DIGESTS else 3
    ctx.coverage["grammar_digest"] = {"digest": digest, "known": boost == 1}
    n_wf = ctx.n(3000, 40000) * boost
    n_mal = ctx.n(3000, 40000) * boost
    n_files = ctx.n(150, 1500) * boost
    rng = ctx.rng

    # ---- regression corpus
    for line, exp in CORPUS:
        got, _ = g.impl_line(parser, line)
        ctx.count()
        if got != exp:
            if got.startswith("I:") and metamorphic(parser, line):
                ctx.violation(KEY_WS, "%r is recovered as %s but %r as %s (written: %s)"
                              % (line, got, normalise_blanks(line), metamorphic(parser, line)[1], exp),
                              {"kind": "line", "line": line, "expected": exp})
            else:
                ctx.violation("x86-roundtrip", "%r parsed as %s, written as %s" % (line, got, exp),
                              {"kind": "line", "line": line, "expected": exp})

    for line, exp in [("# caf\u00e9", "C"), ("ret # \u00b5s", "I:ret:"), ("foo: // na\u00efve", "L:foo")]:
        got, _ = g.impl_line(parser, line)
        ctx.count()
        if got != exp:
            ctx.violation(KEY_CMT, "%r -> %s, written as %s" % (line, "ValueError" if got == "E" else got, exp),
                          {"kind": "line", "line": line, "expected": exp})

    # ---- well-formed stream + round-trip oracle (implementation only)
    wf = []
    viol_wf = 0
    kinds = {}
    observed, obs_example = {}, {}
    for _ in range(n_wf):
        ast = g.gen_ast(rng)
        lay = g.gen_layout(rng, len(ast[1]))
        line = g.render_line(lay, ast)
        wf.append((lay, ast, line))
        got, _ = g.impl_line(parser, line)
        ctx.count()
        if ast[1]:
            ctx.nontriv(line)
        for o in ast[1]:
            if o[0] == "mem":
                k = "mem:%s%d%d" % ("-" if o[1] is None else o[1][0], o[2] is not None, o[3] is not None)
            elif o[0] == "seg":
                d = o[2]
                k = "seg:%s:%d%d" % ("none" if d is None else d[0] if d[0] == "num" else
                                     "id" + ("@" if d[2] is not None else "") + ("+" if d[3] is not None else ""),
                                     o[3] is not None, o[4] is not None)
            elif o[0] == "memk":
                k = "memk:%s%d%d" % ("-" if o[1] is None else o[1][0], o[2] is not None, o[3] is not None)
            elif o[0] == "star":
                k = "star:" + o[1][0]
            else:
                k = o[0]
            kinds[k] = kinds.get(k, 0) + 1
        want = g.canon_code(ast)     # the attributes the property names (the code's view of the written operands)
        for cls in g.lossy_classes(ast):
            observed[cls] = observed.get(cls, 0) + 1
            if got == want and cls not in obs_example:
                obs_example[cls] = "%r: written %s, recovered %s" % (line, g.canon_instr(ast), got)
        if got != want:
            viol_wf += 1
            if first_operand_class(ast) and got.startswith("I:") and metamorphic(parser, line):
                ctx.violation(KEY_WS, "first operand `%s` followed by a blank is recovered as a label, without the blank as a "
                              "memory reference: %r -> %s (written: %s)" % (g.render_op(True, lay["ops"][0][0], ast[1][0]), line, got, want),
                              {"kind": "line", "line": line, "expected": want})
            else:
                ctx.violation("x86-roundtrip", "%r parsed as %s, written as %s" % (line, got, want),
                              {"kind": "line", "line": line, "expected": want})
    ctx.coverage["operand_kinds"] = kinds
    # written information the code drops (outside what the property names): recorded, not a violation
    ctx.coverage["observations"] = {k: {"lines": observed[k], "example": obs_example.get(k)} for k in sorted(observed)}
    for k in sorted(observed):
        ctx.log("observation: %s on %d generated lines (not named by the property; e.g. %s)" % (k, observed[k], obs_example.get(k)))
    ctx.sample({"line": wf[0][2], "ast": g.canon_instr(wf[0][1])})
    ctx.sample({"line": wf[1][2], "ast": g.canon_instr(wf[1][1])})

    # ---- translator tie (T) for the post-processing stage behind the grammar (notes/C09C10-post.md)
    import parsepost_tie
    parsepost_tie.run_x86(ctx, parser, [l for l, _ in CORPUS] + [t for _, _, t in wf], wf=wf)

    # ---- malformed stream
    mal = []
    for _ in range(n_mal):
        ast = g.gen_ast(rng)
        line = mutate(rng, g.render_line(g.gen_layout(rng, len(ast[1])), ast))
        if line.strip() == "":
            continue
        got, _ = g.impl_line(parser, line)
        mal.append((line, got))
        ctx.count()
    # other line kinds, single lines
    others = []
    for _ in range(ctx.n(300, 3000)):
        r = rng.random()
        if r < 0.3:
            t, exp = gen_comment_line(rng), "C"
        elif r < 0.65:
            t, n = gen_label_line(rng)
            exp = "L:" + n
        else:
            t, n = gen_directive_line(rng)
            exp = "D:" + n
        if rng.random() < 0.3:
            t = mutate(rng, t)
            exp = None
            if t.strip() == "":
                continue
        got, _ = g.impl_line(parser, t)
        ctx.count()
        if exp is not None and got != exp:
            ctx.violation("x86-line-kind", "%r classified as %s, written as %s" % (t, got, exp), {"kind": "line", "line": t, "expected": exp})
        others.append((t, got))
    mal += others

    # ---- comments whose text is not ASCII (source lines echoed by -fverbose-asm / -fsource-asm): implementation only
    n_cmt = 0
    for _ in range(ctx.n(120, 1200)):
        text = g.gen_comment_text(rng).replace("\t", " ") + " " + rng.choice(NON_ASCII) + rng.choice(["", " x", " # y"])
        marker = "//" if rng.random() < 0.4 else "#"
        r = rng.random()
        base = None
        if r < 0.4:
            ast = g.gen_ast(rng)
            lay = g.gen_layout(rng, len(ast[1]))
            lay["comment"] = None
            if first_operand_class(ast):
                continue
            base = g.render_line(lay, ast)
            t, exp = base + marker + text, g.canon_code(ast)
        elif r < 0.6:
            t, exp = g.gen_ws(rng) + marker + text, "C"
        elif r < 0.8:
            t, n = gen_label_line(rng)
            if "#" in t or "//" in t:
                continue
            t, exp = t + marker + text, "L:" + n
        else:
            t, exp = "\t.text #" + text, "D:text"     # inside a directive "//" is a parameter, not a comment
        got, _ = g.impl_line(parser, t)
        ctx.count()
        n_cmt += 1
        if got != exp and base is not None and g.impl_line(parser, base)[0] != exp:
            # the same line without the comment is already mis-parsed: not a comment problem
            ctx.violation("x86-roundtrip", "%r parsed as %s, written as %s" % (base, g.impl_line(parser, base)[0], exp),
                          {"kind": "line", "line": base, "expected": exp})
        elif got != exp:
            ctx.violation(KEY_CMT, "%r -> %s, written as %s" % (t, "ValueError" if got == "E" else got, exp),
                          {"kind": "line", "line": t, "expected": exp})
    ctx.coverage["non_ascii_comment_lines"] = n_cmt

    # ---- files
    files = []
    for _ in range(n_files):
        content, start, want = gen_file(rng)
        try:
            res = parser.parse_file(content, start)
        except Exception as e:  # noqa
            bad = None
            for pos, t, exp in want:
                got, _ = g.impl_line(parser, t)
                if got != exp:
                    bad = (t, got, exp)
                    break
            if bad and bad[1].startswith("I:") and metamorphic(parser, bad[0]):
                ctx.violation(KEY_WS, "%r -> %s (written: %s)" % bad, {"kind": "line", "line": bad[0], "expected": bad[2]})
            else:
                ctx.violation("x86-parse-file-raises", "parse_file raised %s: %s" % (type(e).__name__, str(e)[:200]),
                              {"kind": "file", "content": content, "start": start, "want": want})
            continue
        exp_rows = []
        ok = len(res) == len(want)
        for r_, w in zip(res, want):
            got, _ = g.impl_line(parser, r_.line, r_.line_number)
            exp_rows.append((r_.line_number, r_.line, got if got == w[2] else "?"))   # "?": already a reported violation
            ctx.count()
            if r_.line_number != w[0] + 1 + start or r_.line != w[1]:
                ok = False
            elif got != w[2]:
                if got.startswith("I:") and metamorphic(parser, w[1]):
                    ctx.violation(KEY_WS, "%r -> %s (written: %s)" % (w[1], got, w[2]), {"kind": "line", "line": w[1], "expected": w[2]})
                else:
                    ctx.violation("x86-roundtrip", "%r parsed as %s, written as %s" % (w[1], got, w[2]), {"kind": "line", "line": w[1], "expected": w[2]})
        if not ok:
            ctx.violation("x86-parse-file-lines", "line numbers / texts %r differ from the non-blank lines %r"
                          % ([(r_.line_number, r_.line) for r_ in res][:6], [(w[0] + 1 + start, w[1]) for w in want][:6]),
                          {"kind": "file", "content": content, "start": start, "want": want})
        if all(ord(ch) < 256 for ch in content):
            files.append((content, start, exp_rows))

    # ---- model side
    shards = []
    per = 400
    for i in range(0, len(wf), per):
        shards.append(("c09_wf_%d" % (i // per), wf_shard(wf[i:i + per]), "wf", i))
    for i in range(0, len(mal), per):
        shards.append(("c09_mal_%d" % (i // per), mal_shard(mal[i:i + per]), "mal", i))
    for i in range(0, len(files), 100):
        shards.append(("c09_file_%d" % (i // 100), file_shard(files[i:i + 100]), "file", i))
    shards.append(("c09_space", SPACE_SHARD, "space", 0))
    results = ctx.coq_eval_many([(n, t) for n, t, _, _ in shards], timeout=900)
    unm = 0
    agg = {"wf": [], "mal": [], "file": []}
    hard_fail = []
    for (name, _, kind, base), (ok, out) in zip(shards, results):
        if not ok:
            hard_fail.append("%s: %s" % (name, out[0][-1500:]))
            continue
        s = out[0]
        if kind == "space":
            want = ",".join(str(i) for i in range(256) if chr(i).strip() == "")
            ctx.obligation("is_py_space = str.isspace on all 256 Latin-1 code points", "correspondence", s == want, "coq %s python %s" % (s, want))
            continue
        if kind == "mal":
            body, u, n = s.rsplit("|", 2)
            unm += int(u)
            for item in (body.split("\x01") if body else []):
                i, m = item.split(":", 1)
                agg["mal"].append((base + int(i), m))
        else:
            body, n = s.rsplit("|", 1)
            for item in (body.split(",") if body else []):
                agg[kind].append((base, item))
    ctx.obligation("all case shards evaluate", "correspondence", not hard_fail, "\n".join(hard_fail))

    # well-formed: render mirror, serialisation mirror, code_view mirror, model = code_view(AST)
    ctx.obligation("Coq render = Python render, Coq show = Python canon, Coq code_view = Python code_view, model parse(render) = code_view(AST) "
                   "on %d random (AST, layout) pairs" % len(wf),
                   "correspondence", not agg["wf"], "first: %s" % (agg["wf"][:5],))
    # malformed: model verdict = implementation verdict
    real = []
    for i, m in agg["mal"]:
        line, got = mal[i]
        if m.startswith("I:") and got.startswith("I:") and metamorphic(parser, line):
            ctx.violation(KEY_WS, "%r -> %s, model %s" % (line, got, m), {"kind": "line", "line": line, "expected": m})
        else:
            real.append((line, "model " + m, "impl " + got))
    ctx.obligation("model verdict = implementation verdict on %d malformed / other-kind lines (%d answered Unmodelled)" % (len(mal), unm),
                   "correspondence", not real, "first: %s" % (real[:5],))
    ctx.obligation("model parse_file = implementation parse_file (numbers, verbatim text, outcomes) on %d files" % len(files),
                   "correspondence", not agg["file"], "first: %s" % (agg["file"][:5],))
    ctx.coverage["streams"] = {"well_formed": len(wf), "malformed_and_other_kinds": len(mal), "unmodelled": unm, "files": len(files),
                               "roundtrip_failures_on_implementation": viol_wf}
    ctx.log("wf %d (impl round-trip failures %d), malformed %d (unmodelled %d, disagreements %d), files %d (disagreeing %d)"
            % (len(wf), viol_wf, len(mal), unm, len(real), len(files), len(agg["file"])))


def replay(ctx, obj):
    from osaca.parser import ParserX86ATT
    parser = ParserX86ATT()
    r = obj["replay"]
    ctx.count()
    if r.get("kind") == "line":
        got, _ = g.impl_line(parser, r["line"])
        ctx.log("replay: %r -> %s, expected %s" % (r["line"], got, r["expected"]))
        if got != r["expected"]:
            ctx.violation(obj["key"], obj["what"], r)
    elif r.get("kind") == "file":
        try:
            res = parser.parse_file(r["content"], r["start"])
            got = [(x.line_number, x.line) for x in res]
        except Exception as e:  # noqa
            got = "raised %s" % type(e).__name__
        want = [(w[0] + 1 + r["start"], w[1]) for w in r["want"]]
        ctx.log("replay: parse_file -> %r, expected %r" % (got, want))
        if got != want:
            ctx.violation(obj["key"], obj["what"], r)
    else:
        run(ctx)
