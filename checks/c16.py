"""C16 -- the LCD result is independent of process scheduling and worker count.

T: the partition arithmetic of check_for_loopcarried_dep is regenerated (tools/gen_c16.py ->
   Gen/Partition.v); PropsGen/C16.v proves partition_covers / partition_no_overlap /
   post_perm_invariant / parallel_eq_sequential against it.
X: (a) the regenerated partition + Model.Parallel.pyslice vs the very same source lines executed
   by CPython on a grid of (kernel length, worker count); (b) Model.Parallel.post evaluated by Coq
   on the raw path lists the real multi-process search delivered (in arrival order) vs the
   dictionary the implementation returned.
Search: real kernels (padded) and generated ones, analysed by the real multi-process path under
   patched worker counts {1,2,3,5,16,len+3}, with and without the worker-delay hook; the dictionary
   (order, keys, member lines, hex latencies) must equal the sequential one; CLI reports of
   repeated runs must be byte-identical apart from the timestamp line.
"""
import hashlib
import json
import os
import shutil
import subprocess
import time

import vlib
import gen_c16
import lcd_par
import c19_tie

FINISH = dict(level="proof",
              rule="one evaluation = one run of KernelDG's LCD search on the real multi-process path (or one CLI run, or "
                   "one (length, workers) point of the partition grid); non-trivial = the run delivered >= 2 paths "
                   "through >= 2 workers; distinct = distinct (kernel, worker count, perturbation seed)")

HERE = os.path.dirname(os.path.abspath(__file__))
DRIVER = os.path.join(vlib.VERIF, "harness", "lcd_par.py")


# ------------------------------------------------------------------ drivers
def run_batches(ctx, batches, timeout=900, jobs=6, extra_env=None):
    """batches: list of job lists; each batch runs in its own driver process. Returns list of result lists."""
    d = os.path.join(ctx.scratch, "jobs")
    os.makedirs(d, exist_ok=True)
    env = vlib.repo_env(extra_env, home=ctx.home)
    env["PYTHONPATH"] = os.pathsep.join([vlib.REPO, os.path.join(vlib.VERIF, "harness"), os.path.join(vlib.VERIF, "lib")])
    pend = list(enumerate(batches))
    running = []
    results = [None] * len(batches)
    base = "%d-%d" % (os.getpid(), int(time.time() * 1000) % 10 ** 9)
    while pend or running:
        while pend and len(running) < jobs:
            i, b = pend.pop(0)
            jf = os.path.join(d, "%s-%d.in.json" % (base, i))
            of = os.path.join(d, "%s-%d.out.json" % (base, i))
            with open(jf, "w") as f:
                json.dump(b, f)
            p = subprocess.Popen([vlib.PY, DRIVER, jf, of], env=env, stdout=subprocess.PIPE, stderr=subprocess.STDOUT,
                                 text=True, start_new_session=True)
            running.append((i, p, of, time.time(), len(b)))
        still = []
        for i, p, of, t0, nb in running:
            if p.poll() is None:
                if time.time() - t0 > timeout:
                    try:
                        os.killpg(p.pid, 9)
                    except OSError:
                        pass
                    p.wait()
                else:
                    still.append((i, p, of, t0, nb))
                    continue
            out = p.stdout.read()
            res = []
            if os.path.exists(of):
                try:
                    res = json.load(open(of))
                except ValueError:
                    res = []
            while len(res) < nb:
                res.append({"error": "driver died or timed out", "trace": out[-2000:]})
            results[i] = res
        running = still
        if running:
            time.sleep(0.05)
    return results


# ------------------------------------------------------------------ corpus
def kernel_lines(path, isa, markers):
    """text of the (marked) kernel of a shipped file, one instruction form per line"""
    from osaca.parser import ParserX86ATT, ParserAArch64
    from osaca.semantics import reduce_to_section
    p = ParserX86ATT() if isa == "x86" else ParserAArch64()
    parsed = p.parse_file(open(path).read())
    k = reduce_to_section(parsed, isa) if markers else parsed
    return "\n".join(l.line for l in k) + "\n"


REAL = [
    ("tests/test_files/kernel_x86.s", "x86", "zen2", False),
    ("tests/test_files/kernel_x86_memdep.s", "x86", "zen2", False),
    ("tests/test_files/kernel_aarch64.s", "aarch64", "tx2", False),
    ("tests/test_files/kernel_aarch64_deps.s", "aarch64", "a64fx", False),
    ("tests/test_files/kernel_aarch64_memdep.s", "aarch64", "n1", False),
    ("examples/gs/gs.s.zen.gcc.s", "x86", "zen2", True),
    ("examples/j2d/j2d.s.zen.gcc.s", "x86", "zen1", True),
    ("examples/gs/gs.s.tx2.gcc.s", "aarch64", "tx2", True),
    ("examples/j2d/j2d.s.csx.icc.AVX.s", "x86", "icx", True),
    ("examples/sum_reduction/sum_reduction.s.tx2.gcc.O3.s", "aarch64", "a64fx", True),
    ("examples/triad/triad.s.csx.icc.s", "x86", "zen3", True),
    ("examples/striad/striad.s.tx2.clang.s", "aarch64", "n1", True),
]


def warm(ctx, archs):
    """Load every model once, serially, before drivers run in parallel: the implementation writes its
    companion pickle non-atomically (C17), concurrent first loads would read half-written files."""
    import models
    t0 = time.time()
    for a in archs:
        models.load(a)
    ctx.log("models %s loaded in %.1fs" % (",".join(archs), time.time() - t0))


def corpus(ctx):
    """list of (name, spec); real kernels unpadded (threshold patched) and padded to >= 50 lines, generated ones"""
    warm(ctx, ["zen2", "zen1", "icx", "zen3", "a64fx", "tx2", "n1"])
    rng = ctx.rng
    out = []
    nreal = ctx.n(5, len(REAL))
    reals = REAL[:2] + rng.sample(REAL[2:], nreal - 2) if nreal < len(REAL) else list(REAL)
    for rel, isa, arch, marked in reals:
        path = os.path.join(vlib.REPO, rel)
        if not os.path.exists(path):
            continue
        try:
            text = kernel_lines(path, isa, marked)
        except Exception as e:
            ctx.log("cannot read %s: %r" % (rel, e))
            continue
        n = len(text.strip().split("\n"))
        upto = rng.choice([50, 51, 53, 57, 64])
        out.append(("%s+pad%d" % (rel, upto), {"isa": isa, "arch": arch, "text": lcd_par.pad_text(text, isa, upto, rng)}))
        if ctx.tier == "thorough" or rng.random() < 0.4:
            out.append((rel, {"isa": isa, "arch": arch, "text": text}))
    # interlocking recurrences: every member of a cycle is also directly self-dependent / cycles that share members (a search that
    # prunes roots or paths "already covered" differs between the sequential generator and the per-section workers exactly here)
    bodies = [("coupled-x86", "x86", "zen3", "vaddsd %xmm1, %xmm0, %xmm0\nvaddsd %xmm0, %xmm1, %xmm1\n"),
              ("ring3-x86", "x86", "zen2", "vaddsd %xmm2, %xmm0, %xmm0\nvaddsd %xmm0, %xmm1, %xmm1\nvaddsd %xmm1, %xmm2, %xmm2\n"),
              ("covered-x86", "x86", "zen2", "vaddsd %xmm4, %xmm0, %xmm2\nvaddsd %xmm4, %xmm1, %xmm3\nvdivsd %xmm2, %xmm1, %xmm0\nvdivsd %xmm3, %xmm0, %xmm1\n"),
              ("coupled-a64", "aarch64", "n1", "fadd d0, d0, d1\nfadd d1, d1, d0\n"),
              ("ring3-a64", "aarch64", "tx2", "fadd d0, d0, d2\nfadd d1, d1, d0\nfadd d2, d2, d1\n")]
    for name, isa, arch, body in (bodies if ctx.tier == "thorough" else [bodies[i] for i in rng.sample(range(len(bodies)), 3)]):
        out.append((name, {"isa": isa, "arch": arch, "text": body}))
        out.append(("%s+pad" % name, {"isa": isa, "arch": arch, "text": lcd_par.pad_text(body, isa, rng.choice([50, 53, 64]), rng)}))
    ngen = ctx.n(6, 24)
    archs = {"x86": ["zen2", "zen1", "icx", "zen3"], "aarch64": ["a64fx", "tx2", "n1"]}
    cands = []
    for g in range(ngen * 3):
        isa = "x86" if g % 3 != 2 else "aarch64"
        n = rng.choice([49, 50, 50, 51, 52, 55, 60, 64, 70])
        pool = rng.choice([6, 8, 10, 12, 14])
        dens = rng.choice([0.3, 0.5, 0.7, 0.9])
        seed = rng.randrange(10 ** 9)
        import random as _r
        text = (lcd_par.gen_x86 if isa == "x86" else lcd_par.gen_a64)(_r.Random(seed), n, pool, dens)
        cands.append(("gen-%s-n%d-p%d-d%s-s%d" % (isa, n, pool, dens, seed), {"isa": isa, "arch": rng.choice(archs[isa]), "text": text}))
    # keep those whose search is feasible but not trivial
    counts = run_batches(ctx, [[{"op": "count", "spec": s, "cap": 200000}] for _, s in cands], timeout=120, jobs=12)
    kept = 0
    for (name, spec), res in zip(cands, counts):
        c, w = res[0].get("count"), res[0].get("work")
        if c is None:
            ctx.log("count failed for %s: %s" % (name, res[0].get("error")))
            continue
        # work = size of the DFS trees all_simple_paths walks: bounds the time of one search (<= ~5 s sequential)
        if 20 <= c <= ctx.n(2500, 6000) and w <= ctx.n(60000, 100000) and kept < ngen:
            out.append((name + "-paths%d" % c, spec))
            kept += 1
    return out


def worker_counts(klen):
    return [1, 2, 3, 5, 16, klen + 3]


# ------------------------------------------------------------------ partition correspondence (translator check)
def partition_correspondence(ctx, ex):
    src = "\n".join(ex["source_lines"])
    code = compile(src, "<partition lines of check_for_loopcarried_dep>", "exec")
    rng = ctx.rng
    small = [(n, W) for n in list(range(0, 13)) + [48, 49, 50, 51, 52, 53, 63, 64, 65, 70, 71] for W in list(range(1, 21)) + [n + 3, 64]]
    big = [(rng.randrange(1, 10 ** rng.randrange(3, 8)), rng.randrange(1, 10 ** rng.randrange(1, 4))) for _ in range(ctx.n(150, 600))]
    exp_small, exp_big = [], []
    errors = []
    for n, W in small + big:
        env = {"klen": n, "num_cores": W, "kernel": list(range(n)) if n < 100 else range(n)}
        try:
            exec(code, {"__builtins__": {"int": int, "min": min, "max": max, "range": range, "zip": zip, "len": len}}, env)
            pairs = list(zip(env["starts"], env["ends"]))
            if n < 100:
                exp_small.append((n, W, pairs, [list(c) for c in env["instrs"]]))
            else:
                exp_big.append((n, W, env["workload"], [(t, pairs[t][0], pairs[t][1]) for t in sorted({0, 1 % W, W // 2, W - 1})]))
        except Exception as e:
            errors.append((n, W, repr(e)))
    if errors:
        ctx.obligation("partition lines execute in CPython", "correspondence", False, str(errors[:3]))
        return

    def zl(l):
        return "[" + "; ".join("%d" % x for x in l) + "]"

    def pl(ps):
        return "[" + "; ".join("(%d, %d)" % p for p in ps) + "]"
    cs = "[" + ";\n ".join("(%d%%nat, %d%%nat, %s, %s)" % (n, W, pl(ps), "[" + "; ".join(zl(c) for c in ch) + "]")
                          for n, W, ps, ch in exp_small) + "]"
    cb = "[" + ";\n ".join("(%d, %d, %d, [%s])" % (n, W, wl, "; ".join("(%d, %d, %d)" % t for t in ts)) for n, W, wl, ts in exp_big) + "]"
    text = """From Coq Require Import ZArith List Bool String.
From OV Require Import Model.PyString Model.Parallel Gen.Partition.
Import ListNotations.
Open Scope Z_scope.
Set Printing Width 100000. Set Printing Depth 100000.
Fixpoint list_eqb {A} (f : A -> A -> bool) (a b : list A) : bool :=
  match a, b with [] , [] => true | x :: a', y :: b' => f x y && list_eqb f a' b' | _, _ => false end.
Definition pair_eqb (a b : Z * Z) := (fst a =? fst b) && (snd a =? snd b).
Definition small : list (nat * nat * list (Z * Z) * list (list Z)) := %s.
Definition big : list (Z * Z * Z * list (Z * Z * Z)) := %s.
Definition ok_small (c : nat * nat * list (Z * Z) * list (list Z)) : bool :=
  match c with (n, W, ps, chunks) =>
    list_eqb pair_eqb (partition W n) ps &&
    list_eqb (list_eqb Z.eqb) (map (pyslice (map Z.of_nat (seq 0 n))) (partition W n)) chunks end.
Definition ok_big (c : Z * Z * Z * list (Z * Z * Z)) : bool :=
  match c with (n, W, wl, ts) => (workload n W =? wl) &&
    forallb (fun t => match t with (tid, s, e) => (start_of n W wl tid =? s) && (end_of n W wl tid =? e) end) ts end.
Definition bad_small := map fst (filter (fun p => negb (ok_small (snd p))) (combine (seq 0 (List.length small)) small)).
Definition bad_big := map fst (filter (fun p => negb (ok_big (snd p))) (combine (seq 0 (List.length big)) big)).
Definition show := (String.concat "," (map string_of_nat (firstn 10 bad_small)) ++ "|" ++ String.concat "," (map string_of_nat (firstn 10 bad_big))
   ++ "|" ++ string_of_nat (List.length small) ++ "|" ++ string_of_nat (List.length big))%%string.
Eval vm_compute in show.
""" % (cs, cb)
    ok, out, dt = ctx.coq_eval("corr_c16_partition", text, timeout=600)
    if not ok:
        ctx.obligation("correspondence: generated partition = CPython on the grid", "correspondence", False, out[0])
        return
    bs, bb, ns, nb = out[0].split("|")
    good = bs == "" and bb == "" and int(ns) == len(exp_small) and int(nb) == len(exp_big)
    detail = ""
    if not good:
        first = [exp_small[int(x)][:3] for x in bs.split(",") if x][:3] + [exp_big[int(x)] for x in bb.split(",") if x][:3]
        detail = "disagreeing (klen, workers, python pairs): %s" % first
    ctx.count(len(exp_small) + len(exp_big))
    ctx.obligation("correspondence: generated partition + pyslice = the source lines run by CPython on %d (length, workers) points"
                   % (len(exp_small) + len(exp_big)), "correspondence", good, detail)
    ctx.log("partition correspondence: %s (%.1fs)" % ("agree" if good else "DISAGREE " + detail, dt))
    # independent oracle on the implementation's own lines: chunks tile range(n)
    for n, W, ps, ch in exp_small:
        flat = [x for c in ch for x in c]
        if flat != list(range(n)):
            ctx.violation("partition-does-not-tile-kernel",
                          "klen=%d workers=%d: chunks %s do not concatenate to the kernel (missing %s, duplicated %s)"
                          % (n, W, ps, sorted(set(range(n)) - set(flat))[:5], sorted(x for x in set(flat) if flat.count(x) > 1)[:5]),
                          {"kind": "partition", "klen": n, "W": W})
            break


# ------------------------------------------------------------------ the real multi-process path
def path_multiset(paths):
    return sorted(json.dumps(p) for p in paths)


def differential(ctx, kernels):
    hook = "RRZE_HPC_OSACA_VERIF_DELAY" in open(os.path.join(vlib.REPO, "osaca/semantics/kernel_dg.py")).read()
    ctx.coverage["delay_hook_present"] = hook
    if not hook:
        ctx.log("worker-delay hook not present in %s: perturbed runs are plain repetitions" % vlib.REPO)
    batches = []
    meta = []
    for name, spec in kernels:
        klen_guess = len(spec["text"].strip().split("\n"))
        thr = None if klen_guess >= 50 else 1
        jobs = [{"spec": spec, "threshold": 10 ** 6, "timeout": -1, "report": True}]
        cfg = [("seq", None, None)]
        for W in worker_counts(klen_guess):
            for delay in [None, ctx.rng.randrange(1, 10 ** 6)] + ([ctx.rng.randrange(1, 10 ** 6)] if ctx.tier == "thorough" else []):
                jobs.append({"spec": spec, "W": W, "threshold": thr, "timeout": -1, "delay": delay, "report": True})
                cfg.append(("par", W, delay))
        batches.append(jobs)
        meta.append((name, spec, cfg, thr))
    t0 = time.time()
    results = run_batches(ctx, batches, timeout=1500, jobs=6)
    ctx.log("ran %d LCD searches on %d kernels in %.1fs" % (sum(len(b) for b in batches), len(batches), time.time() - t0))
    shards = []
    shard_meta = []
    hist = {}
    for (name, spec, cfg, thr), res in zip(meta, results):
        seq = res[0]
        if "error" in seq:
            ctx.obligation("sequential reference run of %s" % name, "harness", False, seq.get("trace", seq["error"]))
            continue
        if seq["parallel"]:
            ctx.obligation("reference run of %s is sequential" % name, "harness", False, "threshold patch ineffective")
        orders = {}
        ref_ms = path_multiset(seq["paths"])
        orders[hashlib.sha1(json.dumps(seq["paths"]).encode()).hexdigest()] = seq["paths"]
        for (kind, W, delay), r in list(zip(cfg, res))[1:]:
            ctx.count()
            rp = {"kind": "run", "name": name, "spec": spec, "W": W, "delay": delay, "threshold": thr}
            if "error" in r:
                ctx.violation("parallel-search-raises", "%s W=%s delay=%s: %s" % (name, W, delay, r["error"]), rp)
                continue
            if not r["parallel"]:
                ctx.obligation("run of %s with W=%s takes the multi-process path" % (name, W), "harness", False, "klen=%d thr=%s" % (r["klen"], thr))
                continue
            nw = len(r["workers"])
            hist[nw] = hist.get(nw, 0) + 1
            c19_tie.note_parallel(name, {"timeout": -1, "W": W, "delay": delay}, r)      # replayed through the regenerated control flow
            if r["n_paths"] >= 2 and nw >= 2:
                ctx.nontriv((name, W, delay))
            if nw != W:
                ctx.violation("worker-count-differs", "%s: cpu_count=%d but %d workers started" % (name, W, nw), rp)
            if r["lcd"] != seq["lcd"]:
                ms = path_multiset(r["paths"])
                why = "same path multiset, different dictionary (order dependence of the post-processing)" if ms == ref_ms else \
                      "path multiset differs: %d paths vs %d sequential (partition drops or duplicates roots)" % (len(ms), len(ref_ms))
                keys_p, keys_s = [e[0] for e in r["lcd"]], [e[0] for e in seq["lcd"]]
                ctx.violation("parallel-differs-from-sequential",
                              "%s (%d lines) with %d workers, delay seed %s: %s; keys parallel %s... sequential %s..."
                              % (name, r["klen"], W, delay, why, keys_p[:4], keys_s[:4]), rp)
            elif path_multiset(r["paths"]) != ref_ms:
                ctx.violation("parallel-path-multiset-differs",
                              "%s W=%d: same dictionary but the workers delivered %d paths, sequential %d" % (name, W, r["n_paths"], seq["n_paths"]), rp)
            if r.get("report") != seq.get("report") and "report" in r and "report" in seq:
                ctx.violation("report-differs-from-sequential", "%s W=%d delay=%s: report text differs" % (name, W, delay), rp)
            if any(w["exitcode"] != 0 for w in r["workers"]) or r["children_after"]:
                ctx.violation("worker-not-clean", "%s W=%d: exit codes %s, children afterwards %s"
                              % (name, W, [w["exitcode"] for w in r["workers"]], r["children_after"]), rp)
            if r["timed_out"]:
                ctx.violation("untimed-run-flagged", "%s W=%d timeout=-1 but timed_out is set" % (name, W), rp)
            h = hashlib.sha1(json.dumps(r["paths"]).encode()).hexdigest()
            if h not in orders and len(orders) < ctx.n(3, 4):
                orders[h] = r["paths"]
        ctx.coverage.setdefault("arrival_orders", {})[name] = len(orders)
        ctx.sample({"kernel": name, "lines": seq["klen"], "paths": seq["n_paths"], "lcds": len(seq["lcd"]),
                    "distinct_arrival_orders_checked_in_coq": len(orders)})
        # model correspondence: post(arrival order) = the dictionary the implementation returned
        if not seq["lat_exact"]:
            ctx.coverage.setdefault("not_modelled_latency", []).append(name)
            continue
        if seq["n_paths"] > ctx.n(2500, 4000):
            ctx.coverage.setdefault("too_many_paths_for_coq", []).append(name)
            continue
        defs = []
        for i, ps in enumerate(orders.values()):
            defs.append("Definition ps%d : list path := %s." % (i, lcd_par.coq_paths(ps)))
        exp = lcd_par.coq_expected(seq["lcd"])
        body = lcd_par.COQ_PRELUDE + "\n".join(defs) + "\nDefinition expected : list entry := %s.\n" % exp
        body += "Definition res : list bool := [%s].\n" % "; ".join("agrees %d ps%d expected" % (seq["offset"], i) for i in range(len(orders)))
        body += "Definition kinj : bool := key_injb %d ps0.\n" % seq["offset"]
        body += 'Definition show := (String.concat "" (map (fun b : bool => if b then "1" else "0") res) ++ "|" ++ (if kinj then "1" else "0"))%string.\n'
        body += "Eval vm_compute in show.\n"
        shards.append(("corr_c16_post_%d" % len(shards), body))
        shard_meta.append((name, spec, len(orders)))
    if shards:
        t0 = time.time()
        outs = ctx.coq_eval_many(shards, timeout=600, jobs=12)
        bad = []
        n_orders = 0
        for (name, spec, no), (ok, strs) in zip(shard_meta, outs):
            if not ok or not strs:
                bad.append("%s: coqc failed: %s" % (name, (strs[0] if strs else "")[-400:]))
                continue
            flags, kinj = strs[0].split("|")
            n_orders += len(flags)
            if flags != "1" * no:
                bad.append("%s: model post disagrees with the returned dictionary on arrival orders %s" % (name, [i for i, c in enumerate(flags) if c != "1"]))
            if kinj != "1":
                ctx.coverage.setdefault("key_collisions", []).append(name)
        ctx.obligation("correspondence: Coq post(raw paths in arrival order) = dictionary returned by the implementation, %d path lists of %d kernels"
                       % (n_orders, len(shards)), "correspondence", not bad, "\n".join(bad))
        ctx.log("post correspondence: %d shards, %s (%.1fs)" % (len(shards), "agree" if not bad else "DISAGREE", time.time() - t0))
    ctx.coverage["workers_started_histogram"] = {str(k): v for k, v in sorted(hist.items())}


# ------------------------------------------------------------------ CLI: byte-identical reports
CLI = ("import sys, osaca.semantics.kernel_dg as kd\n"
       "W = int(sys.argv.pop(1))\n"
       "if W: kd.cpu_count = lambda: W\n"
       "from osaca.osaca import main\nmain()\n")


def setup_home_data(ctx):
    import models
    dst = os.path.join(ctx.home, ".osaca", "data")
    if not os.path.isdir(dst):
        os.makedirs(os.path.join(dst, "isa"))
        src = models.data_dir()
        for a in ("zen2", "tx2", "zen1", "a64fx"):
            shutil.copy(os.path.join(src, a + ".yml"), dst)
        for f in os.listdir(os.path.join(src, "isa")):
            shutil.copy(os.path.join(src, "isa", f), os.path.join(dst, "isa"))


def cli_run(ctx, path, arch, W, delay, extra=()):
    env = vlib.repo_env({"RRZE_HPC_OSACA_VERIF_DELAY": str(delay)} if delay else None, home=ctx.home)
    if not delay:
        env.pop("RRZE_HPC_OSACA_VERIF_DELAY", None)
    cmd = [vlib.PY, "-c", CLI, str(W), "--arch", arch, "--lcd-timeout", "-1", "--ignore-unknown"] + list(extra) + [path]
    rc, out = vlib.sh(cmd, timeout=300, env=env, cwd=ctx.scratch)
    return rc, out


def strip_ts(out):
    return "\n".join(l for l in out.split("\n") if not l.startswith("Timestamp:"))


def cli_identity(ctx, kernels):
    setup_home_data(ctx)
    d = os.path.join(ctx.scratch, "cli")
    os.makedirs(d, exist_ok=True)
    n = 0
    for name, spec in kernels:
        if spec["arch"] not in ("zen2", "tx2", "zen1", "a64fx"):
            continue
        klen = len(spec["text"].strip().split("\n"))
        if klen < 50:
            continue
        path = os.path.join(d, "k%d.s" % n)
        with open(path, "w") as f:
            f.write(spec["text"])
        runs = []
        for W, delay in [(0, None), (0, None), (3, 4711), (klen + 3, 1234)][:ctx.n(3, 4)]:
            rc, out = cli_run(ctx, path, spec["arch"], W, delay)
            ctx.count()
            runs.append((W, delay, rc, out))
        base = runs[0]
        if base[2] != 0 or "Loop-Carried Dependencies" not in base[3]:
            ctx.obligation("CLI run on %s produces a report" % name, "harness", False, base[3][-1500:])
            continue
        if "Timestamp:" not in base[3]:
            ctx.obligation("CLI report has a timestamp line", "harness", False, base[3][:500])
        for W, delay, rc, out in runs[1:]:
            if rc != base[2] or strip_ts(out) != strip_ts(base[3]):
                a, b = strip_ts(base[3]).split("\n"), strip_ts(out).split("\n")
                diff = [(x, y) for x, y in zip(a, b) if x != y][:3]
                ctx.violation("cli-report-not-reproducible",
                              "%s: CLI run with %s workers, delay seed %s differs from the first run (apart from the timestamp): %s"
                              % (name, W or "cpu_count()", delay, diff),
                              {"kind": "cli", "name": name, "spec": spec, "W": W, "delay": delay})
        n += 1
        if n >= ctx.n(2, 6):
            break
    ctx.coverage["cli_kernels"] = n


# ------------------------------------------------------------------ entry points
def run(ctx):
    ctx.trusted += ["tools/gen_c16.py (fail-closed extractor of the four partition lines; cross-checked against CPython running the same lines)",
                    "Model/Parallel.v: hand-written model of the de-duplication/sort/dict post-processing, tied by evaluating it in Coq on "
                    "the raw path lists the real workers delivered",
                    "runtime residue (sampled, not proved): OS scheduling, Manager().list() proxy semantics (extend is atomic), fork",
                    "int(a / b) read as truncated exact division (floats exact for operands < 2^26)",
                    "dictionary keys modelled as the line list; '-'.join(str(line)) is injective for non-negative int line numbers"]
    ctx.assumptions += ["latencies are multiples of 2^-20 below 2^32 (then float sums are exact and equal the integer model); "
                        "kernels violating it are compared parallel-vs-sequential only and listed in coverage.not_modelled_latency",
                        "cpu_count() >= 1"]
    ctx.ensure_static()
    ok, text, ex = gen_c16.generate(vlib.REPO, os.path.join(vlib.COQ, "Gen"))
    ctx.obligation("translate the partition arithmetic of check_for_loopcarried_dep from the current source", "translation", ok, "" if ok else text)
    compiled = False
    if ok:
        compiled, out, _ = ctx.coqc(os.path.join(vlib.COQ, "Gen", "Partition.v"))
        ctx.obligation("generated Partition.v type-checks", "translation", compiled, out)
    if ok and compiled:
        ctx.compile_theorems("PropsGen/C16.v")
        partition_correspondence(ctx, ex)
    else:
        ctx.obligation("theorems of PropsGen/C16.v", "theorem", False, "generated definitions unavailable")
    kernels = corpus(ctx)
    ctx.log("corpus: %d kernels" % len(kernels))
    ctx.coverage["kernels"] = [n for n, _ in kernels]
    differential(ctx, kernels)
    # translator tie for the control flow (sections -> one worker each, branch / worker count / schedule independence): PropsGen/C16ctl.v
    c19_tie.run(ctx, "PropsGen/C16ctl.v", "C16")
    cli_identity(ctx, kernels)


def replay(ctx, obj):
    r = obj["replay"]
    if r.get("kind") == "partition":
        ok, text, ex = gen_c16.generate(vlib.REPO, os.path.join(ctx.scratch, "gen"))
        if not ok:
            ctx.obligation("translate partition", "translation", False, text)
            return
        env = {"klen": r["klen"], "num_cores": r["W"], "kernel": list(range(r["klen"]))}
        exec("\n".join(ex["source_lines"]), {}, env)
        flat = [x for c in env["instrs"] for x in c]
        ctx.count()
        ctx.log("replay: klen=%d W=%d chunks=%s" % (r["klen"], r["W"], list(zip(env["starts"], env["ends"]))))
        if flat != list(range(r["klen"])):
            ctx.violation(obj["key"], obj["what"], r)
        return
    if r.get("kind") == "cli":
        cli_identity(ctx, [(r["name"], r["spec"])])
        return
    jobs = [{"spec": r["spec"], "threshold": 10 ** 6, "timeout": -1},
            {"spec": r["spec"], "W": r["W"], "threshold": r.get("threshold"), "timeout": -1, "delay": r.get("delay")}]
    res = run_batches(ctx, [jobs])[0]
    ctx.count(2)
    seq, par = res
    ctx.log("replay %s: sequential %s entries, parallel(W=%s) %s entries" % (r.get("name"), len(seq.get("lcd", [])), r["W"], len(par.get("lcd", []))))
    if "error" in par or "error" in seq or par["lcd"] != seq["lcd"] or path_multiset(par["paths"]) != path_multiset(seq["paths"]) \
            or any(w["exitcode"] != 0 for w in par["workers"]) or par["children_after"] or len(par["workers"]) != r["W"]:
        ctx.violation(obj["key"], obj["what"], r)
