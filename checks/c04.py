"""C04 -- the critical path is the longest latency-weighted dependency chain.
Theorems: Props/C04.v (cp_opt bounds every chain, >= every single latency; exact rationals).
X: certificate check in Coq (reported lines linked by model edges, cells = edge latencies / last latency, sum = cp_opt).
Search: brute-force enumeration of all chains of the implementation's own graph."""
import depcheck
import deps

FINISH = dict(level="proof",
              rule="as C03 plus kernels built to stress the critical path: zero-latency forms, chains ending in a high-latency instruction, "
                   "chains starting with a load, ties, dependency-free kernels; shipped kernels x models; non-trivial = kernel with >= 1 edge")


def run(ctx):
    depcheck.prepare(ctx, "Props/C04.v")
    cases = []
    for case, kernel, dg, isa, gl, pipe in depcheck.synthetic(ctx, ctx.n(140, 2500), maxlen=12):
        ctx.count()
        if case["edges"]:
            ctx.nontriv((case["text"], case["db"]["isa_yaml"]))
        depcheck.cp_oracle(ctx, case)
        if len(cases) < 2:
            ctx.sample({"kernel": case["text"], "cp_cells": case["cp"]})
        cases.append(case)
    depcheck.run_shards(ctx, cases, "synthetic")
    real = []
    for case, kernel, dg, isa, gl, pipe in depcheck.real(ctx, ctx.n(10, 250), fast_only=ctx.tier == "quick"):
        ctx.count()
        ctx.nontriv(case["origin"])
        depcheck.cp_oracle(ctx, case)
        real.append(case)
    depcheck.run_shards(ctx, real, "real", size=2)


def replay(ctx, obj):
    r = obj["replay"]
    if r.get("db"):
        pipe = deps.Pipeline(ctx, r["isa"], r["db"]["isa_yaml"], r["db"]["arch_yaml"])
    elif r.get("origin"):
        path, arch = r["origin"].split(" on ")
        pipe = deps.Pipeline(ctx, r["isa"], arch=arch)
    else:
        return
    case, kernel, dg = deps.build_case(pipe, r["text"], r["flagdeps"], reduce=not r.get("db"))
    case["db"] = r.get("db")
    ctx.count()
    depcheck.cp_oracle(ctx, case)
