"""C04 -- the critical path is the longest latency-weighted dependency chain.
Theorems: Props/C04.v (cp_opt bounds every chain, >= every single latency; exact rationals).
T: tools/gen_lcd.py regenerates Gallina from the CURRENT get_critical_path (sink graph with merged load-stage edges, path fix-up,
   per-line latency_cp, sum / fall-back; dag_longest_path and is_directed_acyclic_graph are parameters); PropsGen/C04gen.v proves it
   equal to the functional reading for every input and restates the theorems; the regenerated definition is evaluated by Coq
   (binary64) on the recorded real runs: returned objects, every latency_cp and the graph handed to dag_longest_path, bit for bit.
X: certificate check in Coq (reported lines linked by model edges, cells = edge latencies / last latency, sum = cp_opt).
Search: brute-force enumeration of all chains of the implementation's own graph."""
import c04_family
import depcheck
import deps
import lcd_gen

GEN_FILES = ["KdgNode.v", "KdgCrit.v"]

FINISH = dict(level="proof",
              rule="as C03 plus kernels built to stress the critical path: zero-latency forms, chains ending in a high-latency instruction, "
                   "chains starting with a load, ties, dependency-free kernels; shipped kernels x models; non-trivial = kernel with >= 1 edge")


def record(ctx, recs, kernel, dg):
    """one more run of the real get_critical_path, dag_longest_path wrapped, for the translator cross-check"""
    try:
        recs.append(lcd_gen.record_cp(kernel, dg))
    except Exception as e:  # noqa
        ctx.coverage.setdefault("translated_cp_runs_not_recorded", []).append(repr(e)[:200])


def run(ctx):
    depcheck.prepare(ctx, "Props/C04.v")
    ctx.trusted += ["translator tools/gen_lcd.py (on tools/gen_c01.py + tools/py2coq.py; fail-closed; cross-checked against CPython on every recorded run) "
                    "and its prelude Model/PyLcd.v: graph node = Line n | Load n (n + 0.1), nx.DiGraph as a container = nodes and successors in "
                    "insertion order, the objects of self.kernel are pairwise distinct (a heap of records)",
                    "networkx dag_longest_path / is_directed_acyclic_graph are parameters of the translated definition"]
    cases, recs = [], []
    for case, kernel, dg, isa, gl, pipe in c04_family.guarded_synthetic(ctx, ctx.n(140, 2500), maxlen=12):
        ctx.count()
        if case["edges"]:
            ctx.nontriv((case["text"], case["db"]["isa_yaml"]))
        depcheck.cp_oracle(ctx, case)
        if len(cases) < 2:
            ctx.sample({"kernel": case["text"], "cp_cells": case["cp"]})
        cases.append(case)
        record(ctx, recs, kernel, dg)
    depcheck.run_shards(ctx, cases, "synthetic")
    real, rrecs = [], []
    for case, kernel, dg, isa, gl, pipe in depcheck.real(ctx, ctx.n(10, 250), fast_only=ctx.tier == "quick"):
        ctx.count()
        ctx.nontriv(case["origin"])
        depcheck.cp_oracle(ctx, case)
        real.append(case)
        record(ctx, rrecs, kernel, dg)
    # the load stage of a critical path, made certain rather than probable: read-modify-write without own memory form + reload of the
    # same location + a competing chain sized between the right and a wrong weight of the folded load-stage edge (harness/c04_family.py)
    fam, frecs = [], []
    for name, case, kernel, dg, isa in c04_family.cases(ctx):
        ctx.count()
        ctx.nontriv((case["text"], case["db"]["arch_yaml"]))
        depcheck.cp_oracle(ctx, case)
        fam.append(case)
        record(ctx, frecs, kernel, dg)
    ctx.coverage["load_stage_family"] = {"kernels": len(fam), "with_load_node_on_the_critical_path": sum(
        1 for c in fam if c["cp"] and any(l["loadnode"] and l["no"] == c["cp"][0][0] for l in c["lines"]) and len(c["cp"]) > 1)}
    depcheck.run_shards(ctx, fam, "loadstage")
    lcd_gen.tie(ctx, GEN_FILES, "PropsGen/C04gen.v",
                lambda: (lcd_gen.run_cp_shards(ctx, recs, "synthetic"), lcd_gen.run_cp_shards(ctx, rrecs, "real", size=4),
                         lcd_gen.run_cp_shards(ctx, frecs, "loadstage")))
    depcheck.run_shards(ctx, real, "real", size=2)
    escalate(ctx)


def escalate(ctx):
    """A proof obligation is broken (the translation of get_critical_path failed closed, a theorem about it no longer checks, or model
    and implementation disagree) and no concrete failing input has been found yet: search with a several times larger budget."""
    if not ctx.broken() or any(not v["known"] for v in ctx.violations):
        return
    n = 6 * ctx.n(140, 600)
    ctx.log("broken obligation without a failing input so far: %d more synthetic kernels through the brute-force chain oracle" % n)
    done = 0
    while done < n and not any(not v["known"] for v in ctx.violations):
        for case, kernel, dg, isa, gl, pipe in c04_family.guarded_synthetic(ctx, 60, maxlen=12):
            ctx.count()
            depcheck.cp_oracle(ctx, case)
        done += 60
    ctx.coverage["escalated_search_kernels"] = done


def replay(ctx, obj):
    r = obj["replay"]
    if r.get("db"):
        pipe = deps.Pipeline(ctx, r["isa"], r["db"]["isa_yaml"], r["db"]["arch_yaml"])
    elif r.get("origin"):
        path, arch = r["origin"].split(" on ")
        pipe = deps.Pipeline(ctx, r["isa"], arch=arch)
    else:
        return
    try:
        case, kernel, dg = deps.build_case(pipe, r["text"], r["flagdeps"], reduce=not r.get("db"))
    except Exception as e:  # noqa
        ctx.count()
        ctx.violation(obj["key"], "replay raises %r" % e, r)
        return
    case["db"] = r.get("db")
    ctx.count()
    depcheck.cp_oracle(ctx, case)
