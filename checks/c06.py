"""C06 -- store-to-load dependencies through provably equal addresses, on both ISAs.
Theorems: Props/C06.v (a link implies equal addresses for every register file, the register-change tracking is sound,
shape mismatch / symbolic displacement / different displacement give no link, a later store to the operand ends the scan).
X: Model/Deps.v = KernelDG (edges incl. store->load edges and weights) on generated store/load kernels.
T: KernelDG.is_memload / is_memstore / _update_reg_changes / find_depending (and is_read / is_written) are regenerated from the current
   source on every run (tools/gen_deps.py -> Gen/DepsGen.v); PropsGen/C03deps.v proves them equal to the hand model on every input of
   the model's types, PropsGen/C06deps.v restates the C06 theorems for them; the regenerated text is cross-checked against the Python
   methods on dumps of the real objects of this run's kernels (harness/deps_gen.py).
Search: an independent symbolic tracker (origin register + offset per register) decides which loads provably alias the store;
concrete executions on random register files refute spurious links."""
import depcheck
import deps
import deps_gen

FINISH = dict(level="proof",
              rule="generated kernels: one store, 0-3 instructions that bump / copy / clobber address registers (x86 add/sub immediate, inc/dec, "
                   "mov copy; AArch64 add/sub immediate incl. copy+offset, pre/post-index loads), optionally a second store to the same operand, "
                   "then a load whose operand is provably equal in about half the cases; every addressing shape; both ISAs; shipped models; "
                   "non-trivial = the load is provably equal or differs only in displacement")

X86_MODELS = ["zen2", "zen3", "zen4", "spr", "icx", "hsw", "snb", "ivb", "icl", "zen1"]
A64_MODELS = ["a64fx", "tx2", "n1", "a72", "tsv110", "m1", "v2"]


class _Script:
    """random-like source that replays a fixed list of choices for the `mids` loop (exhaustive small family)"""
    def __init__(self, rng, script):
        self.rng, self.script = rng, list(script)


def gen(rng, isa, script=None, load_via=None):
    """returns (text, info).  script: optional list of ('add'|'sub'|'copy', R, R2orK) replacing the random mids;
    load_via: register the load must go through (if its origin is the store base)"""
    regs = ["rax", "rbx", "rcx"] if isa == "x86" else ["x1", "x2", "x3"]
    other = ["r10", "r11"] if isa == "x86" else ["x10", "x11"]
    B = rng.choice(regs)
    I = rng.choice([None, None] + [r for r in regs if r != B])
    S = rng.choice([1, 2, 4, 8]) if I else 1
    D = rng.choice([None, 0, 8, 16, -8, 24])
    if isa == "aarch64" and I:
        D = None            # [base, index, lsl #s] has no displacement

    def opnd(b, i, s, d):
        if isa == "x86":
            return ("" if d is None else str(d)) + "(%" + b + ((",%" + i + "," + str(s)) if i else "") + ")"
        if i:
            sh = {1: 0, 2: 1, 4: 2, 8: 3}[s]
            return "[%s, %s%s]" % (b, i, ", lsl #%d" % sh if sh else "")
        return "[%s]" % b if d is None else "[%s, #%d]" % (b, d)

    lines = []
    env = {r: (r, 0) for r in regs}       # register -> (origin, offset) | None
    # the store is a plain store or (x86) a read-modify-write instruction, whose memory operand is NOT the first
    # destination operand the dependency scan walks (flags come first)
    store_fmt = rng.choice(["movq %%rdx, %s", "movq %%rdx, %s", "addq %%rdx, %s", "subq $1, %s"]) if isa == "x86" else "str x9, %s"
    store_txt = store_fmt % opnd(B, I, S, D)
    lines.append(store_txt)
    killed = False
    kill_lines = []
    if script is not None:
        I, S = None, 1
        lines[0] = store_txt = store_fmt % opnd(B, None, 1, D)
        for op, R, X in script:
            if op == "add":
                lines.append("addq $%d, %%%s" % (X, R) if isa == "x86" else "add %s, %s, #%d" % (R, R, X))
                if env[R]:
                    env[R] = (env[R][0], env[R][1] + X)
            elif op == "sub":
                lines.append("subq $%d, %%%s" % (X, R) if isa == "x86" else "sub %s, %s, #%d" % (R, R, X))
                if env[R]:
                    env[R] = (env[R][0], env[R][1] - X)
            else:   # copy X -> R
                lines.append("movq %%%s, %%%s" % (X, R) if isa == "x86" else "add %s, %s, #0" % (R, X))
                env[R] = env[X]
    for _ in range(0 if script is not None else rng.choice([0, 1, 1, 2, 3, 4, 5])):
        k = rng.random()
        R = rng.choice(regs)
        K = rng.choice([8, 16, 4, 32])
        if k < 0.25:
            lines.append(("addq $%d, %%%s" if isa == "x86" else "add {0}, {0}, #{1}").format(R, K) if isa != "x86" else "addq $%d, %%%s" % (K, R))
            if env[R]:
                env[R] = (env[R][0], env[R][1] + K)
        elif k < 0.45:
            lines.append("subq $%d, %%%s" % (K, R) if isa == "x86" else "sub %s, %s, #%d" % (R, R, K))
            if env[R]:
                env[R] = (env[R][0], env[R][1] - K)
        elif k < 0.55 and isa == "x86":
            up = rng.random() < 0.5
            lines.append(("incq %%%s" if up else "decq %%%s") % R)
            if env[R]:
                env[R] = (env[R][0], env[R][1] + (1 if up else -1))
        elif k < 0.7:
            R2 = rng.choice([r for r in regs if r != R])
            if isa == "x86":
                lines.append("movq %%%s, %%%s" % (R2, R))
                env[R] = env[R2]
            else:
                lines.append("add %s, %s, #%d" % (R, R2, K))
                env[R] = (env[R2][0], env[R2][1] + K) if env[R2] else None
        elif k < 0.8:
            lines.append(("imulq %%%s, %%%s" % (other[0], R)) if isa == "x86" else "mul %s, %s, %s" % (R, R, other[0]))
            env[R] = None
        elif k < 0.86 and isa == "x86":
            # a write to the 32-bit part of an address register: the full register is no longer known
            lines.append("addl $%d, %%e%s" % (K, R[1:]))
            env[R] = None
        elif k < 0.9:
            lines.append(("addq %%%s, %%%s" % (other[0], other[1])) if isa == "x86" else "add %s, %s, %s" % (other[1], other[1], other[0]))
        else:
            # a second store to the very same operand text ends the first store's search
            if all(env[r] == (r, 0) for r in [B] + ([I] if I else [])):
                # ... also when it is a store of ANOTHER kind (plain store vs read-modify-write) to the textually identical operand
                kill_fmt = rng.choice(["movq %%rdx, %s", "addq %%rdx, %s", "subq $1, %s", "movq %%r11, %s"]) if isa == "x86" else rng.choice(["str x9, %s", "str x11, %s"])
                kill_lines.append(len(lines))
                lines.append(kill_fmt % opnd(B, I, S, D))
                killed = True
                # "in between" now means between THIS store and the load: copies made earlier are not tracked
                env = {r: (r, 0) for r in regs}
    # the load
    want_equal = rng.random() < 0.55
    cands = [r for r in regs if env[r] and env[r][0] == B]
    if load_via is not None:
        cands = [r for r in cands if r == load_via]
        want_equal = bool(cands) and want_equal
    if want_equal and cands and (not I or any(env[r] and env[r][0] == I for r in regs)):
        B2 = rng.choice(cands)
        I2 = rng.choice([r for r in regs if env[r] and env[r][0] == I]) if I else None
        S2 = S
        need = (D or 0) - env[B2][1] - (env[I2][1] * S if I2 else 0)
        D2 = need if (need != 0 or rng.random() < 0.5) else None
        if isa == "aarch64" and I2 and need != 0:
            want_equal = False
            D2 = None
    else:
        want_equal = False
        B2 = rng.choice(regs)
        I2 = rng.choice([None, I] + regs) if I else rng.choice([None, None, rng.choice(regs)])
        if I2 == B2:
            I2 = None
        S2 = rng.choice([S, 1, 8]) if I2 else 1
        D2 = rng.choice([D, 0, 8, 16, None])
        if isa == "aarch64" and I2:
            D2 = None
    lines.append(("movq %s, %%rsi" if isa == "x86" else "ldr x12, %s") % opnd(B2, I2, S2, D2))
    # independent verdict: provably equal in the property's sense?
    eq = False
    if env[B2] and env[B2][0] == B and ((I is None) == (I2 is None)):
        if I is None:
            eq = (D or 0) == (D2 or 0) + env[B2][1]
        elif env[I2] and env[I2][0] == I and S2 == S:
            eq = (D or 0) == (D2 or 0) + env[B2][1] + env[I2][1] * S
    if isa == "x86" and script is None and rng.random() < 0.3:
        # register names are case-insensitive: a hand-written kernel in upper case, analysed in the same process as lower-case ones
        import re as _re
        lines = [_re.sub(r"%[a-z0-9]+", lambda m: m.group(0).upper(), l) for l in lines]
        store_txt = _re.sub(r"%[a-z0-9]+", lambda m: m.group(0).upper(), store_txt)
    return "\n".join(lines) + "\n", {"equal": eq, "killed": killed, "store_copies": sorted(set([i for i, l in enumerate(lines) if l == store_txt] + kill_lines)),
                                     "n": len(lines), "env": {k: v for k, v in env.items()}, "store": (B, I, S, D), "load": (B2, I2, S2, D2)}


def gen_wb(rng):
    """AArch64 kernels with pre-/post-indexed (write-back) addressing on the store, in between, and on the load itself.
    returns (text, equal?) -- equal: the last line's load provably reads the location the first line stores to.
    Symbolic interpretation: register -> (origin register, constant offset) | None (unknown)."""
    regs = ["x1", "x2", "x3"]
    env = {r: (r, 0) for r in regs}
    B = rng.choice(regs)
    D = rng.choice([8, 16, -8, 24])
    P = rng.choice([8, 16, 32])
    form = rng.choice(["base", "disp", "pre", "post", "post", "pre"])
    if form == "base":
        lines, a_s = ["str x9, [%s]" % B], 0
    elif form == "disp":
        lines, a_s = ["str x9, [%s, #%d]" % (B, D)], D
    elif form == "pre":
        lines, a_s = ["str x9, [%s, #%d]!" % (B, D)], D
        env[B] = (B, D)
    else:
        lines, a_s = ["str x9, [%s], #%d" % (B, P)], 0
        env[B] = (B, P)

    def bump(r, k):
        if env[r]:
            env[r] = (env[r][0], env[r][1] + k)
    for _ in range(rng.choice([0, 0, 1, 1, 2, 3])):
        R = rng.choice([B, B, rng.choice(regs)])
        K = rng.choice([8, 16, 4])
        k = rng.random()
        if k < 0.2:
            lines.append("add %s, %s, #%d" % (R, R, K)); bump(R, K)
        elif k < 0.35:
            lines.append("sub %s, %s, #%d" % (R, R, K)); bump(R, -K)
        elif k < 0.55:
            lines.append("ldr x13, [%s], #%d" % (R, K)); bump(R, K)
        elif k < 0.72:
            lines.append("ldr x13, [%s, #%d]!" % (R, K)); bump(R, K)
        elif k < 0.8:
            lines.append("ldr x13, [%s, #%d]" % (R, K))
        elif k < 0.88:
            lines.append("mul %s, %s, x10" % (R, R)); env[R] = None
        elif k < 0.94:
            R2 = rng.choice([r for r in regs if r != R])
            lines.append("add %s, %s, #%d" % (R, R2, K)); env[R] = (env[R2][0], env[R2][1] + K) if env[R2] else None
        else:
            lines.append("add x11, x11, x10")
    cands = [r for r in regs if env[r] and env[r][0] == B]
    want = rng.random() < 0.6 and cands
    B2 = rng.choice(cands) if want else rng.choice(regs)
    need = (a_s - env[B2][1]) if (env[B2] and env[B2][0] == B) else rng.choice([0, 8])
    if not want and rng.random() < 0.7:
        need += rng.choice([8, -8, 16])
    lform = rng.choice(["plain", "plain", "pre", "post"])
    if lform == "post" and need != 0:
        lform = "plain"
    if lform == "pre" and need == 0:
        lform = "plain"
    if lform == "post":
        lines.append("ldr x12, [%s], #%d" % (B2, P)); a_l = 0
    elif lform == "pre":
        lines.append("ldr x12, [%s, #%d]!" % (B2, need)); a_l = need
    else:
        lines.append(("ldr x12, [%s, #%d]" % (B2, need)) if need or rng.random() < 0.5 else "ldr x12, [%s]" % B2); a_l = need
    eq = bool(env[B2]) and env[B2][0] == B and env[B2][1] + a_l == a_s
    return "\n".join(lines) + "\n", eq


def concrete_differs(info, rng):
    """random register files: do store and load addresses differ?  (refutes a spurious link)"""
    B, I, S, D = info["store"]
    B2, I2, S2, D2 = info["load"]
    for _ in range(3):
        rho0 = {r: rng.randrange(1 << 20, 1 << 30) * 64 for r in info["env"]}
        a0 = rho0[B] + (rho0[I] * S if I else 0) + (D or 0)

        def val(r):
            e = info["env"][r]
            return None if e is None else rho0[e[0]] + e[1]
        vb = val(B2)
        vi = val(I2) if I2 else 0
        if vb is None or vi is None:
            return True            # unknown value: not provably equal
        if vb + vi * S2 + (D2 or 0) != a0:
            return True
    return False


def run(ctx):
    depcheck.prepare(ctx, "Props/C06.v")
    import models
    avail = models.nonempty_archs()
    cases = []
    items = []          # real objects for the translator cross-check (deps_gen)
    hist = {"equal": 0, "different": 0, "killed": 0}
    pipes = {}
    n = ctx.n(220, 4000)
    for i in range(n):
        isa = ctx.rng.choice(["x86", "aarch64"])
        ms = [m for m in (X86_MODELS if isa == "x86" else A64_MODELS) if m in avail]
        arch = ctx.rng.choice(ms[:4] if ctx.tier == "quick" else ms)
        if arch not in pipes:
            pipes[arch] = deps.Pipeline(ctx, isa, arch=arch)
        pipe = pipes[arch]
        text, info = gen(ctx.rng, isa)
        rep = {"isa": isa, "arch": arch, "text": text}
        try:
            case, kernel, dg = deps.build_case(pipe, text, False, with_lcd=False, with_cp=False)
        except Exception as e:  # noqa
            ctx.violation("memdep-raises", "analysis of a store/load kernel raises %r" % e, rep)
            continue
        case["origin"] = "generated on " + arch
        items.append((kernel, dg, isa, pipe.sem, "generated on %s: %s" % (arch, text.replace("\n", " ; "))))
        ctx.count()
        last = info["n"]
        stores = [s + 1 for s in info["store_copies"]]
        links = {u: w for (u, ld, v), w in case["edges"].items() if not ld and v == last and u in stores}
        first = stores[0]
        live = stores[-1]                      # the store whose search is not ended by a later identical store
        if info["equal"]:
            hist["equal"] += 1
            ctx.nontriv(text)
            if live not in links:
                ctx.violation("store-load-edge-missing", "%s: load provably reads the location stored by line %d but no dependency: %s"
                              % (arch, live, text.replace("\n", " ; ")), rep)
            else:
                lat = [l for l in case["lines"] if l["no"] == live][0]["lat_wo"]
                if abs(links[live] - (lat + case["fwd"])) > 1e-12:
                    ctx.violation("store-load-edge-weight", "%s: store->load edge weighs %s, store latency %s + forwarding %s"
                                  % (arch, links[live], lat, case["fwd"]), rep)
            if info["killed"] and any(st in links for st in stores[:-1]):
                hist["killed"] += 1
                ctx.violation("store-load-edge-after-later-store", "%s: a later store to the same operand did not end the search: %s"
                              % (arch, text.replace("\n", " ; ")), rep)
        else:
            hist["different"] += 1
            if links and concrete_differs(info, ctx.rng):
                ctx.violation("store-load-edge-spurious", "%s: dependency reported although the addresses differ: %s"
                              % (arch, text.replace("\n", " ; ")), rep)
        if len(cases) < 3:
            ctx.sample({"arch": arch, "kernel": text, "provably_equal": info["equal"], "links": links})
        cases.append(case)
    # letter case: register names are case-insensitive, and one process sees hand-written upper-case kernels next to compiler output.
    # A write to the 32/16/8-bit part of the base register between store and reload makes the address unknown in EITHER spelling and in
    # either order of analysis (a name-keyed memo filled by the first spelling must not decide for the second).
    if "zen2" in avail or "hsw" in avail:
        arch = "zen2" if "zen2" in avail else "hsw"
        pipe = pipes.setdefault(arch, deps.Pipeline(ctx, "x86", arch=arch))
        subs = {"rbx": ["ebx", "bx", "bl"], "rcx": ["ecx", "cx", "cl"], "r9": ["r9d", "r9w", "r9b"]}
        order = [(R, sub, up) for R in subs for sub in subs[R] for up in (True, False)]
        ctx.rng.shuffle(order)
        for R, sub, up in order:
            mn = {"e": "addl", "r9d": "addl"}.get(sub[:1] if sub[0] == "e" else sub, "addw" if sub.endswith(("x", "w")) else "addb")
            lines = ["movq %%rdx, 16(%%%s)" % R, "%s $4, %%%s" % (mn, sub), "movq 16(%%%s), %%rsi" % R, "addq %rsi, %rdx"]
            if up:
                import re as _re
                lines = [_re.sub(r"%[a-z0-9]+", lambda m: m.group(0).upper(), l) for l in lines]
            text = "\n".join(lines) + "\n"
            rep = {"isa": "x86", "arch": arch, "text": text}
            try:
                case, kernel, dg = deps.build_case(pipe, text, False, with_lcd=False, with_cp=False)
            except Exception as e:  # noqa
                ctx.violation("memdep-raises", "analysis of a store/load kernel raises %r" % e, rep)
                continue
            ctx.count()
            if any((not ld) and u == 1 and v == 3 for (u, ld, v) in case["edges"]):
                ctx.violation("store-load-edge-spurious", "%s: dependency reported although %%%s (part of the base register) is written between store and reload: %s"
                              % (arch, sub.upper() if up else sub, text.replace("\n", " ; ")), rep)
        ctx.coverage["letter_case_subregister_kernels"] = len(order)
    # exhaustive small family: every sequence of <= 4 bumps/copies over two address registers, load through either
    import itertools
    fam = []
    for isa in ("x86", "aarch64"):
        a, b = ("rax", "rbx") if isa == "x86" else ("x1", "x2")
        ops = [("add", a, 8), ("add", b, 8), ("copy", b, a), ("copy", a, b), ("sub", a, 16)]
        for L in range(1, 5):
            for seq in itertools.product(ops, repeat=L):
                if any(o[0] == "copy" for o in seq):
                    for via in (a, b):
                        fam.append((isa, seq, via))
    ctx.rng.shuffle(fam)
    ctx.coverage["scripted_family_size"] = len(fam)
    for isa, seq, via in fam[:ctx.n(260, len(fam))]:
        ms = [m for m in (X86_MODELS if isa == "x86" else A64_MODELS) if m in avail]
        arch = ms[0]
        if arch not in pipes:
            pipes[arch] = deps.Pipeline(ctx, isa, arch=arch)
        for attempt in range(2):
            text, info = gen(ctx.rng, isa, script=seq, load_via=via)
            if info["load"][0] == via:
                break
        rep = {"isa": isa, "arch": arch, "text": text}
        try:
            case, kernel, dg = deps.build_case(pipes[arch], text, False, with_lcd=False, with_cp=False)
        except Exception as e:  # noqa
            ctx.violation("memdep-raises", "analysis of a store/load kernel raises %r" % e, rep)
            continue
        case["origin"] = "scripted on " + arch
        items.append((kernel, dg, isa, pipes[arch].sem, "scripted on %s: %s" % (arch, text.replace("\n", " ; "))))
        ctx.count()
        last = info["n"]
        links = {u: w for (u, ld, v), w in case["edges"].items() if not ld and v == last and u == 1}
        if info["equal"]:
            hist["equal"] += 1
            ctx.nontriv(text)
            if 1 not in links:
                ctx.violation("store-load-edge-missing", "%s: load provably reads the location stored by line 1 but no dependency: %s"
                              % (arch, text.replace("\n", " ; ")), rep)
        else:
            hist["different"] += 1
            if links and concrete_differs(info, ctx.rng):
                ctx.violation("store-load-edge-spurious", "%s: dependency reported although the addresses differ: %s"
                              % (arch, text.replace("\n", " ; ")), rep)
        cases.append(case)
    # AArch64 write-back family: pre-/post-indexed store, pre-/post-indexed accesses in between, pre-/post-indexed load
    wb_hist = {"equal": 0, "different": 0}
    for i in range(ctx.n(120, 1500)):
        ms = [m for m in A64_MODELS if m in avail]
        arch = ctx.rng.choice(ms[:4] if ctx.tier == "quick" else ms)
        if arch not in pipes:
            pipes[arch] = deps.Pipeline(ctx, "aarch64", arch=arch)
        text, eq = gen_wb(ctx.rng)
        rep = {"isa": "aarch64", "arch": arch, "text": text}
        try:
            case, kernel, dg = deps.build_case(pipes[arch], text, False, with_lcd=False, with_cp=False)
            instrs = [k for k in kernel if k.mnemonic is not None]
            found = [d.line_number for d, f in dg.find_depending(instrs[0], instrs[1:]) if "storeload_dep" in f]
        except Exception as e:  # noqa
            ctx.violation("memdep-raises", "analysis of a store/load kernel raises %r" % e, rep)
            continue
        case["origin"] = "write-back family on " + arch
        items.append((kernel, dg, "aarch64", pipes[arch].sem, "write-back family on %s: %s" % (arch, text.replace("\n", " ; "))))
        ctx.count()
        last = instrs[-1].line_number
        wb_hist["equal" if eq else "different"] += 1
        if eq:
            ctx.nontriv(text)
            if last not in found:
                ctx.violation("store-load-edge-missing", "%s: load provably reads the location stored by line 1 but no dependency: %s"
                              % (arch, text.replace("\n", " ; ")), rep)
        elif last in found:
            ctx.violation("store-load-edge-spurious", "%s: dependency reported although the addresses differ: %s"
                          % (arch, text.replace("\n", " ; ")), rep)
        cases.append(case)
    ctx.coverage["write_back_family"] = wb_hist
    # sub-register writes to an address register (addl $8,%eax between accesses through %rax; add w1,w1,#4 vs [x1]): the
    # tracker records the change under the written name only, so the wider register still counts as unchanged
    subfam = []
    for d in ("", "8"):
        for mid in ("addl $8, %eax", "subl $16, %eax", "incl %eax", "movl %ebx, %eax", "addw $8, %ax", "xorl %eax, %eax"):
            subfam.append(("x86", "movq %%rdx, %s(%%rax)\n%s\nmovq %s(%%rax), %%rsi\n" % (d, mid, d)))
    for d in ("[x1]", "[x1, #8]"):
        for mid in ("add w1, w1, #4", "sub w1, w1, #8", "mov w1, w3"):
            subfam.append(("aarch64", "str x9, %s\n%s\nldr x12, %s\n" % (d, mid, d)))
    nsub = 0
    for isa, text in subfam:
        ms = [m for m in (X86_MODELS if isa == "x86" else A64_MODELS) if m in avail]
        arch = ms[0]
        if arch not in pipes:
            pipes[arch] = deps.Pipeline(ctx, isa, arch=arch)
        rep = {"isa": isa, "arch": arch, "text": text}
        try:
            case, kernel, dg = deps.build_case(pipes[arch], text, False, with_lcd=False, with_cp=False)
            instrs = [k for k in kernel if k.mnemonic is not None]
            found = [d_.line_number for d_, f in dg.find_depending(instrs[0], instrs[1:]) if "storeload_dep" in f]
        except Exception as e:  # noqa
            ctx.violation("memdep-raises", "analysis of a store/load kernel raises %r" % e, rep)
            continue
        case["origin"] = "sub-register bump on " + arch
        items.append((kernel, dg, isa, pipes[arch].sem, "sub-register bump on %s: %s" % (arch, text.replace("\n", " ; "))))
        cases.append(case)
        ctx.count()
        if instrs[-1].line_number in found:
            nsub += 1
            ctx.violation("store-load-edge-spurious:subregister-write", "%s: dependency reported although a sub-register of the address register "
                          "was written in between (the wider register is still treated as unchanged): %s" % (arch, text.replace("\n", " ; ")), rep)
    ctx.coverage["subregister_family"] = {"kernels": len(subfam), "spurious_links": nsub}
    # symbolic displacement (crash class fixed in /repo)
    for isa, arch, text in (("x86", "zen2", "movq %rax, foo(%rip)\nmovq 8(%rbx), %rcx\n"), ("aarch64", "a64fx", "str x1, [x2, :lo12:foo]\nldr x3, [x4, #8]\n")):
        if arch in avail:
            try:
                pipe = pipes.get(arch) or deps.Pipeline(ctx, isa, arch=arch)
                case, kernel, dg = deps.build_case(pipe, text, False, with_lcd=False, with_cp=False)
                case["origin"] = "symbolic displacement on " + arch
                cases.append(case)
                ctx.count()
            except Exception as e:  # noqa
                ctx.violation("memdep-symbolic-displacement-raises", "%s: %r on %s" % (arch, e, text.replace("\n", " ; ")), {"isa": isa, "arch": arch, "text": text})
    ctx.coverage["case_kinds"] = hist
    depcheck.run_shards(ctx, cases, "generated", size=20)
    deps_gen.run(ctx, items, ["PropsGen/C03deps.v", "PropsGen/C06deps.v"])
    regchanges(ctx)


def regchanges(ctx):
    """get_reg_changes + the ISA `operation:` strings inside the model (harness/regchg.py, PropsGen/C06ops.v)"""
    import regchg
    regchg.run(ctx)


def replay(ctx, obj):
    r = obj["replay"]
    if r.get("regchg"):
        import regchg
        return regchg.replay(ctx, r)
    if "arch" not in r:
        return
    pipe = deps.Pipeline(ctx, r["isa"], arch=r["arch"])
    try:
        case, kernel, dg = deps.build_case(pipe, r["text"], False, with_lcd=False, with_cp=False)
        ctx.log("replay edges: %s" % sorted(case["edges"].items()))
    except Exception as e:  # noqa
        ctx.violation(obj["key"], "replay raises %r" % e, r)
    ctx.count()
