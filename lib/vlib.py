"""Common machinery of the OSACA verification checks.

A check module (checks/cXX.py) exposes  run(ctx)  and  replay(ctx, obj).  It records
 * proof obligations (theorems compiled by coqc, translator runs, correspondence shards)
   through ctx.obligation(...),
 * concrete failing inputs through ctx.violation(key, what, replay_obj),
and ctx.finish() turns them into the verdict, the evidence file and the exit status
(DESIGN.md section 0.3).
"""
import fcntl
import hashlib
import json
import os
import random
import re
import shutil
import subprocess
import sys
import tempfile
import time

VERIF = os.path.dirname(os.path.dirname(os.path.abspath(__file__)))
COQ = os.path.join(VERIF, "coq")
REPO = os.environ.get("VERIF_REPO", "/repo")
GUARD = "RRZE_HPC_OSACA_VERIF"
PY = "/venv/bin/python"

TRUSTED_BASE_COMMON = [
    "Coq 8.16.1 kernel (coqc, vm_compute; no native_compute)",
    "no axioms declared by this development (grep + Print Assumptions on every run)",
]


def sh(cmd, timeout=600, cwd=None, env=None, inp=None):
    """Run a command, return (rc, output). Never raises on timeout: rc = 124."""
    try:
        p = subprocess.run(
            cmd, cwd=cwd, env=env, input=inp, timeout=timeout,
            stdout=subprocess.PIPE, stderr=subprocess.STDOUT, text=True,
            shell=isinstance(cmd, str),
        )
        return p.returncode, p.stdout
    except subprocess.TimeoutExpired as e:
        out = e.stdout or ""
        if isinstance(out, bytes):
            out = out.decode("utf-8", "replace")
        return 124, out + "\n[timeout after %ss]" % timeout


def repo_env(extra=None, home=None):
    """Environment for running the implementation: PYTHONPATH=REPO, private HOME, hooks on."""
    env = dict(os.environ)
    env["PYTHONPATH"] = REPO
    env["PYTHONHASHSEED"] = "0"
    env["PYTHONDONTWRITEBYTECODE"] = "1"
    env[GUARD] = "1"
    if home:
        env["HOME"] = home
    if extra:
        env.update(extra)
    return env


def code_hash():
    """Hash of every .py and .yml file under REPO/osaca (keys the scratch data copies)."""
    h = hashlib.sha256()
    for root, dirs, files in sorted(os.walk(os.path.join(REPO, "osaca"))):
        dirs.sort()
        if "__pycache__" in root:
            continue
        for f in sorted(files):
            if f.endswith(".py") or f.endswith(".yml"):
                p = os.path.join(root, f)
                h.update(p.encode())
                with open(p, "rb") as fh:
                    h.update(fh.read())
    return h.hexdigest()[:16]


class Ctx:
    def __init__(self, prop, tier="quick", seed=None):
        self.prop = prop
        self.tier = tier
        if seed is None:
            seed = int(os.environ.get("VERIF_SEED", "20260929"))
        self.seed = seed
        self.rng = random.Random("%s/%s" % (prop, seed))
        self.t0 = time.time()
        self.scratch = tempfile.mkdtemp(prefix="osaca-verif.%s." % prop)
        self.home = os.path.join(self.scratch, "home")
        os.makedirs(self.home)
        self.obligations = []      # dicts: name kind ok detail
        self.violations = []       # dicts: key what replay known
        self.coverage = {}
        self.assumptions = []
        self.trusted = list(TRUSTED_BASE_COMMON)
        self.samples = []
        self.evaluations = 0
        self.nontrivial = set()
        self.log_lines = []
        self.known = load_known()
        self.checker_cmds = []
        self.print_assumptions = {}

    # ------------------------------------------------------------------ logging
    def log(self, *a):
        s = " ".join(str(x) for x in a)
        self.log_lines.append(s)
        print("[%s %6.1fs] %s" % (self.prop, time.time() - self.t0, s), flush=True)

    # --------------------------------------------------------------- quick/thorough
    def n(self, quick, thorough):
        return thorough if self.tier == "thorough" else quick

    # ------------------------------------------------------------------ obligations
    def obligation(self, name, kind, ok, detail=""):
        self.obligations.append({"name": name, "kind": kind, "ok": bool(ok), "detail": detail[-4000:]})
        if not ok:
            self.log("OBLIGATION BROKEN: %s (%s)\n%s" % (name, kind, detail[-3000:]))

    def broken(self):
        return [o for o in self.obligations if not o["ok"]]

    # ------------------------------------------------------------------ cases / coverage
    def count(self, n=1):
        self.evaluations += n

    def nontriv(self, key):
        self.nontrivial.add(key if isinstance(key, (str, int, tuple)) else json.dumps(key, sort_keys=True, default=str))

    def sample(self, s, limit=6):
        if len(self.samples) < limit:
            self.samples.append(s)

    # ------------------------------------------------------------------ violations
    def violation(self, key, what, replay_obj):
        """A concrete failing input.  key identifies the *kind* of failure for the
        known-findings file; replay_obj must let --replay reproduce it."""
        for v in self.violations:
            if v["key"] == key:
                v["count"] += 1
                return
        known = any(k.get("status") == "known" and k["property"] == self.prop and k["key"] == key
                    for k in self.known)
        path = None
        if not known:
            d = os.path.join(VERIF, "replays", self.prop)
            os.makedirs(d, exist_ok=True)
            blob = json.dumps({"property": self.prop, "key": key, "what": what, "replay": replay_obj},
                              indent=1, sort_keys=True, default=str)
            path = os.path.join(d, hashlib.sha1(blob.encode()).hexdigest()[:12] + ".json")
            with open(path, "w") as f:
                f.write(blob)
        self.violations.append({"key": key, "what": what, "replay": path, "known": known, "count": 1})
        self.log(("KNOWN " if known else "NEW ") + "failing input: " + key + " -- " + what)

    # ------------------------------------------------------------------ coq
    def coqc(self, vfile, timeout=600, extra_q=()):
        cmd = "ulimit -s unlimited 2>/dev/null; exec timeout %d coqc -q -w -all -Q %s OV %s %s" % (
            timeout, COQ, " ".join("-Q %s %s" % (d, n) for d, n in extra_q), vfile)
        t = time.time()
        rc, out = sh(cmd, timeout=timeout + 30, cwd=os.path.dirname(vfile))
        self.checker_cmds.append("coqc -Q coq OV " + os.path.relpath(vfile, VERIF) if vfile.startswith(VERIF) else "coqc <cases>")
        return rc == 0, out, time.time() - t

    def coqc_gen(self, vfile, timeout=600):
        """coqc for a regenerated definitions file under coq/Gen that several checks share: serialised by a file lock, and
        skipped when the compiled file is newer than the source and than every compiled static file (same text, same
        dependencies: nothing to re-check -- the theorems ABOUT it are recompiled by their own check every run)."""
        vo = vfile[:-2] + ".vo"
        with open(os.path.join(COQ, ".gen.lock"), "w") as lf:
            fcntl.flock(lf, fcntl.LOCK_EX)
            try:
                newest = max(os.path.getmtime(os.path.join(d, f)) for sub in ("Model", "Proofs") for d in [os.path.join(COQ, sub)]
                             for f in os.listdir(d) if f.endswith(".vo"))
                if os.path.getmtime(vo) > os.path.getmtime(vfile) and os.path.getmtime(vo) > newest:
                    return True, "", 0.0
            except (OSError, ValueError):
                pass
            return self.coqc(vfile, timeout)

    def ensure_static(self):
        """Build (or re-check freshness of) the static part of the development."""
        ok, out = build_static()
        self.obligation("static development builds (make, full .vo)", "build", ok, out)
        bad = hygiene_scan()
        self.obligation("no Admitted/admit/Axiom/Parameter/Conjecture/section-less Variable/guard switch in the development", "hygiene", not bad, "\n".join(bad))
        return ok

    def compile_theorems(self, relpath, theorems=None, timeout=900):
        """coqc a property file; every `Theorem`/`Corollary` in it is an obligation."""
        vfile = os.path.join(COQ, relpath)
        src = open(vfile).read()
        names = theorems or re.findall(r"^(?:Theorem|Corollary)\s+([A-Za-z0-9_']+)", src, re.M)
        ok, out, dt = self.coqc(vfile, timeout)
        for nme in names:
            self.obligation("theorem %s (%s)" % (nme, relpath), "theorem", ok, "" if ok else out)
        if ok:
            self.print_assumptions[relpath] = parse_assumptions(out)
        self.log("coqc %s: %s in %.1fs (%d theorems)" % (relpath, "ok" if ok else "FAILED", dt, len(names)))
        return ok, out

    def coq_eval(self, name, text, timeout=600):
        """Compile a generated .v file in the scratch dir; return (ok, printed strings).
        Each `Eval vm_compute in (<string expr>)` yields one entry."""
        d = os.path.join(self.scratch, "cases")
        os.makedirs(d, exist_ok=True)
        vfile = os.path.join(d, name + ".v")
        with open(vfile, "w") as f:
            f.write(text)
        ok, out, dt = self.coqc(vfile, timeout, extra_q=[(d, "OVC")])
        return ok, (parse_strings(out) if ok else [out]), dt

    def coq_eval_many(self, shards, timeout=600, jobs=16):
        """shards: list of (name, text).  Runs coqc in parallel. Returns list of (ok, strings)."""
        d = os.path.join(self.scratch, "cases")
        os.makedirs(d, exist_ok=True)
        procs = []
        results = [None] * len(shards)
        pending = list(enumerate(shards))
        running = []
        while pending or running:
            while pending and len(running) < jobs:
                i, (name, text) = pending.pop(0)
                vfile = os.path.join(d, name + ".v")
                with open(vfile, "w") as f:
                    f.write(text)
                cmd = "ulimit -s unlimited 2>/dev/null; exec timeout %d coqc -q -w -all -Q %s OV -Q %s OVC %s" % (timeout, COQ, d, vfile)
                p = subprocess.Popen(cmd, shell=True, cwd=d, stdout=subprocess.PIPE, stderr=subprocess.STDOUT, text=True)
                running.append((i, p))
            still = []
            for i, p in running:
                if p.poll() is None:
                    still.append((i, p))
                else:
                    out = p.stdout.read()
                    results[i] = (p.returncode == 0, parse_strings(out) if p.returncode == 0 else [out])
            running = still
            if running:
                time.sleep(0.05)
        self.checker_cmds.append("coqc <%d case shards> (Eval vm_compute)" % len(shards))
        return results

    # ------------------------------------------------------------------ verdict
    def finish(self, level="proof", rule="", extra_cov=None, technique=None):
        wall = time.time() - self.t0
        new = [v for v in self.violations if not v["known"]]
        known = [v for v in self.violations if v["known"]]
        broken = self.broken()
        rc = 0
        for v in known:
            print("KNOWN-FINDING: property=%s %s (%s; %d case(s) this run)" % (self.prop, v["key"], v["what"], v["count"]))
        for v in new:
            print("VIOLATION property=%s replay=%s" % (self.prop, v["replay"]))
            rc = 1
        if broken and not new:
            d = os.path.join(VERIF, "replays", self.prop)
            os.makedirs(d, exist_ok=True)
            blob = json.dumps({"property": self.prop, "key": "broken-obligation",
                               "what": "proof obligation / correspondence no longer checks; the search found no failing input",
                               "broken": broken}, indent=1)
            path = os.path.join(d, "broken-" + hashlib.sha1(blob.encode()).hexdigest()[:12] + ".json")
            with open(path, "w") as f:
                f.write(blob)
            print("VIOLATION property=%s replay=%s no-failing-input-found" % (self.prop, path))
            rc = 1
        cov = {
            "obligations": len(self.obligations),
            "discharged": len(self.obligations) - len(broken),
            "checker_cmd": "; ".join(dict.fromkeys(self.checker_cmds)) or "coqc",
            "trusted_base": self.trusted,
            "evaluations": self.evaluations,
            "distinct_nontrivial": len(self.nontrivial),
            "rule": rule,
            "samples": self.samples or ["(no cases this run)"],
            "obligation_list": [{"name": o["name"], "kind": o["kind"], "ok": o["ok"]} for o in self.obligations],
            "print_assumptions": self.print_assumptions,
            "known_findings_seen": [{"key": v["key"], "what": v["what"], "cases": v["count"]} for v in known],
            "new_violations": [{"key": v["key"], "what": v["what"], "replay": v["replay"], "cases": v["count"]} for v in new],
        }
        cov.update(self.coverage)
        if extra_cov:
            cov.update(extra_cov)
        ev = {
            "property_id": self.prop, "tier": self.tier, "seed": self.seed, "level": level,
            "coverage": cov, "assumptions": self.assumptions, "wall_s": round(wall, 2),
            "violations": len(new) + (1 if broken and not new else 0),
        }
        if "VERIF_NO_EVIDENCE" not in os.environ:
            evdir = os.path.join(VERIF, "evidence") if REPO == "/repo" else os.path.join(VERIF, ".cache", "evidence-mutant")
            os.makedirs(evdir, exist_ok=True)
            with open(os.path.join(evdir, self.prop + ".json"), "w") as f:
                json.dump(ev, f, indent=1, sort_keys=True, default=str)
                f.write("\n")
        self.log("done: %d obligations (%d broken), %d evaluations, %d new / %d known failing-input kinds, exit %d"
                 % (len(self.obligations), len(broken), self.evaluations, len(new), len(known), rc))
        shutil.rmtree(self.scratch, ignore_errors=True)
        return rc


def strip_comments(src):
    out, depth, i = [], 0, 0
    while i < len(src):
        if src.startswith("(*", i):
            depth += 1
            i += 2
        elif src.startswith("*)", i) and depth:
            depth -= 1
            i += 2
        else:
            if not depth:
                out.append(src[i])
            elif src[i] == "\n":
                out.append("\n")
            i += 1
    return "".join(out)


FORBIDDEN = re.compile(r"\b(Admitted|admit|Axiom|Axioms|Parameter|Parameters|Conjecture|Conjectures)\b|Unset\s+Guard|bypass_check|Admit\s+Obligations|Unset\s+Universe\s+Checking|Unset\s+Positivity|type-in-type|impredicative-set")
SECTIONAL = re.compile(r"^\s*(?:Local\s+|Global\s+)?(Variable|Variables|Hypothesis|Hypotheses|Context)\b")


def hygiene_scan(root=None):
    """Every .v file of the development (static and generated): no axiom-declaring command,
    no kernel-check switch, Variable/Hypothesis/Context only inside a Section."""
    bad = []
    for d, dirs, files in os.walk(root or COQ):
        for f in sorted(files):
            if not f.endswith(".v"):
                continue
            path = os.path.join(d, f)
            try:
                text = open(path).read()
            except FileNotFoundError:      # a generated file being replaced by a concurrent check: it is scanned by the run that writes it
                continue
            src = strip_comments(text)
            src = re.sub(r'"(?:[^"]|"")*"', '""', src)
            depth = 0
            for ln, line in enumerate(src.splitlines(), 1):
                if re.match(r"^\s*(Section|Module\s+Type)\b", line):
                    depth += 1
                elif re.match(r"^\s*End\b", line) and depth:
                    depth -= 1
                if FORBIDDEN.search(line):
                    bad.append("%s:%d: %s" % (path, ln, line.strip()))
                elif SECTIONAL.match(line) and depth == 0:
                    bad.append("%s:%d: outside a Section: %s" % (path, ln, line.strip()))
    return bad


def load_known():
    p = os.path.join(VERIF, "known_findings.json")
    if not os.path.exists(p):
        return []
    return json.load(open(p)).get("findings", [])


def build_static():
    lock = os.path.join(COQ, ".build.lock")
    with open(lock, "w") as lf:
        fcntl.flock(lf, fcntl.LOCK_EX)
        if not os.path.exists(os.path.join(COQ, "Makefile")):
            rc, out = sh("coq_makefile -f _CoqProject -o Makefile", cwd=COQ)
            if rc != 0:
                return False, out
        rc, out = sh("ulimit -s unlimited 2>/dev/null; timeout 3000 make -j16 2>&1 | tail -40", timeout=3100, cwd=COQ)
        ok = rc == 0 and "Error" not in out
        return ok, out


def parse_strings(out):
    """Extract the string printed by each `Eval ... in (<string>)`."""
    res = []
    for m in re.finditer(r'^\s+= "(.*?)"\n\s+: string', out, re.M | re.S):
        res.append(m.group(1).replace('""', '"'))
    return res


def parse_assumptions(out):
    """One entry per `Print Assumptions`: 'Closed under the global context' or the list of names it depends on
    (for theorems on the binary64 instance these are kernel primitives such as PrimFloat.add, not axioms of ours)."""
    res = []
    cur = None
    for line in out.splitlines():
        if line.startswith("Closed under the global context"):
            if cur is not None:
                res.append("Axioms: " + ", ".join(cur))
                cur = None
            res.append("Closed under the global context")
        elif line.startswith("Axioms:"):
            if cur is not None:
                res.append("Axioms: " + ", ".join(cur))
            cur = []
        elif cur is not None:
            m = re.match(r"^([A-Za-z_][A-Za-z0-9_.']*)\s*:", line)
            if m:
                cur.append(m.group(1))
            elif line.strip() == "" or not line.startswith(" "):
                if line.strip() and not re.match(r"^\s", line) and ":" not in line:
                    res.append("Axioms: " + ", ".join(cur))
                    cur = None
    if cur is not None:
        res.append("Axioms: " + ", ".join(cur))
    return res


def coq_string(s):
    return '"' + s.replace('"', '""') + '"'
