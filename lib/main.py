"""./check Cxx --tier quick|thorough   |   ./check Cxx --replay <path>"""
import argparse
import importlib
import json
import os
import sys
import traceback

HERE = os.path.dirname(os.path.abspath(__file__))
sys.path.insert(0, HERE)
import vlib  # noqa: E402

# the implementation under test is imported from VERIF_REPO (default /repo), hooks enabled
sys.path.insert(0, vlib.REPO)
os.environ[vlib.GUARD] = "1"
sys.path.insert(0, os.path.join(vlib.VERIF, "checks"))
sys.path.insert(0, os.path.join(vlib.VERIF, "tools"))
sys.path.insert(0, os.path.join(vlib.VERIF, "harness"))


def main():
    ap = argparse.ArgumentParser()
    ap.add_argument("prop")
    ap.add_argument("--tier", default=os.environ.get("VERIF_TIER", "quick"), choices=["quick", "thorough"])
    ap.add_argument("--replay")
    ap.add_argument("--seed", type=int)
    a = ap.parse_args()
    prop = a.prop.upper()
    ctx = vlib.Ctx(prop, a.tier, a.seed)
    os.environ["HOME"] = ctx.home
    mod = importlib.import_module(prop.lower())
    try:
        if a.replay:
            obj = json.load(open(a.replay))
            os.environ["VERIF_NO_EVIDENCE"] = "1"
            mod.replay(ctx, obj)
            rc = ctx.finish(**getattr(mod, "FINISH", {}))
        else:
            mod.run(ctx)
            rc = ctx.finish(**getattr(mod, "FINISH", {}))
    except Exception:
        # an internal error of the machinery is not a verdict about the code: say so loudly
        traceback.print_exc()
        ctx.obligation("check machinery ran to completion", "harness", False, traceback.format_exc())
        rc = ctx.finish(**getattr(mod, "FINISH", {}))
        rc = rc or 2
    sys.exit(rc)


if __name__ == "__main__":
    main()
