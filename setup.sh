#!/bin/sh
# MANIFEST.setup_cmd: build the static part of the Coq development from files on disk only.
set -e
cd "$(dirname "$0")/coq"
rm -f Makefile Makefile.conf .Makefile.d
coq_makefile -f _CoqProject -o Makefile
ulimit -s unlimited 2>/dev/null || true
timeout 3000 make -j16
