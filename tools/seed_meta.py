"""usage: seed_meta.py <dir under seeded/> <property> <caught|missed|caught-after-strengthening> <note>"""
import json, os, sys
d = os.path.join("/verif/seeded", sys.argv[1])
m = json.load(open(os.path.join(d, "meta.json")))
m["property"] = sys.argv[2]
m["verification"] = {
    "outcome": sys.argv[3], "note": sys.argv[4],
    "what_i_ran": "tools/try_seed.sh: demo.py on the changed worktree and on /repo; the stable tests on the changed worktree; VERIF_REPO=<worktree> ./check %s --tier quick" % sys.argv[2],
    "demo_changed_rc": open(os.path.join(d, "demo_changed.rc")).read().strip() if os.path.exists(os.path.join(d, "demo_changed.rc")) else None,
    "demo_unchanged_rc": open(os.path.join(d, "demo_unchanged.rc")).read().strip() if os.path.exists(os.path.join(d, "demo_unchanged.rc")) else None,
    "tests": open(os.path.join(d, "tests.log")).read().strip() if os.path.exists(os.path.join(d, "tests.log")) else None,
    "check_rc": open(os.path.join(d, "check.rc")).read().strip() if os.path.exists(os.path.join(d, "check.rc")) else None,
}
json.dump(m, open(os.path.join(d, "meta.json"), "w"), indent=1)
for f in ("demo_changed.log", "demo_unchanged.log"):
    p = os.path.join(d, f)
    if os.path.exists(p) and os.path.getsize(p) > 20000:
        open(p, "w").write(open(p).read()[:20000] + "\n[truncated]\n")
print("ok", sys.argv[1], sys.argv[3])
