"""Regenerate /verif/MANIFEST.json from the table below (run after adding a check)."""
import json
import os

V = os.path.dirname(os.path.dirname(os.path.abspath(__file__)))
props = [json.loads(l) for l in open(os.path.join(V, "properties.jsonl"))]

CLAIMED = {
    "C12": dict(
        text="is_reg_dependend_of and its helpers (both ISAs) are re-translated from the current Python source into Gallina on every run; Coq proves, by an exhaustive kernel-evaluated sweep over the finite universe stated in the theorem (360 x86 names, 656 AArch64 spellings, both cases), that the translated function equals the hand-written architectural overlap partition, with reflexivity/symmetry/transitivity/cross-family corollaries. The translator is validated exhaustively against the Python original on the same universe each run.",
        note="Trusted: Coq kernel + vm_compute; tools/py2coq.py (cross-checked on all pairs each run); the architectural partition Model/RegArch.v; the pyparsing construction of RegisterOperand is exercised by the oracle sweep, not modelled.",
        technique="Coq finite-domain proof (vm_compute + forallb_forall) over a definition regenerated from source by a fail-closed Python-ast translator",
        ref="DESIGN.md C12"),
    "C10": dict(
        text="Hand-written Gallina parser for the AArch64 sub-language of the property (lexer, token-level parser, line classification, parse_file). Proved for all inputs: parse_file returns exactly the non-blank lines with 1-based numbers and verbatim text; classification is exclusive; numerals/immediates and register-range expansion round-trip; the full-strength round trip is refuted by four witness lines (recorded as known findings against the real parser). The model is tied to the code by differential correspondence on thousands of rendered and malformed lines per run; the round trip on the implementation itself is the independent oracle.",
        note="Trusted: Coq kernel; Python mirror of `render` (cross-checked in every shard); pyparsing behaviour outside the modelled sub-language is `Unmodelled`, only classification/line-number facts are checked there. Partial: see notes/C10.md for which round-trip levels are proved universally and which are instance-checked.",
        technique="Coq proofs (induction over lines/tokens) about a hand model + differential correspondence (vm_compute) against ParserAArch64",
        ref="DESIGN.md C09/C10, notes/C10.md"),
}

REASON_PENDING = "check under construction in this session (see DESIGN.md); not yet claimed"


def main():
    checks = []
    for p in props:
        pid = p["id"]
        if pid not in CLAIMED:
            continue
        c = CLAIMED[pid]
        checks.append({
            "property_id": pid,
            "quick_cmd": "./check %s --tier quick" % pid,
            "thorough_cmd": "./check %s --tier thorough" % pid,
            "evidence_file": "/verif/evidence/%s.json" % pid,
            "replay_cmd_template": "./check %s --replay {path}" % pid,
            "engine": "coq-proof+correspondence",
            "level_claimed": {"category": "proof", "text": c["text"], "design_ref": c["ref"]},
            "level_note": c["note"],
            "technique": c["technique"],
        })
    hooks_commits = []
    hp = os.path.join(V, "hooks_commits.txt")
    if os.path.exists(hp):
        hooks_commits = [l.split()[0] for l in open(hp) if l.strip()]
    m = {
        "version": 1,
        "setup_cmd": "./setup.sh",
        "hooks": {
            "guard": "RRZE_HPC_OSACA_VERIF",
            "enable": "checks set RRZE_HPC_OSACA_VERIF=1 in the environment of every process that imports osaca from /repo (pure Python: no build step)",
            "baseline_off_cmd": "cd /repo && env -u RRZE_HPC_OSACA_VERIF /venv/bin/python -m pytest -ra -q -p no:cacheprovider --timeout=900 --continue-on-collection-errors",
            "source_commits": hooks_commits,
            "add_only": True,
        },
        "engines": [{
            "name": "coq-proof+correspondence", "path": "/verif/check",
            "serves_properties": sorted(CLAIMED),
            "kind_free_text": "Coq 8.16 theorems over a model regenerated from (translator) or differentially tied to (correspondence harness, vm_compute) /repo's current source",
        }],
        "checks": checks,
        "not_applicable": [{"property_id": p["id"], "reason": REASON_PENDING} for p in props if p["id"] not in CLAIMED],
        "notes": "See DESIGN.md and notes/. Every check: ./check Cxx --tier quick|thorough; VERIF_REPO overrides /repo for self-validation against mutants; known_findings.json lists genuine defects (known / fixed).",
    }
    json.dump(m, open(os.path.join(V, "MANIFEST.json"), "w"), indent=1)
    print("MANIFEST.json: %d checks, %d not claimed" % (len(checks), len(m["not_applicable"])))


if __name__ == "__main__":
    main()
