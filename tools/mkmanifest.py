"""Regenerate /verif/MANIFEST.json from the table below (run after adding a check)."""
import json
import os

V = os.path.dirname(os.path.dirname(os.path.abspath(__file__)))
props = [json.loads(l) for l in open(os.path.join(V, "properties.jsonl"))]

CLAIMED = {
    "C12": dict(
        text="is_reg_dependend_of and its helpers (both ISAs) are re-translated from the current Python source into Gallina on every run; Coq proves, by an exhaustive kernel-evaluated sweep over the finite universe stated in the theorem (360 x86 names, 656 AArch64 spellings, both cases), that the translated function equals the hand-written architectural overlap partition, with reflexivity/symmetry/transitivity/cross-family corollaries. The translator is validated exhaustively against the Python original on the same universe each run.",
        note="Trusted: Coq kernel + vm_compute; tools/py2coq.py (cross-checked on all pairs each run); the architectural partition Model/RegArch.v; the pyparsing construction of RegisterOperand is exercised by the oracle sweep, not modelled.",
        technique="Coq finite-domain proof (vm_compute + forallb_forall) over a definition regenerated from source by a fail-closed Python-ast translator",
        ref="DESIGN.md C12"),
    "C10": dict(
        text="Hand-written Gallina parser for the AArch64 sub-language of the property (lexer, token-level parser, line classification, parse_file). Proved for all inputs: parse_file returns exactly the non-blank lines with 1-based numbers and verbatim text; classification is exclusive; numerals/immediates and register-range expansion round-trip; the full-strength round trip is refuted by four witness lines (recorded as known findings against the real parser). The model is tied to the code by differential correspondence on thousands of rendered and malformed lines per run; the round trip on the implementation itself is the independent oracle.",
        note="Trusted: Coq kernel; Python mirror of `render` (cross-checked in every shard); pyparsing behaviour outside the modelled sub-language is `Unmodelled`, only classification/line-number facts are checked there. Partial: see notes/C10.md for which round-trip levels are proved universally and which are instance-checked.",
        technique="Coq proofs (induction over lines/tokens) about a hand model + differential correspondence (vm_compute) against ParserAArch64",
        ref="DESIGN.md C09/C10, notes/C10.md"),
}

CLAIMED.update({
    "C01": dict(
        text="average_port_pressure, get_throughput_sum, _to_list and _itemsetter are REGENERATED from the current source on every run (tools/gen_c01.py, fail-closed) and proved extensionally equal to the hand model for every numeric instance and every input, error cases included (PropsGen/C01gen.v); the uniform-feasibility and totals theorems are restated for the regenerated code. Proved in Coq over exact rationals: the uniform split computed by the model's average_port_pressure is a feasible fractional assignment with slack 0, and every feasible split is non-negative, supported on admissible ports, adds up to the micro-ops' cycles and satisfies Hall's condition for every port set; proved for ANY numeric instance (binary64 included), any kernel context and any number of passes: balancing changes only cells of ports the micro-op may use (support) and keeps lengths; totals ignore zero-throughput lines; on a second bounded family (3192 kernels of length <= 2 over all forms with one or two 1-cycle micro-ops on subsets of 3 ports, complete for its shape) the bit-exact binary64 model is exactly feasible under uniform scheduling and, after ONE pass, satisfies non-negativity / support / total / Hall for every port set within 0.005 per (micro-op, port) pair (finite sweep, exact comparisons; the family is replayed on the implementation). The second CLI pass is refuted on the bit-exact model (witness replayed on the code = known finding; 798 of the 3192 family kernels). For an instruction with a SINGLE micro-op (any cycle count, any port subset, any kernel context, any junk in the differences vector) whose uniform share exceeds 0.005, the balancing loop over exact rationals is proved to preserve the row total exactly, keep every admissible cell >= 0 and leave every other cell untouched, so the result is feasible with slack 0 (Proofs/BalanceSingle.v: rounding characterisation of round(x,2), per-rule and per-step invariants, induction over the loop). The granular Hall bound for ONE optimised pass of multi-micro-op instructions is not proved in general; it is decided by the bit-exact correspondence (binary64 model = implementation on every pressure cell, synthetic port models + shipped kernels x models) plus the exact-fraction Hall/total/support oracle on the implementation's outputs.",
        note="Trusted: Coq kernel, vm_compute, primitive floats/ints; Model/Num.v's CPython round()/sum() algorithms (validated against CPython each run); tools/gen_c01.py and its prelude (cross-checked bit for bit against CPython on 480/4800 inputs per run); the hand model Model/Pressure.v is tied by correspondence only for assign_optimal_throughput (the balancer), its other functions by translation + equality proofs; data representation: a str port collection is its characters, dict-form port_uops has keys 0..n-1 in order, None throughput counts as non-zero; exact-arithmetic theorems transfer to doubles up to rounding. Partial: one-pass feasibility within 0.005 per (micro-op, port) pair is proved for single-micro-op instructions over Q and on the bounded family for binary64; for arbitrary multi-micro-op instructions it is checked, not proved.",
        technique="Coq proofs (feasible-flow algebra over Q, frame induction over the balancer generic in NumOps) + bit-exact differential correspondence of a binary64 Gallina model",
        ref="DESIGN.md C01"),
    "C02": dict(
        text="Proved in Coq: weak duality -- for every kernel, port count and port set S, any bound B of the per-port totals of feasible splits satisfies |S|*B >= cycles confined to S minus the granted slack (unbounded); the property's bounded family (5355 kernels) is complete for its shape and, on the bit-exact binary64 model of the CLI path, every kernel's bottleneck is within 0.15 of the exact optimum, never above uniform, never more than 0.01 below the optimum (finite sweep by vm_compute, comparisons in exact rationals). The family is replayed on the real implementation and compared bit for bit with the model values the theorem is about; random kernels are checked against an independent exact optimum.",
        note="Trusted: as C01. 'Optimised <= uniform' for arbitrary kernels is checked by the oracle, not proved. Known findings: second-pass undercut; accumulated half-step undercut after one pass (bounded by the proved duality with eps = 0.005).",
        technique="Coq proofs (LP weak duality over Q; finite-domain vm_compute sweep on a binary64 model) + bit-exact correspondence on the whole family",
        ref="DESIGN.md C02"),
    "C09": dict(
        text="Hand-written Gallina parser/renderer for the AT&T sub-language of the property. Proved for ALL ASTs (0-4 operands; any %alnum register; any integer immediate in decimal or hex; $label/label; memory in all writable displacement/base/index combinations, scales 1/2/4/8, scale 1 when omitted) and ALL layouts (blanks, operand-separator spacing, trailing # or // comment): parse_line (render lay a) = a; layout irrelevance; classification of comment/label/directive/instruction lines is exclusive; parse_file yields exactly the non-blank lines with 1-based numbers and verbatim text. Tied to ParserX86ATT by differential correspondence on thousands of rendered, malformed and whole-file inputs per run; the round trip on the implementation is the independent oracle.",
        note="Trusted: Coq kernel; Python mirror of `render` (cross-checked byte for byte in every shard); pyparsing outside the sub-language is `Unmodelled` (only line facts checked there). Directive parameters / comment text are not part of the AST.",
        technique="Coq proofs (lexer self-delimitation + token-level parser lemmas, induction) about a hand model + differential correspondence (vm_compute) against ParserX86ATT",
        ref="DESIGN.md C09/C10, notes/C09.md"),
    "C11": dict(
        text="Gallina model of marker matching and section selection over abstract parsed lines; get_line_range is re-translated from the Python source on every run. Proved: for both ISAs and every prologue/body/epilogue with each marker style, selection returns exactly the body (for the repaired byte-matching loop; the shipped loop's two failing shapes are refuted with witnesses and were fixed in /repo); unmarked files are taken whole; --lines semantics (inclusive ranges) on the regenerated definition; noise lines inside the body do not disturb selection. Correspondence on random marked files through the real parsers; end-to-end metamorphic oracle (marked file vs --lines vs kernel-only vs noise insertions) on shipped kernels x models.",
        note="Trusted: Coq kernel; translator (cross-checked on random --lines strings); abstraction of parsed lines (harness). Pipeline-level transparency is checked end to end, not proved.",
        technique="Coq proofs by induction over line lists + fail-closed translation of get_line_range + differential/metamorphic checks on the implementation",
        ref="DESIGN.md C11, notes/C11.md"),
    "C15": dict(
        text="Every shipped model file and both ISA databases are re-emitted as Coq data on every run through the repo's own loader; Coq proves (unbounded) that a well-formed micro-op assignment can always be costed (no KeyError/ValueError/TypeError; alternatives; balancer index lists exist and are in range) and (finite, per regenerated file, vm_compute) that every entry and every load/store table is well-formed and that the missing-TP/LT/pressure counts equal what the real --db-check printed. Cross-checks: avg_pressure model vs average_port_pressure on all distinct shipped assignments + malformed variants; one synthesised instruction per entry costed by the real assign_tp_lt + assign_optimal_throughput.",
        note="Trusted: Coq kernel; tools/gen_c15.py (fails closed unless raw YAML view = loader view; cross-checked by db-check counts and the costing sweep).",
        technique="Coq general well-formedness theorem + per-file finite proofs over data regenerated from the YAML + differential checks",
        ref="DESIGN.md C15, notes/C15.md"),
    "C17": dict(
        text="Small-step Coq state machine of the model-cache protocol (content-keyed companion/home slots, truncate-append-close vs temp+rename write discipline, crashes, edits, racing processes). Proved for every history: the keyed-content invariant; a load returns parse(content it read); under the atomic discipline (the code after the fix) no process ever raises, no partial file is visible under a final name, and a fresh load after any history succeeds with the current content; the in-place discipline is refuted with crash and race witnesses (the defect that was fixed). Real CLI histories (cold/warm/home cache/read-only dir/edits/planted truncated files at every offset class/kill-at-byte hook/2-6 simultaneous cold starts) must be accepted by the model and print exactly the cold report.",
        note="Trusted: Coq kernel; SHA-256 modelled as injective; pickle as an opaque encode/decode with prefixes undecodable; POSIX rename atomic; real kill timing and os.access are sampled, not modelled.",
        technique="Coq invariant/refinement proofs over a small-step state machine + trace acceptance (vm_compute) of real file-system histories",
        ref="DESIGN.md C17, notes/C17.md"),
    "C20": dict(
        text="_validate_measurement and the operand decoders are re-translated from the current Python source on every run; Coq proves over exact rationals: throughput snapping is sound/complete for the ten disjoint 5% windows around 1/n and rejects everything else; latency snaps to the nearest integer within 5% or is rejected; every documented operand code decodes to the documented pattern (finite tables); the ibench TP/LT lines merge into one entry in any order; a malformed asmbench block stops the import keeping exactly the earlier entries (the shipped truncated-file crash, TP-substring and x86 overwrite defects are refuted with witnesses and were fixed). Bit-exact function-level correspondence on window-edge doubles and file-level correspondence through the real import path.",
        note="Trusted: Coq kernel; translator (cross-checked bit for bit on thousands of doubles); exact-vs-binary64 gap at window edges is measured and reported, theorems are over Q.",
        technique="Coq proofs over definitions regenerated by a fail-closed translator + bit-exact differential correspondence",
        ref="DESIGN.md C20, notes/C20.md"),
})

CLAIMED.update({
    "C03": dict(
        text="Gallina model of KernelDG's dependency scan (is_read / is_written / find_depending / create_DG), generic in the numeric instance and in the register-alias test. Proved for every kernel: an edge A->B that is not a store-to-load edge exists iff B is a later instruction that reads a register (or, only with flag dependencies, a flag) written by A with no writer strictly between; edges point forward; flags never produce edges without -f; edge weights are producer latency without load stage / index-write-back latency / + forwarding. The role assignment (assign_src_dst: ISA entry roles, hidden operands, zero idioms, default rules, AArch64 write-back, HAS_LD/HAS_ST) is modelled too (Model/Roles.v) with theorems: a zero idiom with equal register operands reads nothing, default roles, read-modify-write operands land in src_dst, every pre/post-indexed base is registered as read+written. Both models are tied to the code bit for bit (role sets per line, edge sets and weights) on synthetic ISA databases with random roles, hidden flag operands, zero idioms, default roles and write-back addressing, and on shipped kernels x models; the edge set is checked against an independent architectural RAW relation computed from the generator's role tables.",
        note="Trusted: Coq kernel; the ISA entry applied to each line is the implementation's own lookup result (the matcher is C07's subject); register alias test = definition regenerated from source (C12).",
        technique="Coq proof by induction over the instruction list (scan = RAW) + bit-exact differential correspondence of the dependency graph",
        ref="DESIGN.md C03"),
    "C04": dict(
        text="Proved in Coq over exact rationals: the dynamic programme cp_opt is an upper bound of the length (edge latencies + leading load stage once + latency of the last instruction) of EVERY dependency chain of the kernel graph, hence never below any single latency. The implementation's critical path is tied to it by a certificate evaluated in Coq on every case: reported lines are linked by edges of the model graph, each CP cell is the edge latency (last: the instruction latency), and the cells add up to cp_opt; a passed certificate is PROVED (C04_certificate_sound, _kernel_latencies, _checked; Proofs/CritCert.v) to imply that the reported lines are a dependency chain, every cell is the chain-semantics weight (edge latency; first: load stage + edge; last: instruction latency), the cells add up to cp_opt and the reported path is a longest chain; conversely every longest chain passes (C04_longest_chain_has_certificate), so networkx tie-breaking cannot raise a false alarm; a certificate whose sum is below some chain is rejected (C04_certificate_rejects_non_maximal). An independent brute-force enumeration of all chains of the implementation's own graph is the search. The shipped defect (path chosen by edge latencies only) was fixed in /repo.",
        note="Trusted: Coq kernel; networkx dag_longest_path is not modelled and need not be (its result is certified, soundness of the certificate is a theorem); the theorems are over Q, the shards evaluate the same definitions over binary64.",
        technique="Coq proof (DP upper bound by induction over program order) + per-case certificate checking in Coq",
        ref="DESIGN.md C04"),
    "C05": dict(
        text="Proved in Coq: the path enumeration of the model is sound and complete for the dependency paths of the doubled kernel; the reported set is by definition the first-kept de-duplication of the entries of ALL paths from an instruction to its next-iteration copy; de-duplication reports only input entries, represents every one, and each class of equal sorted (line, latency) lists exactly once. Declarative form (Proofs/StreamCycles.v): with canonical line numbers every edge of the doubled-kernel graph is a read-after-write edge of the infinite periodic instruction stream (exists iff the scan reports it; producer before consumer, no writer between), every enumerated LCD path is a stream path from instruction i of one iteration to instruction i of the next, and conversely every such stream cycle of winding number one is enumerated and represented in the report. Tied to get_loopcarried_dependencies() bit for bit (keys, members, latencies); an independent enumeration of winding-number-1 cycles over the reference RAW relation of two iterations is the search (register-only kernels). The line-number collision beyond line 1000 was fixed in /repo.",
        note="Trusted: Coq kernel; networkx all_simple_paths not modelled (result compared); the stream theorems assume canonical line numbers (the harness numbers lines that way; the >1000-lines collision was the fixed defect).",
        technique="Coq proofs (path enumeration soundness/completeness, de-duplication algebra) + bit-exact correspondence + independent cycle enumeration",
        ref="DESIGN.md C05"),
    "C06": dict(
        text="Proved in Coq against a concrete register-file semantics: whenever the model links a load to an earlier store, both addresses are equal for every register file, given that the tracked changes describe the intervening instructions; one tracked increment/decrement/copy keeps that description valid (this proof attempt exposed a genuine unsoundness for copies of copies, fixed in /repo); shape mismatch, symbolic or different displacement give no link; a later store to the operand ends the search and nothing else does (C06_search_continues); a pre-indexed load reads from its already bumped base (addr_load; C06_memdep_complete_preindexed_load). Four further defects of the write-back bookkeeping were found and fixed in /repo (post-indexed access made its base unknown; the storing instruction's own post-index bump was ignored; a pre-indexed load's offset was counted twice; the search of a write-back store was cut at the next base write) and the ISA data no longer declares constant changes for register addends. The model is ISA-independent (prefix+name). Tied to KernelDG bit for bit on generated store/load kernels of both ISAs on shipped models; an independent symbolic tracker decides which loads provably alias, incl. an AArch64 write-back family (pre-/post-indexed store, accesses in between, load).",
        note="Trusted: Coq kernel; get_reg_changes (exec of the ISA DB's operation strings) is taken from the implementation per line, its results are checked by the oracle only; registers are identified by name (architectural aliasing of address registers is outside the tracking).",
        technique="Coq soundness proof w.r.t. a concrete address semantics + bit-exact correspondence + independent symbolic alias oracle",
        ref="DESIGN.md C06"),
    "C14": dict(
        text="Proved in Coq for the model of the LCD analysis, for every kernel, rotation offset, numeric instance, alias test and option: the dependency scan is prefix-determined; with canonical line numbers the dependency graph of the doubled rotated kernel is the window [r, r+2n) of the periodic instruction stream's edge relation; hence the cross-iteration paths enumerated for the rotated and the unrotated kernel correspond one to one visiting the same instructions in the same order with the same edge weights, the entries before de-duplication have equal latency sums and the same members, every reported (de-duplicated) entry has a counterpart for the same cycle, and over exact rationals the reported sums and the LCD figure are equal. The model is tied to the code by the bit-exact LCD correspondence, and the property is additionally checked directly on the implementation by an exhaustive metamorphic oracle (every rotation offset of generated kernels with register, memory and write-back dependencies, and of shipped kernels on shipped models).",
        note="Trusted: Coq kernel. Residue: under binary64 the kept representative of a cycle may add the same weights in a different order after rotation (the theorem gives equality of the multiset of weights; the oracle compares sums with 1e-9); order of reported entries is not claimed.",
        technique="Coq proofs (prefix-determination of the scan, window lemma for create_dg, bijection of cross-iteration paths, de-duplication) + bit-exact LCD correspondence + exhaustive-rotation metamorphic testing",
        ref="DESIGN.md C14, notes/C14.md"),
    "C16": dict(
        text="The partition arithmetic of check_for_loopcarried_dep is re-translated from the Python source on every run; Coq proves that the chunks cover the kernel exactly once for every kernel length and worker count (incl. more workers than lines), that the post-processing (de-dup, sort, dictionary) is invariant under every permutation of the delivered path list, hence parallel = sequential for any interleaving. Tied to the code by replaying the path lists real worker processes delivered (worker counts 1..length+3, perturbed completion orders through a guarded hook) and by byte-identical repeated CLI runs.",
        note="Trusted: Coq kernel; translator of the four arithmetic lines (cross-checked by exec of the same lines); OS scheduling, Manager().list() proxies and fork/pickle are sampled, not modelled; '-'.join key injectivity assumed.",
        technique="Coq proofs (partition cover, permutation invariance) over translated arithmetic + replay of real multi-process runs",
        ref="DESIGN.md C16, notes/C16.md"),
    "C19": dict(
        text="Coq model of the partial-result post-processing and of the poll loop as a state machine over abstract time. Proved: every entry reported from a subset of the paths is an entry of the full result (under the key-injectivity the data satisfy, refuted without it); the loop terminates within the timeout plus one poll; complete result and no flag when untimed or finished in time; for the shipped loop: flag iff the loop was exhausted (refuted as a statement about cuts: flag without any kill -- the defect fixed in /repo by ea2415a); for the repaired loop (FlagOnKill model, what the code does now): flag iff some worker was killed, no flag implies the complete result, every worker finished implies no flag, timeout 0 flags only live workers; every worker is killed-or-joined. The untimed sequential branch is refuted in the model and observed on the code (known finding). Real runs: wall-time bound, flag vs SIGKILL, subset of the untimed result, TP/CP unchanged, no child left.",
        note="Trusted: Coq kernel; wall-clock time, signal delivery and reaping are observed, not proved.",
        technique="Coq state-machine proofs + trace replay of instrumented real runs",
        ref="DESIGN.md C19, notes/C19.md"),
})

CLAIMED.update({
    "C07": dict(
        text="Gallina transcription, branch for branch, of the operand matcher (both ISAs, all operand classes, wildcards, the {'*':'*'} composition wildcard) and of get_instruction with the suffix fall-backs, plus an independent specification (kind / admits) written from the property text. Proved for every table: a returned entry has the right name (up to case / documented fall-back), the right operand count and passes the matcher on every operand; it is the FIRST such entry; if any entry matches one is returned; an instruction instantiating an entry's own pattern is never unknown; count mismatches never match. check = admits is proved on the well-formed vocabulary outside two lenient families and refuted with witnesses inside them (known findings). Tied to the code by differential lookups on synthetic models, on every shipped entry (own-pattern + near-miss instruction) and on real assembly lines.",
        note="Trusted: Coq kernel; serialisation of operands/patterns (harness); the specification MatchSpec.v. Partial: check_iff_admits excludes the two lenient families (x86 gpr pattern vs non-vector registers, AArch64 shapeless register vs shaped pattern).",
        technique="Coq list-induction proofs over a transcribed matcher + specification equivalence + differential lookups",
        ref="DESIGN.md C07, notes/C07.md"),
    "C08": dict(
        text="Gallina model of assign_tp_lt (direct hit, memory composition, unknown fall-back) generic in the numeric instance, taking the lookup results as inputs. Proved: composed port_uops = register form ++ load row ++ store row; pressure = avg(reg) + m_ld*avg(load) + m_st*avg(store), and equals the uniform split of the composed micro-op list without multipliers (link to C01); latency = register form + load latency of the register type, latency_wo_load = register form; throughput = max of register-form throughput and busiest data port; never flagged unknown when the register form has data; with neither form: flags, zero pressure/latency/throughput; kernel costing is a map, so an unknown line changes no other line; row-choice rules. Bit-exact correspondence (binary64) with the real assign_tp_lt on synthetic models and a curated real vocabulary on every shipped model; exact-fraction oracle from the property text.",
        note="Trusted: Coq kernel; the matcher (C07) and role assignment are inputs obtained from the implementation; shared-state independence is C18's theorem, tested dynamically here.",
        technique="Coq proofs about a costing model generic in NumOps + bit-exact differential correspondence",
        ref="DESIGN.md C08, notes/C08.md"),
    "C18": dict(
        text="Coq model of the process-wide store the code shares by reference (model tables and entries in the runtime cache, default-argument lists, parser singletons) threaded through analyse : store -> request -> report * store, with the shipped in-place extension and the repaired copy as a parameter. Proved for all stores, requests and histories: with the copy, analyse leaves the store unchanged, reports are independent of any history and equal to a fresh process's, repeated analysis is identical, and a report is a map of a per-line function; the in-place variant is refuted with the rmw-then-load witness (the defect fixed in /repo). Real call histories in one process (random order, repetitions, mixed ISAs/models/options) are compared with fresh-process runs, and a deep structural snapshot of every shared object is compared before/after every call; recorded sharing traces must be accepted by the model.",
        note="Trusted: Coq kernel; only the listed sharing sites are modelled, Python aliasing elsewhere is covered by the snapshot comparison.",
        technique="Coq frame/history-independence proofs over an explicit store model + snapshot and fresh-process differential testing",
        ref="DESIGN.md C18, notes/C18.md"),
})

CLAIMED.update({
    "C13": dict(
        text="The report is modelled as a structure (rows, summary, warnings, LCD list) computed from an abstract annotated kernel, and cell formatting by an exact fixed-point formatter of binary64 values. Proved for every request and analysis: the summary row is the totals / CP sum / maximum LCD latency of the machine-readable output; every shown cell is the dict value (blank iff zero and port unused); the LCD column marks the first maximal cycle; X marks iff tp_unknown; totals printed iff --ignore-unknown or no unknown line; the missing-data warning states the number of X lines; arch warning iff no --arch; length warning iff unmarked, no --lines and > 100 parsed lines; the LCD list is complete; fmt_fixed reads back as the exact value rounded half-even at the shown precision (induction on the digit generator); default arch by detected ISA. Real reports (text + YAML) from the CLI on shipped and generated kernels x models x options are tokenised by layout only and judged by the model's checker evaluated in Coq; fmt_fixed is compared with CPython's format character by character.",
        note="Trusted: Coq kernel + primitive floats; the tokeniser (layout knowledge only); column widths/alignment of str.format and repr() of CP/LCD cells are runtime residue (compared as doubles).",
        technique="Coq proofs about a report-structure model and an exact decimal formatter + differential checking of real text/YAML reports",
        ref="DESIGN.md C13, notes/C13.md"),
})

REASON_PENDING = "check under construction in this session (see DESIGN.md); not yet claimed"


def main():
    checks = []
    for p in props:
        pid = p["id"]
        if pid not in CLAIMED:
            continue
        c = CLAIMED[pid]
        checks.append({
            "property_id": pid,
            "quick_cmd": "./check %s --tier quick" % pid,
            "thorough_cmd": "./check %s --tier thorough" % pid,
            "evidence_file": "/verif/evidence/%s.json" % pid,
            "replay_cmd_template": "./check %s --replay {path}" % pid,
            "engine": "coq-proof+correspondence",
            "level_claimed": {"category": "proof", "text": c["text"], "design_ref": c["ref"]},
            "level_note": c["note"],
            "technique": c["technique"],
        })
    hooks_commits = []
    hp = os.path.join(V, "hooks_commits.txt")
    if os.path.exists(hp):
        hooks_commits = [l.split()[0] for l in open(hp) if l.strip()]
    m = {
        "version": 1,
        "setup_cmd": "./setup.sh",
        "hooks": {
            "guard": "RRZE_HPC_OSACA_VERIF",
            "enable": "checks set RRZE_HPC_OSACA_VERIF=1 in the environment of every process that imports osaca from /repo (pure Python: no build step)",
            "baseline_off_cmd": "cd /repo && env -u RRZE_HPC_OSACA_VERIF /venv/bin/python -m pytest -ra -q -p no:cacheprovider --timeout=900 --continue-on-collection-errors",
            "source_commits": hooks_commits,
            "add_only": True,
        },
        "engines": [{
            "name": "coq-proof+correspondence", "path": "/verif/check",
            "serves_properties": sorted(CLAIMED),
            "kind_free_text": "Coq 8.16 theorems over a model regenerated from (translator) or differentially tied to (correspondence harness, vm_compute) /repo's current source",
        }],
        "checks": checks,
        "not_applicable": [{"property_id": p["id"], "reason": REASON_PENDING} for p in props if p["id"] not in CLAIMED],
        "notes": "See DESIGN.md and notes/. Every check: ./check Cxx --tier quick|thorough; VERIF_REPO overrides /repo for self-validation against mutants; known_findings.json lists genuine defects (known / fixed).",
    }
    json.dump(m, open(os.path.join(V, "MANIFEST.json"), "w"), indent=1)
    print("MANIFEST.json: %d checks, %d not claimed" % (len(checks), len(m["not_applicable"])))


if __name__ == "__main__":
    main()
