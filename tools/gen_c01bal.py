"""Regenerate coq/Gen/BalanceGen.v from the CURRENT source of

    ArchSemantics.assign_optimal_throughput      (osaca/semantics/arch_semantics.py)

fail closed.  Built on tools/gen_c01.py (ImpTr: error monad, hoisting of raising sub-expressions in evaluation order,
py_for, if-joins, stores into fresh lists) -- gen_c01.py and py2coq.py are imported, not edited.  This module adds what
the balancer needs:

  * every loop body is LIFTED into a Definition of its own (parameters = the variables it reads, state = the variables
    it assigns that exist before the loop), so that PropsGen/C01bal.v can prove one equality per loop;
  * `for _ in range(<int>)` with `if <test>: break` statements at the top level of the body  ->  py_loop (fuelled; the
    body returns (broke?, state));
  * `del l[i]`, `l[i] -= x`, max()/min() of a number list (ValueError when empty), list.index on numbers, int(x),
    len(set(l)), tuple subscripts with a constant index, `[...][0]`;
  * comprehensions whose condition OR element can raise (`... if row[p] > 0`, `[port_list.index(p) for p in ports]`)
    -> py_filter_res / py_map_res (monadic; evaluation order kept; both raising at once is refused);
  * `a or b` / `a and b` whose later operands can raise -> a monadic conditional (no evaluation of b when a decides);
  * `self._to_list(itemgetter(*I)(X))`, `self._itemsetter(*I)(obj, *vals)`, `self.get_throughput_sum(kernel)` are
    CALLS of the definitions gen_c01.py regenerates (Gen/PressureGen.v: g_to_list, g_itemsetter, g_get_throughput_sum);
    operator.itemgetter itself is the prelude's py_itemgetter (no index: TypeError; one: scalar; several: tuple);
  * a function-level constant (`INC = 0.01`: upper-case name bound once to a literal) is inlined; `x / INC` is accepted
    because the constant is a non-zero literal;
  * the int literal 0 used as a number is the instance's zero `n0 N` (like 0.0 / 0.00).

THE ALIASING FACT (the one trusted assumption of this translation, stated in notes/C01-bal.md): inside the loop
`for idx, instruction_form in enumerate(kernel[start:], start)` the object `instruction_form` IS `kernel[idx]`.  Lists
are values in Gallina, so inside `for uop in instruction_form.port_uops` the mutable row
`instruction_form.port_pressure` is a state variable ROW and the kernel that `self.get_throughput_sum(kernel)` sees is
`set_pp kernel idx ROW`.  The translator checks the syntactic side of it: `kernel`, `idx`, `instruction_form` are not
assigned inside the loop, `kernel[idx]` is never re-bound, the row is only touched through
`instruction_form.port_pressure` / `kernel[idx].port_pressure`.

Anything else raises py2coq.Unsupported -> the caller records a broken obligation."""
import ast
import copy
import os
import re
import textwrap

import py2coq
import gen_c01
from gen_c01 import ImpTr, ImpUnit, assigned, contains, targs
from py2coq import Unsupported

PRELUDE = r"""
(* ------------------------------------------------------------------ prelude: Python constructs of the balancer *)
Section BalPrelude.
Context {T : Type} (N : NumOps T).
(* max(l) / min(l): ValueError on an empty list; the FIRST extremal element wins (CPython replaces on strict > / <) *)
Fixpoint py_max_go (m : T) (l : list T) : T :=
  match l with [] => m | y :: r => py_max_go (if nltb N m y then y else m) r end.
Definition py_max (l : list T) : res T := match l with [] => Err EValue | x :: r => Ok (py_max_go x r) end.
Fixpoint py_min_go (m : T) (l : list T) : T :=
  match l with [] => m | y :: r => py_min_go (if nltb N y m then y else m) r end.
Definition py_min (l : list T) : res T := match l with [] => Err EValue | x :: r => Ok (py_min_go x r) end.
(* l.index(v) on numbers: first position whose element == v, ValueError when there is none *)
Fixpoint py_index_num_from (l : list T) (v : T) (k : nat) : res nat :=
  match l with [] => Err EValue | y :: r => if neqb N y v then Ok k else py_index_num_from r v (S k) end.
Definition py_index_num (l : list T) (v : T) : res nat := py_index_num_from l v 0.
(* set(l): the distinct elements (under the instance's ==) in order of first occurrence; only len() is taken of it *)
Definition py_set (l : list T) : list T :=
  fold_left (fun acc y => if existsb (fun z => neqb N y z) acc then acc else acc ++ [y]) l [].
End BalPrelude.
(* del l[i] *)
Definition py_del {A} (l : list A) (i : nat) : res (list A) := del_nth l i.
(* [x for x in l if f x] where f can raise *)
Fixpoint py_filter_res {A} (f : A -> res bool) (l : list A) : res (list A) :=
  match l with
  | [] => Ok []
  | x :: r => b <- f x ;; r' <- py_filter_res f r ;; Ok (if b then x :: r' else r')
  end.
(* [f x for x in l] where f can raise *)
Fixpoint py_map_res {A B} (f : A -> res B) (l : list A) : res (list B) :=
  match l with
  | [] => Ok []
  | x :: r => y <- f x ;; r' <- py_map_res f r ;; Ok (y :: r')
  end.
(* for _ in range(n): body  -- the body returns (did it break?, state) *)
Fixpoint py_loop {S} (n : nat) (s : S) (f : S -> res (bool * S)) : res S :=
  match n with
  | O => Ok s
  | S n' => r <- f s ;; if fst r then Ok (snd r) else py_loop n' (snd r) f
  end.
(* operator.itemgetter( *idx ): constructing it without an index raises TypeError; applied to l it returns the element
   (one index) or the tuple of the elements (several) *)
Definition py_itemgetter_new (idx : list nat) : res unit := match idx with [] => Err EEmptyGetter | _ => Ok tt end.
Definition py_itemgetter {A} (l : list A) (idx : list nat) : res (pyitems A) :=
  match idx with
  | [] => Err EEmptyGetter
  | [i] => x <- nth_res l i ;; Ok (POne x)
  | _ => xs <- getmany_go l idx ;; Ok (PTuple xs)
  end.
"""

HEADER = """(* GENERATED by tools/gen_c01bal.py from
     @SRC@  (ArchSemantics.assign_optimal_throughput)
   -- do not edit *)
From Coq Require Import ZArith List Bool String.
From OV Require Import Model.Num Model.Pressure Gen.PressureGen.
Import ListNotations.
""" + PRELUDE + "@PRELUDE3@" + """
Section Gen.
Context {T : Type} (N : NumOps T).
"""
FOOTER = """
End Gen.
"""

ASSUMPTIONS = []              # modelling conventions the last translation relied on (reported as trusted)
ROW = "ROW"                     # the pseudo-variable standing for instruction_form.port_pressure
LOOPNAMES = {("_",): "g_bal_body", ("uop",): "g_bal_uop"}


def is_self_call(e, name):
    return isinstance(e, ast.Call) and isinstance(e.func, ast.Attribute) and isinstance(e.func.value, ast.Name) \
        and e.func.value.id == "self" and e.func.attr == name and not e.keywords


def pseudo(name, args, at):
    c = ast.Call(func=ast.Name(id=name, ctx=ast.Load()), args=args, keywords=[])
    return ast.copy_location(c, at)


class Normalize(ast.NodeTransformer):
    """Source-level normalisation inside the scope where the row view is active:
         <obj>.port_pressure                         -> ROW            (obj: the names standing for kernel[idx])
         self._itemsetter(*I)(X, *V)   (statement)   -> X = __itemsetter(I, X, V)
         del X[i]                                    -> X = __del(X, i)
       so that gen_c01.assigned() / ImpTr's state computation see them as assignments."""

    def __init__(self, row_objs):
        self.row_objs = row_objs          # unparsed expressions denoting the instruction form, e.g. {"instruction_form"}

    def visit_Attribute(self, n):
        if n.attr == "port_pressure" and ast.unparse(n.value) in self.row_objs:
            return ast.copy_location(ast.Name(id=ROW, ctx=n.ctx), n)
        return self.generic_visit(n)

    def visit_Expr(self, n):
        n = self.generic_visit(n)
        c = n.value
        if isinstance(c, ast.Call) and is_self_call(c.func, "_itemsetter") and not c.keywords:
            mk = c.func
            if len(mk.args) == 1 and isinstance(mk.args[0], ast.Starred) and len(c.args) == 2 \
                    and isinstance(c.args[0], ast.Name) and isinstance(c.args[1], ast.Starred):
                tgt = ast.copy_location(ast.Name(id=c.args[0].id, ctx=ast.Store()), n)
                val = pseudo("__itemsetter", [mk.args[0].value, c.args[0], c.args[1].value], n)
                return ast.copy_location(ast.Assign(targets=[tgt], value=val), n)
        return n

    def visit_Delete(self, n):
        n = self.generic_visit(n)
        if len(n.targets) == 1 and isinstance(n.targets[0], ast.Subscript) and isinstance(n.targets[0].value, ast.Name) \
                and not isinstance(n.targets[0].slice, ast.Slice):
            t = n.targets[0]
            tgt = ast.copy_location(ast.Name(id=t.value.id, ctx=ast.Store()), n)
            val = pseudo("__del", [ast.copy_location(ast.Name(id=t.value.id, ctx=ast.Load()), n), t.slice], n)
            return ast.copy_location(ast.Assign(targets=[tgt], value=val), n)
        return n



def escapes(stmts):
    """control flow a loop body may not contain: break/continue of THIS loop (those of nested for loops belong to them),
    return / while / nested functions / yield anywhere"""
    out = []

    def walk(n, nested):
        if isinstance(n, (ast.Return, ast.While, ast.FunctionDef, ast.AsyncFunctionDef, ast.Lambda, ast.Yield, ast.YieldFrom, ast.ClassDef)):
            out.append(n)
            return
        if isinstance(n, (ast.Break, ast.Continue)) and not nested:
            out.append(n)
        for c in ast.iter_child_nodes(n):
            walk(c, nested or isinstance(n, ast.For))
    for st in stmts:
        walk(st, False)
    return out


class BalUnit(ImpUnit):
    def coq_type(self, t):
        if t.startswith("set["):
            return "(list %s)" % self.coq_type(t[4:-1])
        if t.startswith("opt["):
            return "(option %s)" % self.coq_type(t[4:-1])
        if t == "numinf":
            return "(option T)"
        if t == "none":
            return "unit"                   # only met in the trial pass of a loop (its text is discarded)
        if t == "REC":
            return "((list (@instr T)) -> nat -> res (list (@instr T)))"
        return ImpUnit.coq_type(self, t)


class BalTr(ImpTr):
    """Statement / expression layer for assign_optimal_throughput (see the module docstring)."""

    def __init__(self, unit, fdef, sig):
        ImpTr.__init__(self, unit, fdef, sig)
        self.defs = []                # lifted loop bodies (text), innermost first
        self.view = None              # (kernel name, idx name) while the row view is active
        self.break_sites = [set()]    # ids of the `if c: break` statements of the innermost range loop
        self.loop_state = [None]      # state names of the innermost range loop
        self.nonzero_consts = set()   # names of inlined constants that are non-zero numbers
        self.lifted_names = set()

    # ----------------------------------------------------------------- expressions
    def as_num(self, v, t):
        if t == "int" and v == "(0)%Z":
            return "(n0 N)"           # the number zero, however it is written (0, 0.0, 0.00)
        return ImpTr.as_num(self, v, t)

    def sub(self, e):
        """translate e in a context of its own: (hoists as text, value, type)"""
        saved, self.pending = self.pending, []
        try:
            v, t = self.expr(e)
            pre = self.take()
        finally:
            self.pending = saved
        return pre, v, t

    def e_BoolOp(self, e):
        isor = isinstance(e.op, ast.Or)
        v, t = self.expr(e.values[0])
        acc = self.truth(v, t, e.values[0])
        for x in e.values[1:]:
            pre, xv, xt = self.sub(x)
            xb = self.truth(xv, xt, x)
            if not pre:
                acc = "(%s %s %s)" % ("orb" if isor else "andb", acc, xb)
            else:
                # the operand can raise: it is only evaluated when the operands before it do not decide
                m = "(%sOk %s)" % (pre, xb)
                acc = self.hoist("(if %s then %s else %s)" % ((acc, "Ok true", m) if isor else (acc, m, "Ok false")))
        return acc, "bool"

    def e_BinOp(self, e):
        if isinstance(e.op, ast.Div) and isinstance(e.right, ast.Name) and e.right.id in self.nonzero_consts \
                and e.right.id not in self.env:
            lv, lt = self.expr(e.left)
            rv, rt = self.expr(e.right)
            if lt not in ("num", "int"):
                raise Unsupported("division of %s at line %d" % (lt, e.lineno))
            return "(ndiv N %s %s)" % (ImpTr.as_num(self, lv, lt), ImpTr.as_num(self, rv, rt)), "num"
        return ImpTr.e_BinOp(self, e)

    def e_Subscript(self, e):
        if not isinstance(e.slice, ast.Slice) and ast.unparse(e) not in gen_c01.SELF:
            n, nt = len(self.pending), self.ntemp
            v, t = self.expr(e.value)
            if t.startswith("tuple["):
                ts = targs(t)
                if len(ts) == 2 and isinstance(e.slice, ast.Constant) and type(e.slice.value) is int and e.slice.value in (0, 1):
                    k = e.slice.value
                    return "(%s %s)" % (("fst", "snd")[k], v), ts[k]
                raise Unsupported("subscript of %s at line %d" % (t, e.lineno))
            del self.pending[n:]
            self.ntemp = nt
        return ImpTr.e_Subscript(self, e)

    def e_ListComp(self, e):
        if len(e.generators) != 1 or e.generators[0].is_async:
            raise Unsupported("list comprehension shape at line %d" % e.lineno)
        g = e.generators[0]
        it, itt = self.expr(g.iter)          # evaluated once, eagerly: may raise
        if not itt.startswith("list["):
            raise Unsupported("list comprehension over %s at line %d" % (itt, e.lineno))
        saved = dict(self.env)
        pat = self.binder(g.target, itt[5:-1])
        self.loop_iters.append(g.iter.id if isinstance(g.iter, ast.Name) else None)
        try:
            conds = [self.sub(c) + (c,) for c in g.ifs]
            epre, body, bt = self.sub(e.elt)
        finally:
            self.loop_iters.pop()
            self.env = saved
        craise = any(pre for pre, _, _, _ in conds)
        if craise and epre:
            raise Unsupported("comprehension whose condition and element can both raise at line %d" % e.lineno)
        src = it
        if craise:
            if len(conds) != 1:
                raise Unsupported("comprehension with several conditions that can raise at line %d" % e.lineno)
            pre, cv, ct, c = conds[0]
            src = self.hoist("py_filter_res (fun %s => %sOk %s) %s" % (pat, pre, self.truth(cv, ct, c), src))
        else:
            for pre, cv, ct, c in conds:
                src = "(filter (fun %s => %s) %s)" % (pat, self.truth(cv, ct, c), src)
        if epre:
            return self.hoist("py_map_res (fun %s => %sOk %s) %s" % (pat, epre, body, src)), "list[%s]" % bt
        if body == pat:
            return src, "list[%s]" % bt                                # [x for x in ...]: the filtered list itself
        return "(map (fun %s => %s) %s)" % (pat, body, src), "list[%s]" % bt

    def kernel_view(self, e):
        if not (isinstance(e, ast.Name) and self.env.get(e.id) == "list[instr]"):
            raise Unsupported("get_throughput_sum of something that is not the kernel at line %d" % e.lineno)
        v = self.unit.ident(e.id)
        if self.view and e.id == self.view[0]:
            if ROW not in self.env:
                raise Unsupported("row view without a row at line %d" % e.lineno)
            return "(set_pp %s %s %s)" % (v, self.unit.ident(self.view[1]), self.unit.ident(ROW))
        return v

    def need_list_name(self, e, what):
        if not isinstance(e, ast.Name) or not self.env.get(e.id, "").startswith("list["):
            raise Unsupported("%s of something that is not a list variable at line %d" % (what, e.lineno))
        name = e.id
        if name in self.loop_iters:
            raise Unsupported("%s of the iterated list %s at line %d" % (what, name, e.lineno))
        if name not in self.fresh and name not in self.may_mutate:
            raise Unsupported("%s of %s, which is not a list created by this function (aliasing) at line %d" % (what, name, e.lineno))
        self.mutated.add(name)
        return name

    def e_Call(self, e):
        f = e.func
        a = e.args
        if e.keywords:
            raise Unsupported("keyword arguments at line %d" % e.lineno)
        # ---- methods of self that gen_c01 regenerates
        if is_self_call(e, "_to_list") and len(a) == 1:
            v, t = self.expr(a[0])
            if t != "items[num]":
                raise Unsupported("_to_list(%s) at line %d" % (t, e.lineno))
            return self.hoist("g_to_list %s" % v), "list[num]"
        if is_self_call(e, "get_throughput_sum") and len(a) == 1:
            return self.hoist("g_get_throughput_sum N %s" % self.kernel_view(a[0])), "list[num]"
        # ---- operator.itemgetter(*I)(X)
        if isinstance(f, ast.Call) and isinstance(f.func, ast.Name) and f.func.id == "itemgetter" and "itemgetter" not in self.env:
            if not getattr(self.unit, "has_itemgetter", False):
                raise Unsupported("itemgetter is not operator.itemgetter")
            if f.keywords or len(f.args) != 1 or not isinstance(f.args[0], ast.Starred) or len(a) != 1 or isinstance(a[0], ast.Starred):
                raise Unsupported("itemgetter shape at line %d" % e.lineno)
            iv, it = self.expr(f.args[0].value)
            if it != "list[idx]":
                raise Unsupported("itemgetter(*%s) at line %d" % (it, e.lineno))
            self.hoist("py_itemgetter_new %s" % iv)
            xv, xt = self.expr(a[0])
            if not xt.startswith("list["):
                raise Unsupported("itemgetter applied to %s at line %d" % (xt, e.lineno))
            return self.hoist("py_itemgetter %s %s" % (xv, iv)), "items[%s]" % xt[5:-1]
        if isinstance(f, ast.Name) and f.id not in self.env:
            # ---- pseudo calls made by Normalize
            if f.id == "__itemsetter":
                iv, it = self.expr(a[0])
                name = a[1].id
                if it != "list[idx]" or self.env.get(name) != "list[num]":
                    raise Unsupported("_itemsetter shape at line %d" % e.lineno)
                if name not in self.fresh and name not in self.may_mutate:
                    raise Unsupported("_itemsetter on %s, which is not a list this function owns at line %d" % (name, e.lineno))
                self.mutated.add(name)
                vv, vt = self.expr(a[2])
                if vt != "list[num]":
                    raise Unsupported("_itemsetter values %s at line %d" % (vt, e.lineno))
                return self.hoist("g_itemsetter %s %s %s" % (iv, self.unit.ident(name), vv)), "list[num]"
            if f.id == "__del":
                name = self.need_list_name(a[0], "del")
                iv, it = self.expr(a[1])
                if it != "idx":
                    raise Unsupported("del at an index of type %s (may be negative) at line %d" % (it, e.lineno))
                return self.hoist("py_del %s %s" % (self.unit.ident(name), iv)), self.env[name]
            if f.id in ("max", "min") and len(a) == 1 and not isinstance(a[0], ast.Starred):
                v, t = self.expr(a[0])
                if t != "list[num]":
                    raise Unsupported("%s(%s) at line %d" % (f.id, t, e.lineno))
                return self.hoist("py_%s N %s" % (f.id, v)), "num"
            if f.id == "int" and len(a) == 1:
                v, t = self.expr(a[0])
                if t == "num":
                    return "(ntrunc N %s)" % v, "int"       # int(inf/nan) raises in Python: not modelled (as in the hand model)
                raise Unsupported("int(%s) at line %d" % (t, e.lineno))
            if f.id == "set" and len(a) == 1:
                v, t = self.expr(a[0])
                if t == "list[num]":
                    return "(py_set N %s)" % v, "set[num]"
                raise Unsupported("set(%s) at line %d" % (t, e.lineno))
            if f.id == "len" and len(a) == 1:
                n, nt = len(self.pending), self.ntemp
                v, t = self.expr(a[0])
                if t.startswith("set["):
                    return "(py_len %s)" % v, "int"
                del self.pending[n:]
                self.ntemp = nt
        if isinstance(f, ast.Attribute) and f.attr == "index" and len(a) == 1:
            n, nt = len(self.pending), self.ntemp
            v, t = self.expr(f.value)
            if t == "list[num]":
                x, xt = self.expr(a[0])
                if xt not in ("num", "int"):
                    raise Unsupported("%s.index(%s) at line %d" % (t, xt, e.lineno))
                return self.hoist("py_index_num N %s %s" % (v, self.as_num(x, xt))), "idx"
            del self.pending[n:]
            self.ntemp = nt
        return ImpTr.e_Call(self, e)

    def is_fresh(self, e):
        if is_self_call(e, "_to_list"):
            return getattr(self.unit, "to_list_fresh", False)     # checked on the source of _to_list
        return ImpTr.is_fresh(self, e)

    # ----------------------------------------------------------------- statements
    def stmts(self, ss, tail):
        if ss and isinstance(ss[0], ast.If) and id(ss[0]) in self.break_sites[-1]:
            s = ss[0]
            c, ct = self.expr(s.test)
            c = self.truth(c, ct, s)
            pre = self.take()
            return pre + "if %s then Ok (true, %s) else\n" % (c, self.tuple_of(self.loop_state[-1])) + self.stmts(ss[1:], tail)
        return ImpTr.stmts(self, ss, tail)

    def s_assign(self, target, value, op, s):
        if op is None and isinstance(target, ast.Name) and isinstance(value, ast.Call) and isinstance(value.func, ast.Name) \
                and value.func.id in ("__itemsetter", "__del"):
            if target.id in self.loop_iters:
                raise Unsupported("mutation of the iterated list %s at line %d" % (target.id, s.lineno))
            v, t = self.expr(value)
            if self.env.get(target.id) != t:
                raise Unsupported("mutation changes the type of %s at line %d" % (target.id, s.lineno))
            return self.take() + "let %s := %s in\n" % (self.unit.ident(target.id), v)
        return ImpTr.s_assign(self, target, value, op, s)

    def state_type(self, names, env):
        if not names:
            return "unit"
        return "(%s)%%type" % " * ".join(self.unit.coq_type(env[n]) for n in names)

    def open_state(self, names):
        if not names:
            return ""
        return "let %s := st_ in\n" % (self.unit.ident(names[0]) if len(names) == 1 else "'(" + ", ".join(self.unit.ident(n) for n in names) + ")")

    def loop_name(self, targets):
        name = LOOPNAMES.get(tuple(targets))
        if name is None or name in self.lifted_names:
            name = "g_bal_loop%d" % (len(self.lifted_names) + 1)      # unknown loop: the proofs will not find it
        self.lifted_names.add(name)
        return name

    def s_for(self, s, rest, tail):
        return self.for_core(s, False) + self.stmts(rest, tail)

    def for_core(self, s, trial):
        ln = s.lineno
        if s.orelse:
            raise Unsupported("for/else at line %d" % ln)
        is_range = isinstance(s.iter, ast.Call) and isinstance(s.iter.func, ast.Name) and s.iter.func.id == "range" \
            and "range" not in self.env
        body_assigned = assigned(s.body)
        target_names = [n.id for n in ast.walk(s.target) if isinstance(n, ast.Name)]
        for n in target_names:
            if n in body_assigned:
                raise Unsupported("loop variable %s assigned in the body at line %d" % (n, ln))
            if n in self.loop_iters:
                raise Unsupported("loop variable %s shadows an iterated list at line %d" % (n, ln))
        sites = set()
        if is_range:
            if s.iter.keywords or len(s.iter.args) != 1 or isinstance(s.iter.args[0], ast.Starred):
                raise Unsupported("range() shape at line %d" % ln)
            if not isinstance(s.target, ast.Name):
                raise Unsupported("range loop target at line %d" % ln)
            if any(isinstance(n, ast.Name) and n.id == s.target.id for st in s.body for n in ast.walk(st)):
                raise Unsupported("range loop whose counter is used in the body at line %d" % ln)
            cnt, ct = self.expr(s.iter.args[0])
            if ct != "int":
                raise Unsupported("range(%s) at line %d" % (ct, ln))
            it, elt = "(Z.to_nat %s)" % cnt, None
            for st in s.body:
                if isinstance(st, ast.If) and not st.orelse and len(st.body) == 1 and isinstance(st.body[0], ast.Break):
                    sites.add(id(st))
            bad = escapes([st for st in s.body if id(st) not in sites])
        else:
            it, itt = self.expr(s.iter)
            if not itt.startswith("list["):
                raise Unsupported("for over %s at line %d" % (itt, ln))
            elt = itt[5:-1]
            bad = escapes(s.body)
        if bad:
            raise Unsupported("%s inside a for body at line %d" % (type(bad[0]).__name__, bad[0].lineno))
        pre = self.take()
        iter_name = s.iter.id if isinstance(s.iter, ast.Name) else None
        if iter_name in body_assigned:
            raise Unsupported("iterated list %s assigned in the loop body at line %d" % (iter_name, ln))
        state = [n for n in body_assigned if n in self.env]          # carried across iterations
        saved_env = dict(self.env)
        used = set(n.id for st in s.body for n in ast.walk(st) if isinstance(n, ast.Name))
        if self.view and self.view[0] in used:
            used.add(self.view[1])                                     # get_throughput_sum(kernel) reads set_pp kernel idx ROW
            used.add(ROW)
        params = [n for n in saved_env if n in used and n not in state and n not in target_names]
        if is_range:
            pat = None
        else:
            pat = self.binder(s.target, elt)
        self.loop_iters.append(iter_name)
        self.break_sites.append(sites)
        self.loop_state.append(state)
        saved_pending, self.pending = self.pending, []
        try:
            body = self.stmts(list(s.body), lambda: ("Ok (false, %s)" if is_range else "Ok %s") % self.tuple_of(state))
        finally:
            self.loop_iters.pop()
            self.break_sites.pop()
            self.loop_state.pop()
            self.pending = saved_pending
        for n in state:
            if self.env.get(n) != saved_env[n] and not trial:
                raise Unsupported("variable %s changes type in a loop at line %d" % (n, ln))
            if trial:
                saved_env[n] = self.env.get(n, saved_env[n])
        self.env = saved_env                                          # loop-local names are dropped (a later use fails closed)
        for n in target_names + [n for n in body_assigned if n not in state]:
            self.env.pop(n, None)
        name = self.loop_name(target_names)
        st_t = self.state_type(state, saved_env)
        extras = [p for p in self.extra_params if re.search(r"(?<![A-Za-z0-9_])%s(?![A-Za-z0-9_])" % p, body)]
        ptext = "".join(" (%s : %s)" % (p, self.unit.coq_type(self.extra_params[p])) for p in extras)
        ptext += "".join(" (%s : %s)" % (self.unit.ident(p), self.unit.coq_type(saved_env[p])) for p in params)
        if is_range:
            head = "Definition %s%s (st_ : %s) : res (bool * %s)%%type :=\n" % (name, ptext, st_t, st_t)
            opener = self.open_state(state)
        else:
            head = "Definition %s%s (x_ : %s) (st_ : %s) : res %s :=\n" % (name, ptext, self.unit.coq_type(elt), st_t, st_t)
            opener = "let %s := x_ in\n" % pat + self.open_state(state)
        self.defs.append("(* body of the loop at line %d *)\n" % ln + head + textwrap.indent(opener + body, "  ") + ".\n")
        call = "(%s%s%s)" % (name, "".join(" " + p for p in extras), "".join(" " + self.unit.ident(p) for p in params))
        text = "%s <- %s %s %s %s ;;\n" % (self.bind_pat(state), "py_loop" if is_range else "py_for", it, self.tuple_of(state), call)
        return pre + text


# ------------------------------------------------------------------ driver
def find_function(unit, name):
    return unit.find(name)


def module_checks(unit):
    """facts about the module the translation relies on (fail closed)"""
    imp = [n for n in unit.tree.body if isinstance(n, ast.ImportFrom) and n.module == "operator"
           and any(a.name == "itemgetter" and a.asname is None for a in n.names)]
    rebound = [n for n in ast.walk(unit.tree) if isinstance(n, (ast.FunctionDef, ast.ClassDef)) and n.name == "itemgetter"] + \
              [n for n in unit.tree.body if isinstance(n, ast.Assign) and any(isinstance(t, ast.Name) and t.id == "itemgetter" for t in n.targets)]
    unit.has_itemgetter = bool(imp) and not rebound
    # _to_list returns a NEW list on every path (so storing into its result touches nothing else)
    tl = unit.find("_to_list")
    rets = [n for n in ast.walk(tl) if isinstance(n, ast.Return)]
    unit.to_list_fresh = bool(rets) and all(
        r.value is not None and (isinstance(r.value, ast.List) or (isinstance(r.value, ast.Call) and isinstance(r.value.func, ast.Name)
                                                                     and r.value.func.id == "list")) for r in rets)


def constants(fdef):
    """upper-case names bound exactly once, at the top level of the function, to a numeric literal"""
    out = {}
    stores = {}
    for n in ast.walk(fdef):
        if isinstance(n, ast.Name) and isinstance(n.ctx, (ast.Store, ast.Del)):
            stores[n.id] = stores.get(n.id, 0) + 1
    for s in fdef.body:
        if isinstance(s, ast.Assign) and len(s.targets) == 1 and isinstance(s.targets[0], ast.Name) and s.targets[0].id.isupper() \
                and isinstance(s.value, ast.Constant) and type(s.value.value) in (int, float) and stores.get(s.targets[0].id) == 1:
            out[s.targets[0].id] = (s, s.value.value)
    return out


UOP_T = "tuple[num,list[str]]"


def find_loops(fdef):
    """the instruction loop and, inside it, the micro-op loop (by shape; anything else fails closed)"""
    outer = [s for s in fdef.body if isinstance(s, ast.For)]
    if len(outer) != 1:
        raise Unsupported("expected exactly one top-level for loop in %s" % fdef.name)
    outer = outer[0]
    if ast.unparse(outer.target) != "(idx, instruction_form)" or ast.unparse(outer.iter) != "enumerate(kernel[start:], start)":
        raise Unsupported("instruction loop header changed: for %s in %s" % (ast.unparse(outer.target), ast.unparse(outer.iter)))
    inner = [s for s in outer.body if isinstance(s, ast.For) and ast.unparse(s.iter) == "instruction_form.port_uops"]
    if len(inner) != 1 or not isinstance(inner[0].target, ast.Name):
        raise Unsupported("micro-op loop `for <name> in instruction_form.port_uops` not found (exactly once) in the instruction loop")
    return outer, inner[0]


def alias_guard(outer):
    """syntactic side of the aliasing fact: inside the instruction loop `instruction_form` stays kernel[idx]"""
    for n in ast.walk(ast.Module(body=outer.body, type_ignores=[])):
        if isinstance(n, ast.Name) and isinstance(n.ctx, (ast.Store, ast.Del)) and n.id in ("kernel", "idx", "instruction_form", "start"):
            raise Unsupported("%s is assigned inside the instruction loop at line %d" % (n.id, n.lineno))
        if isinstance(n, ast.Subscript) and isinstance(n.ctx, (ast.Store, ast.Del)) and isinstance(n.value, ast.Name) and n.value.id == "kernel":
            raise Unsupported("kernel[...] is re-bound inside the instruction loop at line %d" % n.lineno)
        if isinstance(n, ast.Call) and isinstance(n.func, ast.Attribute) and isinstance(n.func.value, ast.Name) and n.func.value.id == "kernel":
            raise Unsupported("method call on the kernel list inside the instruction loop at line %d" % n.lineno)


def check_row_scope(body):
    """after Normalize: the instruction form is only reached through ROW, the kernel only through get_throughput_sum(kernel)"""
    parents = {}
    mod = ast.Module(body=body, type_ignores=[])
    for p in ast.walk(mod):
        for c in ast.iter_child_nodes(p):
            parents[id(c)] = p
    for n in ast.walk(mod):
        if isinstance(n, ast.Name) and n.id == "instruction_form":
            raise Unsupported("instruction_form used other than as instruction_form.port_pressure at line %d" % n.lineno)
        if isinstance(n, ast.Name) and n.id == "kernel":
            p = parents.get(id(n))
            if not (is_self_call(p, "get_throughput_sum") and len(p.args) == 1 and p.args[0] is n):
                raise Unsupported("kernel used other than in self.get_throughput_sum(kernel) at line %d" % n.lineno)
        if isinstance(n, ast.Attribute) and n.attr in ("port_pressure", "port_uops"):
            raise Unsupported("attribute .%s of something that is not the instruction form at line %d" % (n.attr, n.lineno))


def setup_constants(unit, tr, fdef):
    consts = constants(fdef)
    for name, (node, val) in consts.items():
        for n in ast.walk(fdef):
            if isinstance(n, ast.Name) and n.id == name and isinstance(n.ctx, ast.Load) and n.lineno <= node.lineno:
                raise Unsupported("constant %s used before its definition at line %d" % (name, n.lineno))
        unit.consts[name] = (unit.float_const(float(val)) if isinstance(val, float) else "(%d)%%Z" % val, "num" if isinstance(val, float) else "int")
        if val != 0:
            tr.nonzero_consts.add(name)
    return consts


def gen_balance(repo):
    sem = os.path.join(repo, "osaca/semantics/arch_semantics.py")
    hw = os.path.join(repo, "osaca/semantics/hw_model.py")
    u = BalUnit(sem, cls="ArchSemantics")
    module_checks(u)
    # self._machine_model.get_ports() is the port list self._data["ports"] that average_port_pressure indexes
    gp = BalUnit(hw, cls="MachineModel").find("get_ports")
    body = [s for s in gp.body if not (isinstance(s, ast.Expr) and isinstance(s.value, ast.Constant))]
    if len(body) != 1 or ast.unparse(body[0]) != "return self._data['ports']":
        raise Unsupported("MachineModel.get_ports no longer returns self._data['ports']")
    fdef = u.find("assign_optimal_throughput")
    a = fdef.args
    if [x.arg for x in a.args] != ["self", "kernel", "start"] or [ast.unparse(d) for d in a.defaults] != ["0"] or a.vararg or a.kwarg \
            or a.kwonlyargs or a.posonlyargs or fdef.decorator_list:
        raise Unsupported("signature of assign_optimal_throughput changed")
    parts, assumptions = gen_full(u, fdef)
    ASSUMPTIONS[:] = assumptions
    out = ["(* translated from %s:%d (ArchSemantics.assign_optimal_throughput) *)" % (sem, fdef.lineno)] + parts
    return HEADER.replace("@SRC@", sem).replace("@PRELUDE3@", PRELUDE3) + "\n" + "\n".join(out) + FOOTER


def generate(repo, outdir):
    """Returns {file: (ok, text-or-error)}; writes the file if it translates (only when it changed)."""
    os.makedirs(outdir, exist_ok=True)
    p = os.path.join(outdir, "BalanceGen.v")
    try:
        text = gen_balance(repo)
        old = open(p).read() if os.path.exists(p) else None
        if old != text:
            tmp = p + ".tmp%d" % os.getpid()
            with open(tmp, "w") as f:
                f.write(text)
            os.replace(tmp, p)
        return {"BalanceGen.v": (True, text)}
    except (Unsupported, SyntaxError, OSError, KeyError, IndexError, ValueError, AttributeError, TypeError) as e:
        for q in (p, p[:-2] + ".vo"):
            if os.path.exists(q):
                os.remove(q)
        return {"BalanceGen.v": (False, "%s: %s" % (type(e).__name__, e))}


# ====================================================================== stage 3: the whole function
PRELUDE3 = r"""
(* iterating instruction_form.port_uops: a list yields its micro-ops; a dict yields its int keys, and the first thing the
   loop body does with one is `uop[0]` -> TypeError (an empty dict: no iteration at all) *)
Definition py_iter_uops {T} (u : @uops T) : res (list (T * list string)) :=
  match u with UList us => Ok us | UDict [] => Ok [] | UDict (_ :: _) => Err EType end.
(* using None where a list is needed (iteration, subscript, get_throughput_sum): TypeError *)
Definition py_some {A} (o : option A) : res A := match o with Some x => Ok x | None => Err EType end.
(* sys.maxsize is None in `option T`: every port sum is below it *)
Definition py_lt_maxsize {T} (N : NumOps T) (x : T) (b : option T) : bool := match b with None => true | Some y => nltb N x y end.
Definition py_gt_maxsize {T} (N : NumOps T) (x : T) (b : option T) : bool := match b with None => false | Some y => nltb N y x end.
"""


class Normalize2(Normalize):
    """whole function: instruction_form -> kernel[idx] inside the instruction loop (THE ALIASING FACT);
         X[i].attr = v            -> X = __setattr(X, i, 'attr', v)
         X.reverse()              -> X = __reversed(X)
         self.assign_optimal_throughput(X, i)  -> X = __rec(X, i)        (the callee mutates its argument in place)
         for u in kernel[idx].port_uops: ...   -> followed by  kernel = __rowback(kernel, idx)   (the row view is written back)"""

    def __init__(self):
        Normalize.__init__(self, set())
        self.depth = 0

    def visit_For(self, n):
        if ast.unparse(n.target) == "(idx, instruction_form)":
            self.depth += 1
            n.iter = self.visit(n.iter)
            n.body = self.block(n.body)
            self.depth -= 1
            return n
        n = self.generic_visit(n)
        if ast.unparse(n.iter) == "kernel[idx].port_uops":
            tgt = ast.copy_location(ast.Name(id="kernel", ctx=ast.Store()), n)
            val = pseudo("__rowback", [ast.copy_location(ast.Name(id="kernel", ctx=ast.Load()), n),
                                       ast.copy_location(ast.Name(id="idx", ctx=ast.Load()), n)], n)
            return [n, ast.copy_location(ast.Assign(targets=[tgt], value=val), n)]
        return n

    def block(self, stmts):
        out = []
        for s in stmts:
            r = self.visit(s)
            out.extend(r if isinstance(r, list) else [r])
        return out

    def visit_Name(self, n):
        if self.depth and n.id == "instruction_form" and isinstance(n.ctx, ast.Load):
            k = ast.copy_location(ast.Name(id="kernel", ctx=ast.Load()), n)
            i = ast.copy_location(ast.Name(id="idx", ctx=ast.Load()), n)
            return ast.copy_location(ast.Subscript(value=k, slice=i, ctx=ast.Load()), n)
        return n

    def visit_Assign(self, n):
        n = self.generic_visit(n)
        if len(n.targets) == 1 and isinstance(n.targets[0], ast.Attribute):
            t = n.targets[0]
            if isinstance(t.value, ast.Subscript) and isinstance(t.value.value, ast.Name) and not isinstance(t.value.slice, ast.Slice):
                x = t.value.value.id
                tgt = ast.copy_location(ast.Name(id=x, ctx=ast.Store()), n)
                val = pseudo("__setattr", [ast.copy_location(ast.Name(id=x, ctx=ast.Load()), n), t.value.slice,
                                           ast.copy_location(ast.Constant(value=t.attr), n), n.value], n)
                return ast.copy_location(ast.Assign(targets=[tgt], value=val), n)
        return n

    def visit_Expr(self, n):
        n = Normalize.visit_Expr(self, n)
        if not isinstance(n, ast.Expr):
            return n
        c = n.value
        if isinstance(c, ast.Call) and isinstance(c.func, ast.Attribute) and c.func.attr == "reverse" and isinstance(c.func.value, ast.Name) \
                and not c.args and not c.keywords:
            x = c.func.value.id
            tgt = ast.copy_location(ast.Name(id=x, ctx=ast.Store()), n)
            return ast.copy_location(ast.Assign(targets=[tgt], value=pseudo("__reversed", [c.func.value], n)), n)
        if is_self_call(c, "assign_optimal_throughput") and len(c.args) == 2 and isinstance(c.args[0], ast.Name):
            tgt = ast.copy_location(ast.Name(id=c.args[0].id, ctx=ast.Store()), n)
            return ast.copy_location(ast.Assign(targets=[tgt], value=pseudo("__rec", list(c.args), n)), n)
        return n


PSEUDO = ("__itemsetter", "__del", "__setattr", "__reversed", "__rec", "__rowback")
INSTR_FIELDS = {"port_pressure": ("i_pp", "list[num]"), "throughput": ("i_tp", "num"), "port_uops": ("i_uops", "uops")}
SNAP = ("env", "pending", "loop_iters", "ntemp", "closures", "fresh", "aliased", "mutated", "may_mutate", "defs", "break_sites",
        "loop_state", "lifted_names", "atypes", "shared", "refined", "assumptions", "extra_params", "view", "nsc")


def tjoin(a, b):
    """least common type of two assignments to one variable (None: there is none)"""
    if a == b:
        return a
    for x, y in ((a, b), (b, a)):
        if x == "none" and not y.startswith("opt[") and y != "numinf":
            return "opt[%s]" % y
        if x.startswith("opt[") and y in ("none", x[4:-1]):
            return x
        if x == "numinf" and y in ("num", "int"):
            return "numinf"
    return None


def reads(node, name):
    return [n for n in ast.walk(node) if isinstance(n, ast.Name) and n.id == name and isinstance(n.ctx, ast.Load)]


def definite(stmts, name, defined):
    """every read of `name` in stmts is preceded, on every path through stmts, by an assignment to it; returns whether
    `name` is defined at the end.  Conservative (loops: the body may run zero times)."""
    for st in stmts:
        if isinstance(st, ast.If):
            if reads(st.test, name) and not defined:
                raise Unsupported("%s may be read before it is bound at line %d" % (name, st.lineno))
            a = definite(st.body, name, defined)
            b = definite(st.orelse, name, defined)
            defined = a and b
        elif isinstance(st, ast.For):
            if reads(st.iter, name) and not defined:
                raise Unsupported("%s may be read before it is bound at line %d" % (name, st.lineno))
            definite(st.body, name, defined)
        elif isinstance(st, ast.Assign) and len(st.targets) == 1 and isinstance(st.targets[0], ast.Name):
            if reads(st.value, name) and not defined:
                raise Unsupported("%s may be read before it is bound at line %d" % (name, st.lineno))
            if st.targets[0].id == name:
                defined = True
        else:
            if reads(st, name) and not defined:
                raise Unsupported("%s may be read before it is bound at line %d" % (name, st.lineno))
    return defined


class FullTr(BalTr):
    """the whole of assign_optimal_throughput (see Normalize2); result = the final value of the parameter `kernel`"""

    def __init__(self, unit, fdef, sig):
        BalTr.__init__(self, unit, fdef, sig)
        self.atypes = {}              # name -> types assigned to it (first pass over a loop body)
        self.shared = set()           # list variables that currently share their object with another variable
        self.refined = {}             # unparsed attribute path -> scrutinee variable holding its (refined) value
        self.assumptions = []
        self.nsc = 0
        self.trial = 0
        self.result = "kernel"

    # ----------------------------------------------------------------- helpers
    def snapshot(self):
        return {k: copy.deepcopy(getattr(self, k)) for k in SNAP}, dict(self.unit.consts)

    def restore(self, snap):
        for k, v in snap[0].items():
            setattr(self, k, v)
        self.unit.consts = snap[1]

    def unopt(self, v, t, e):
        """a value that must be a list: None -> TypeError"""
        if t.startswith("opt[list["):
            return self.hoist("py_some %s" % v), t[4:-1]
        return v, t

    def can_mutate(self, name, what, ln):
        if name in self.loop_iters:
            raise Unsupported("%s of the iterated list %s at line %d" % (what, name, ln))
        if name not in self.fresh and name not in self.may_mutate:
            raise Unsupported("%s of %s, which is not a list this function owns (aliasing) at line %d" % (what, name, ln))
        if name in self.shared:
            raise Unsupported("%s of %s while another variable shares the object (aliasing) at line %d" % (what, name, ln))

    def coerce_to(self, v, t, want, ln):
        if t == want:
            return v
        if want.startswith("opt[") and t == "none":
            return "None"
        if want.startswith("opt[") and t == want[4:-1]:
            return "(Some %s)" % v
        if want == "numinf" and t in ("num", "int"):
            return "(Some %s)" % self.as_num(v, t)
        if want == "uops" and t == "list[%s]" % UOP_T:
            return "(UList %s)" % v
        if want == "num" and t == "int":
            return self.as_num(v, t)
        raise Unsupported("value of type %s where %s is expected at line %d" % (t, want, ln))

    # ----------------------------------------------------------------- expressions
    def truth(self, v, t, e):
        if t.startswith("list["):
            return "(match %s with [] => false | _ :: _ => true end)" % v
        return BalTr.truth(self, v, t, e)

    def e_Attribute(self, e):
        key = ast.unparse(e)
        if key == "sys.maxsize" and "sys" not in self.env:
            if not getattr(self.unit, "has_sys", False):
                raise Unsupported("sys is not the module sys")
            return "None", "numinf"
        if key in self.refined:
            n = self.refined[key]
            return self.unit.ident(n), self.env[n]
        if e.attr in INSTR_FIELDS:
            v, t = self.expr(e.value)
            if t == "instr":
                proj, ft = INSTR_FIELDS[e.attr]
                return "(%s %s)" % (proj, v), ft
            raise Unsupported("attribute .%s on %s at line %d" % (e.attr, t, e.lineno))
        return BalTr.e_Attribute(self, e)

    def e_Subscript(self, e):
        if isinstance(e.slice, ast.Slice):
            s = e.slice
            if s.upper is None and s.step is None and isinstance(s.lower, ast.Constant) and type(s.lower.value) is int and s.lower.value >= 0:
                v, t = self.expr(e.value)
                if t.startswith("list["):
                    return "(skipn %d%%nat %s)" % (s.lower.value, v), t
            raise Unsupported("slice at line %d" % e.lineno)
        if isinstance(e.value, ast.Name) and self.env.get(e.value.id, "").startswith("opt[list["):
            v, t = self.unopt(*self.expr(e.value), e)
            i, it = self.expr(e.slice)
            if it != "idx":
                raise Unsupported("subscript %s[%s] at line %d" % (t, it, e.lineno))
            return self.hoist("nth_res %s %s" % (v, i)), t[5:-1]
        return BalTr.e_Subscript(self, e)

    def kernel_view(self, e):
        if isinstance(e, ast.Name) and self.env.get(e.id, "").startswith("opt[list[instr"):
            v, t = self.unopt(*self.expr(e), e)
            return v
        return BalTr.kernel_view(self, e)

    def compare1(self, l, op, r, e):
        if isinstance(op, (ast.Lt, ast.Gt)):
            n, nt = len(self.pending), self.ntemp
            lv, lt = self.expr(l)
            rv, rt = self.expr(r)
            if rt == "numinf" and lt in ("num", "int"):
                return "(py_%s_maxsize N %s %s)" % ("lt" if isinstance(op, ast.Lt) else "gt", self.as_num(lv, lt), rv)
            if "numinf" in (lt, rt):
                raise Unsupported("comparison with sys.maxsize at line %d" % e.lineno)
            del self.pending[n:]
            self.ntemp = nt
        return BalTr.compare1(self, l, op, r, e)

    def e_Call(self, e):
        f, a = e.func, e.args
        if e.keywords:
            raise Unsupported("keyword arguments at line %d" % e.lineno)
        if isinstance(f, ast.Name) and f.id not in self.env:
            if f.id == "deepcopy" and len(a) == 1:
                if not getattr(self.unit, "has_deepcopy", False):
                    raise Unsupported("deepcopy is not copy.deepcopy")
                return self.expr(a[0])                    # values: a copy is the value
            if f.id == "enumerate" and len(a) == 1:
                v, t = self.unopt(*self.expr(a[0]), e)
                if t.startswith("list["):
                    return "(py_enumerate %s)" % v, "list[tuple[idx,%s]]" % t[5:-1]
                raise Unsupported("enumerate(%s) at line %d" % (t, e.lineno))
            if f.id == "__setattr":
                name, attr = a[0].id, a[2].value
                if self.env.get(name) != "list[instr]" or attr not in ("port_uops", "port_pressure"):
                    raise Unsupported("store into attribute .%s of an element of %s at line %d" % (attr, name, e.lineno))
                self.can_mutate(name, "element attribute store", e.lineno)
                self.mutated.add(name)
                vv, vt = self.expr(a[3])                  # Python: the value first, then the target's sub-expressions
                vv = self.coerce_to(vv, vt, INSTR_FIELDS[attr][1], e.lineno)
                iv, it = self.expr(a[1])
                if it != "idx":
                    raise Unsupported("element index of type %s at line %d" % (it, e.lineno))
                x = self.unit.ident(name)
                o = self.hoist("nth_res %s %s" % (x, iv))
                new = "(mkinstr (i_tp %s) %s (i_uops %s))" % (o, vv, o) if attr == "port_pressure" else "(mkinstr (i_tp %s) (i_pp %s) %s)" % (o, o, vv)
                return self.hoist("set_nth %s %s %s" % (x, iv, new)), "list[instr]"
            if f.id == "__reversed":
                name = a[0].id
                if not self.env.get(name, "").startswith("list["):
                    raise Unsupported(".reverse() of %s at line %d" % (self.env.get(name), e.lineno))
                self.can_mutate(name, ".reverse()", e.lineno)
                self.mutated.add(name)
                return "(rev %s)" % self.unit.ident(name), self.env[name]
            if f.id == "__rec":
                name = a[0].id
                if self.env.get(name) != "list[instr]":
                    raise Unsupported("recursive call on %s at line %d" % (self.env.get(name), e.lineno))
                self.can_mutate(name, "recursive call (mutates its argument)", e.lineno)
                self.mutated.add(name)
                iv, it = self.expr(a[1])
                if it != "idx":
                    raise Unsupported("recursive call with start of type %s at line %d" % (it, e.lineno))
                self.extra_params["rec_"] = "REC"
                return self.hoist("rec_ %s %s" % (self.unit.ident(name), iv)), "list[instr]"
            if f.id == "__rowback":
                if not self.view or (a[0].id, a[1].id) != self.view or ROW not in self.env:
                    raise Unsupported("row view closed twice at line %d" % e.lineno)
                v = "(set_pp %s %s %s)" % (self.unit.ident(a[0].id), self.unit.ident(a[1].id), self.unit.ident(ROW))
                self.view = None
                del self.env[ROW]
                return v, "list[instr]"
        if isinstance(f, ast.Attribute):
            key = ast.unparse(f)
            if key == "self._machine_model.get_ports" and not a:
                self.extra_params["self_ports"] = "list[str]"
                return "self_ports", "list[str]"
            if key == "self._machine_model.average_port_pressure" and len(a) == 1:
                v, t = self.expr(a[0])
                v = self.coerce_to(v, t, "uops", e.lineno)
                self.extra_params["self_ports"] = "list[str]"
                return self.hoist("g_average_port_pressure N self_ports %s (0)%%Z" % v), "list[num]"
            if f.attr == "values" and not a:
                n, nt = len(self.pending), self.ntemp
                v, t = self.expr(f.value)
                if t.startswith("dict[int,"):
                    return v, "list[%s]" % targs(t)[1]        # the values in key order (data representation)
                del self.pending[n:]
                self.ntemp = nt
        return BalTr.e_Call(self, e)

    def is_fresh(self, e):
        if isinstance(e, ast.Call) and isinstance(e.func, ast.Name) and e.func.id == "deepcopy":
            return True
        if isinstance(e, ast.Call) and isinstance(e.func, ast.Attribute) and ast.unparse(e.func) == "self._machine_model.average_port_pressure":
            return True
        return BalTr.is_fresh(self, e)

    # ----------------------------------------------------------------- statements
    def s_return(self, s):
        if s.value is None:
            if self.loop_state[-1] is not None or len(self.loop_iters) > 0:
                raise Unsupported("return inside a loop at line %d" % s.lineno)
            return "Ok %s" % self.unit.ident(self.result)         # the caller sees the (mutated) kernel
        raise Unsupported("return of a value at line %d" % s.lineno)

    def s_assign(self, target, value, op, s):
        ln = s.lineno
        if op is None and isinstance(target, ast.Name):
            name = target.id
            if name in self.loop_iters:
                raise Unsupported("assignment to the iterated list %s at line %d" % (name, ln))
            is_pseudo = isinstance(value, ast.Call) and isinstance(value.func, ast.Name) and value.func.id in PSEUDO
            v, t = self.expr(value)
            for k in [k for k in self.refined if k.startswith(name + "[") or k.startswith(name + ".")]:
                del self.refined[k]               # the value was computed with the old object
            t0 = t
            self.atypes.setdefault(name, []).append(t)
            if name in self.env and self.trial and self.env[name] != t:
                j = tjoin(self.env[name], t)
                if j is None:
                    raise Unsupported("variable %s changes type (%s -> %s) at line %d" % (name, self.env[name], t, ln))
                t = j
            elif name in self.env:
                v = self.coerce_to(v, t, self.env[name], ln)
                t = self.env[name]
            self.closures.pop(name, None)
            pre = self.take()
            self.env[name] = t
            if not is_pseudo and (t.startswith("list[") or t.startswith("opt[list[") or t.startswith("dict[")):
                if t0 == "none":
                    self.shared.discard(name)                     # no object at all
                    self.fresh.discard(name)
                elif isinstance(value, ast.Name):
                    self.shared.update((name, value.id))          # two names, one object
                    self.fresh.discard(name)
                elif self.is_fresh(value):
                    self.fresh.add(name)
                    self.shared.discard(name)
                else:
                    base = value
                    while isinstance(base, (ast.Subscript, ast.Attribute)):
                        base = base.value
                    if isinstance(base, ast.Call):
                        base = base.func
                        while isinstance(base, (ast.Subscript, ast.Attribute)):
                            base = base.value
                    if not (isinstance(base, ast.Name) and base.id == "self"):
                        # e.g. row = kernel[i].port_pressure: a later mutation of the kernel would have to show through `row`
                        raise Unsupported("list variable %s bound to a part of another object at line %d (aliasing)" % (name, ln))
                    self.shared.add(name)                         # owned by self: the variable may be read, never mutated
                    self.fresh.discard(name)
            return pre + "let %s := %s in\n" % (self.unit.ident(name), v)
        if isinstance(target, ast.Subscript) and isinstance(target.value, ast.Name) and target.value.id in self.shared:
            raise Unsupported("store into %s while another variable shares the object at line %d" % (target.value.id, ln))
        return BalTr.s_assign(self, target, value, op, s)

    def s_if(self, s, rest, tail):
        """gen_c01.ImpTr.s_if with: isinstance on an attribute path (the path is refined inside the branches), and the
        flow-sensitive sets (shared, refined) merged over the branches"""
        ln = s.lineno
        pre0 = ""
        t = s.test
        added = None
        if isinstance(t, ast.Call) and isinstance(t.func, ast.Name) and t.func.id == "isinstance" and len(t.args) == 2 \
                and not t.keywords and isinstance(t.args[0], ast.Attribute):
            key = ast.unparse(t.args[0])
            v, ty = self.expr(t.args[0])
            if ty != "uops":
                raise Unsupported("isinstance on a value of type %s at line %d" % (ty, ln))
            self.nsc += 1
            sc = "SC%d" % self.nsc
            pre0 = self.take() + "let %s := %s in\n" % (self.unit.ident(sc), v)
            self.env[sc] = ty
            s = copy.copy(s)
            s.test = copy.copy(t)
            s.test.args = [ast.copy_location(ast.Name(id=sc, ctx=ast.Load()), t), t.args[1]]
            self.refined[key] = sc
            added = (key, sc)
        st = self.sum_test(s.test)
        defines_fn = contains(s.body + s.orelse, (ast.FunctionDef,)) is not None
        returns = contains(s.body + s.orelse, (ast.Return,)) is not None
        if not rest or defines_fn or returns:
            mk = lambda body: self.stmts(body + rest, tail)
            joined = None
        else:
            joined = [n for n in assigned(s.body + s.orelse)]
            mk = None
        saved_env, saved_cl = dict(self.env), dict(self.closures)
        saved_shared, saved_ref, saved_view = set(self.shared), dict(self.refined), self.view
        outs = []

        def branch(body, refine):
            self.env, self.closures = dict(saved_env), dict(saved_cl)
            self.shared, self.refined, self.view = set(saved_shared), dict(saved_ref), saved_view
            if refine:
                self.env[refine[0]] = refine[1]
            if mk:
                text = mk(body)
                outs.append((set(self.shared), dict(self.refined), self.view))
                return text, None
            text = self.stmts(body, lambda: "\0JOIN")
            outs.append((set(self.shared), dict(self.refined), self.view))
            return text, dict(self.env)

        if st is None:
            c, ct = self.expr(s.test)
            c = self.truth(c, ct, s)
            pre = self.take()
            a, ea = branch(s.body, None)
            b, eb = branch(s.orelse, None)
            shape = lambda x, y: "if %s then\n%s\nelse\n%s" % (c, x, y)
        else:
            name, (_, ctor_t, ty_t), (_, ctor_f, ty_f) = st
            pre = ""
            a, ea = branch(s.body, (name, ty_t))
            b, eb = branch(s.orelse, (name, ty_f))
            xx = self.unit.ident(name)
            shape = lambda x, y: "match %s with\n| %s %s =>\n%s\n| %s %s =>\n%s\nend" % (xx, ctor_t, xx, x, ctor_f, xx, y)
        self.env, self.closures = dict(saved_env), dict(saved_cl)
        self.shared = outs[0][0] | outs[1][0]
        self.refined = {k: v for k, v in outs[0][1].items() if outs[1][1].get(k) == v}
        if outs[0][2] != outs[1][2]:
            raise Unsupported("row view open in one branch only at line %d" % ln)
        self.view = outs[0][2]
        if added:
            self.refined.pop(added[0], None)
            self.env.pop(added[1], None)
        if joined is None:
            return pre0 + pre + shape(textwrap.indent(a, "  "), textwrap.indent(b, "  "))
        keep = []
        for n in joined:
            if st is not None and n == st[0]:
                raise Unsupported("assignment to the scrutinee %s inside isinstance branches at line %d" % (n, ln))
            if n in ea and n in eb and ea[n] == eb[n]:
                keep.append(n)
                self.env[n] = ea[n]
            else:
                self.env.pop(n, None)      # a later use is a free name -> Unsupported
        out = "Ok %s" % self.tuple_of(keep)
        a, b = a.replace("\0JOIN", out), b.replace("\0JOIN", out)
        return pre0 + pre + "%s <- (%s) ;;\n" % (self.bind_pat(keep), shape(textwrap.indent(a, "  "), textwrap.indent(b, "  "))) \
            + self.stmts(rest, tail)

    def predeclared_type(self, name, ln):
        ts = set(self.atypes.get(name, []))
        if "numinf" in ts and ts <= {"numinf", "num", "int"}:
            return "numinf"
        rest = ts - {"none"}
        if "none" in ts and len(rest) == 1 and not list(rest)[0].startswith("opt["):
            return "opt[%s]" % list(rest)[0]
        raise Unsupported("variable %s is first bound inside the loop at line %d and read after it, with types %s (no `unbound` "
                          "representation)" % (name, ln, sorted(ts)))

    def s_for(self, s, rest, tail):
        ln = s.lineno
        # ---- special loop headers
        instr_loop = ast.unparse(s.target) == "(idx, instruction_form)"
        if instr_loop:
            if ast.unparse(s.iter) != "enumerate(kernel[start:], start)" or self.env.get("kernel") != "list[instr]" \
                    or self.env.get("start") != "idx" or "idx" in self.env or "instruction_form" in self.env:
                raise Unsupported("instruction loop header at line %d" % ln)
            # by the aliasing fact instruction_form is kernel[idx] (Normalize2): the loop runs over the indices
            s = copy.copy(s)
            s.target = ast.copy_location(ast.Name(id="idx", ctx=ast.Store()), s.target)
            s.iter = ast.copy_location(ast.Name(id="IDXS", ctx=ast.Load()), s.iter)
            self.env["IDXS"] = "list[idx]"
            opener = "let %s := (seq %s (List.length %s - %s)) in\n" % (
                self.unit.ident("IDXS"), self.unit.ident("start"), self.unit.ident("kernel"), self.unit.ident("start"))
            out = opener + self.loop2(s, rest, tail, drop=["IDXS"])
            return out
        if ast.unparse(s.iter) == "kernel[idx].port_uops":
            if self.view or ROW in self.env or not isinstance(s.target, ast.Name):
                raise Unsupported("micro-op loop header at line %d" % ln)
            first = s.body[0] if s.body else None
            if not (isinstance(first, ast.Assign) and isinstance(first.value, ast.Subscript) and isinstance(first.value.value, ast.Name)
                    and first.value.value.id == s.target.id and isinstance(first.value.slice, ast.Constant)):
                raise Unsupported("the micro-op loop body must start by subscripting the micro-op (TypeError on a dict key) at line %d" % ln)
            if not (rest and isinstance(rest[0], ast.Assign) and isinstance(rest[0].value, ast.Call)
                    and isinstance(rest[0].value.func, ast.Name) and rest[0].value.func.id == "__rowback"):
                raise Unsupported("row view is not written back after the micro-op loop at line %d" % ln)
            check_row_scope(s.body)
            k, i = self.unit.ident("kernel"), self.unit.ident("idx")
            ins = self.hoist("nth_res %s %s" % (k, i))
            us = self.hoist("py_iter_uops (i_uops %s)" % ins)
            pre = self.take()
            s = copy.copy(s)
            s.iter = ast.copy_location(ast.Name(id="UOPS", ctx=ast.Load()), s.iter)
            self.env["UOPS"] = "list[%s]" % UOP_T
            self.env[ROW] = "list[num]"
            self.may_mutate.add(ROW)
            self.view = ("kernel", "idx")
            opener = "let %s := %s in\nlet %s := (i_pp %s) in\n" % (self.unit.ident("UOPS"), us, self.unit.ident(ROW), ins)
            return pre + opener + self.loop2(s, rest, tail, drop=["UOPS"])
        return self.loop2(s, rest, tail)

    def loop2(self, s, rest, tail, drop=()):
        """two passes: the first (trial, output discarded) finds the types of the variables first bound in the body and
        read after the loop, and what the body leaves shared (back edge)"""
        ln = s.lineno
        body_assigned = assigned(s.body)
        target_names = [n.id for n in ast.walk(s.target) if isinstance(n, ast.Name)]
        unbound = [n for n in body_assigned if n not in self.env and n not in target_names
                   and any(reads(r, n) for r in rest)]
        entry_shared = set(self.shared)
        types = {}
        for _ in range(4):
            snap = self.snapshot()
            self.atypes = {}
            self.shared = set(entry_shared)
            self.trial += 1
            err = None
            try:
                self.for_core(s, True)
            except Unsupported as e:
                err = e
            self.trial -= 1
            atypes, end_shared = self.atypes, set(self.shared)
            self.restore(snap)
            if err is not None:
                if unbound:
                    raise Unsupported("loop at line %d binds %s for later use and its body does not translate: %s" % (ln, unbound, err))
                break
            types = {n: self.predeclared_type_from(atypes, n, ln) for n in unbound}
            if entry_shared | end_shared == entry_shared:
                break
            entry_shared |= end_shared
        pre = ""
        for n in unbound:
            definite(s.body, n, False)
            self.env[n] = types[n]
            pre += "let %s := None in\n" % self.unit.ident(n)
            self.assumptions.append("%s is first bound inside the loop at line %d and read after it: an unbound %s reads as %s "
                                    "(UnboundLocalError is not modelled; the hand model does the same)"
                                    % (n, ln, n, "sys.maxsize" if types[n] == "numinf" else "None"))
        self.shared = set(entry_shared)
        text = self.for_core(s, False)
        self.shared |= entry_shared
        for n in drop:
            self.env.pop(n, None)
        return pre + text + self.stmts(rest, tail)

    def predeclared_type_from(self, atypes, name, ln):
        saved, self.atypes = self.atypes, atypes
        try:
            return self.predeclared_type(name, ln)
        finally:
            self.atypes = saved

    def translate(self):
        body = self.stmts(self.fdef.body, lambda: "Ok %s" % self.unit.ident(self.result))
        if self.pending:
            raise Unsupported("internal: pending hoists at the end of the function")
        params = "".join(" (%s : %s)" % (self.unit.ident(p), self.unit.coq_type(t)) for p, t in self.sig["params"].items())
        return ("Fixpoint %s (fuel : nat) (self_ports : (list string))%s {struct fuel} : res %s :=\n"
                "  match fuel with\n  | O => Err EFuel\n  | S fuel' =>\n    let rec_ := %s fuel' self_ports in\n%s\n  end."
                % (self.sig["coqname"], params, self.unit.coq_type(self.ret), self.sig["coqname"], textwrap.indent(body, "    ")))


LOOPNAMES.update({("idx",): "g_bal_instr", ("port_util_alt",): "g_bal_alt", ("i", "instr"): "g_bal_copy"})


def gen_full(unit, fdef):
    """stage 3: the whole function as g_assign_optimal_throughput fuel self_ports kernel start"""
    outer, inner = find_loops(fdef)
    alias_guard(outer)
    f2 = copy.deepcopy(fdef)
    outer2, inner2 = find_loops(f2)
    Normalize({"instruction_form"}).visit(inner2)            # the row view inside the micro-op loop
    f2 = Normalize2().visit(f2)
    ast.fix_missing_locations(f2)
    imports = {}
    for n in unit.tree.body:
        if isinstance(n, ast.Import):
            for a in n.names:
                imports[a.asname or a.name] = a.name
        if isinstance(n, ast.ImportFrom):
            for a in n.names:
                imports[a.asname or a.name] = "%s.%s" % (n.module, a.name)
    rebound = set(n.name for n in ast.walk(unit.tree) if isinstance(n, (ast.FunctionDef, ast.ClassDef))) | \
        set(t.id for n in unit.tree.body if isinstance(n, ast.Assign) for t in n.targets if isinstance(t, ast.Name))
    unit.has_sys = imports.get("sys") == "sys" and "sys" not in rebound
    unit.has_deepcopy = imports.get("deepcopy") == "copy.deepcopy" and "deepcopy" not in rebound
    sig = {"params": {"kernel": "list[instr]", "start": "idx"}, "ret": "list[instr]", "coqname": "g_assign_optimal_throughput", "call": None}
    tr = FullTr(unit, f2, sig)
    consts = setup_constants(unit, tr, fdef)
    const_lines = set(node.lineno for node, _ in consts.values())
    f2.body = [s for s in f2.body if not (isinstance(s, ast.Assign) and s.lineno in const_lines
                                          and isinstance(s.targets[0], ast.Name) and s.targets[0].id in consts)]
    tr.may_mutate.add("kernel")
    text = tr.translate()
    return tr.defs + [text + "\n"], tr.assumptions


if __name__ == "__main__":
    import sys
    r = generate(sys.argv[1] if len(sys.argv) > 1 and not sys.argv[1].startswith("-") else "/repo",
                 os.path.join(os.path.dirname(os.path.abspath(__file__)), "../coq/Gen"))
    for k, (ok, t) in r.items():
        print(k, "ok" if ok else t)
        if ok and "-v" in sys.argv:
            print(t)
