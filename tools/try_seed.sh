#!/bin/sh
# usage: tools/try_seed.sh Cxx [name under seeded/] [worktree]   -- validate a seeded change and run the check against it
P=$1; WT=${3:-/tmp/seed-${2:-$P}}; OUT=/verif/seeded/${2:-$P}
mkdir -p $OUT
cp $WT/SEED/patch.diff $WT/SEED/demo.py $WT/SEED/meta.json $OUT/ 2>/dev/null
echo "== demo on changed tree (expect exit 1)"; (cd /tmp && HOME=$WT/.home timeout 900 /venv/bin/python $OUT/demo.py $WT > $OUT/demo_changed.log 2>&1; echo "rc=$?" | tee $OUT/demo_changed.rc); tail -3 $OUT/demo_changed.log
echo "== demo on unchanged tree (expect exit 0)"; (cd /tmp && HOME=$WT/.home timeout 900 /venv/bin/python $OUT/demo.py /repo > $OUT/demo_unchanged.log 2>&1; echo "rc=$?" | tee $OUT/demo_unchanged.rc); tail -2 $OUT/demo_unchanged.log
echo "== stable tests on changed tree"; (cd $WT && HOME=$WT/.home PYTHONPATH=$WT timeout 1200 /venv/bin/python -m pytest -q -p no:cacheprovider tests/test_base_parser.py tests/test_parser_x86att.py tests/test_parser_AArch64.py tests/test_marker_utils.py tests/test_cli.py::TestCLI::test_check_arguments tests/test_cli.py::TestCLI::test_check_db tests/test_cli.py::TestCLI::test_get_parser tests/test_cli.py::TestCLI::test_import_data tests/test_cli.py::TestCLI::test_without_arch tests/test_db_interface.py::TestDBInterface::test_asmbench_import tests/test_db_interface.py::TestDBInterface::test_human_readable_instr_name tests/test_db_interface.py::TestDBInterface::test_ibench_import 2>&1 | tail -1 | tee $OUT/tests.log)
echo "== check $P against the changed tree"; (cd /verif && VERIF_REPO=$WT timeout 3000 ./check $P --tier quick > $OUT/check.log 2>&1; echo "rc=$?" | tee $OUT/check.rc); grep -n "VIOLATION\|KNOWN-FINDING\|done:" $OUT/check.log | cut -c1-300
