"""Validate every evidence/*.json against /root/.vp/EVIDENCE.schema.json and the proof-level rule discharged == obligations."""
import glob, json, sys
import jsonschema
schema = json.load(open("/root/.vp/EVIDENCE.schema.json"))
bad = 0
for p in sorted(glob.glob("/verif/evidence/*.json")):
    d = json.load(open(p))
    try:
        jsonschema.validate(d, schema)
        c = d["coverage"]
        msg = "ok" if c.get("discharged") == c.get("obligations") else "DISCHARGED %s != OBLIGATIONS %s" % (c.get("discharged"), c.get("obligations"))
    except jsonschema.ValidationError as e:
        msg = "INVALID: " + e.message[:200]
    if msg != "ok":
        bad += 1
    print(p.split("/")[-1], d.get("tier"), d.get("seed"), d.get("coverage", {}).get("obligations"), d.get("coverage", {}).get("evaluations"), d.get("violations"), msg)
sys.exit(1 if bad else 0)
