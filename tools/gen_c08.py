"""Regenerate coq/Gen/CostGen.v from the CURRENT source of

    MachineModel._match_mem_entries, get_load_latency, get_load_throughput, get_store_latency, get_store_throughput
                                                                              (osaca/semantics/hw_model.py)
    ISASemantics._create_reg_wildcard, substitute_mem_address                 (osaca/semantics/isa_semantics.py)
    ArchSemantics._handle_instruction_found, assign_tp_lt                     (osaca/semantics/arch_semantics.py)

fail closed.  Typed imperative layer of tools/gen_c01.py (ImpTr: error monad, hoisting of raising sub-expressions in
evaluation order, joins) extended by what this object-heavy code needs:

  * objects are RECORD VALUES: `instruction_form.attr = v` re-binds the form to an updated record (coq/Model/CostPy.v:
    pyform / pyentry); a function that mutates a parameter returns it (`assign_tp_lt` returns the form,
    `_handle_instruction_found` returns (result, form, flags)) and the call site re-binds the argument names;
  * in-place list mutation (`l.append`, `l += ..`, `l.remove`, `obj.flags += ..`) only on lists the function OWNS (created
    here and not shared since, a parameter declared as mutated, the form's own flag list before it is shared):
    flow-sensitive guard, anything else -> Unsupported (e.g. `data_port_uops += st_data_port_uops`, which would extend a
    row of the machine model in place);
  * narrowing: `if x is None`, `if x:` / `if not x:` on option-typed names (objects: is-not-None; numbers: None or 0),
    `if <form>.mnemonic is None`, `[.. for x in l if isinstance(x, MemoryOperand)]`, `E if E else d` on a pure look-up E;
  * raising sub-expressions inside `and`/`or`, conditional expressions and comprehension filters (monadic blocks);
  * joins over all leaves of nested `if`s, with `num` promoted to `option num` when a leaf still holds an optional value;
  * `try: assert..; S except AssertionError: H` = `if <asserts> then S else H` (asserts must be a pure prefix);
  * tuple returns / unpacking, typed empty lists, variables that change type in straight-line code.

PARAMETERS of the generated text (not re-translated): `get_instruction` (C07) and the parser's `get_reg_type` are function
parameters; `_is_x86_mem_type` / `_is_AArch64_mem_type` / `_check_operands` are Model/Match.v (C07's hand model, tied by
C07's translator); `average_port_pressure` is Gen/PressureGen.v (C01's translator tie).
Data representation: coq/Model/CostPy.v (header comment) and ASSUMPTIONS below."""
import ast
import os
import textwrap

import py2coq
from py2coq import Unsupported, cstr
import gen_c01
from gen_c01 import ImpTr, ImpUnit, targs, contains, EXC

GEN = "CostGen.v"

ASSUMPTIONS = [
    "an instruction form / model entry is a record value (Model/CostPy.v pyform, pyentry); the forms of a kernel are distinct objects "
    "with their own flag lists; a parsed memory operand has dst = src = None",
    "machine model = Costing.mach + Rows.tables: self._isa and self._data['isa'].lower() are the same string, 'x86' or 'aarch64' "
    "(ArchSemantics.__init__ / get_ISA checked syntactically); MachineModel.__getitem__/__contains__ are dict accesses on _data "
    "(checked syntactically); InstructionForm defines no __bool__/__len__ (checked): `not entry` is `entry is None`",
    "list(set(flags)) is rendered in one canonical order (set iteration order is unspecified); flag lists are compared as sets",
    "operands.index({'*': '*'}) is the position of the first wildcard dict (operand classes' __eq__ answer False for a dict: C07)",
    "warnings.warn has no effect on the result; int 0 and float 0.0 are the same number (n0)",
    "AttributeError of the x86 matcher is carried in the error slot EAttr (= EFuel)",
]

COQ_TYPES = {
    "num": "T", "int": "Z", "bool": "bool", "str": "string", "idx": "nat", "flag": "flag", "operand": "operand",
    "memop": "memop", "reg": "regop", "pattern": "pattern", "entry": "(pyentry T)", "form": "(pyform T)",
    "uop": "(@uop T)", "uops": "(@uops T)", "puops": "(@puops T)", "ldrow": "(row (list (@uop T)))",
    "strow": "(row (list (@uop T)))", "rowhead": "rowhead", "postix": "postix", "mach": "(mach (T:=T))",
    "tables": "(tables (T:=T))", "numtab": "(list (string * T))", "onumtab": "(list (string * option T))", "unit": "unit",
}

# record fields: (type, attribute) -> (projection, field type)
FIELDS = {
    ("form", "mnemonic"): ("fo_mnemonic", "opt[str]"), ("form", "operands"): ("fo_operands", "list[operand]"),
    ("form", "flags"): ("fo_flags", "list[flag]"), ("form", "port_pressure"): ("fo_port_pressure", "list[num]"),
    ("form", "port_uops"): ("fo_port_uops", "puops"), ("form", "throughput"): ("fo_throughput", "opt[num]"),
    ("form", "latency"): ("fo_latency", "opt[num]"), ("form", "latency_wo_load"): ("fo_latency_wo_load", "opt[num]"),
    ("form", "latency_cp"): ("fo_latency_cp", "int"), ("form", "latency_lcd"): ("fo_latency_lcd", "int"),
    ("entry", "throughput"): ("en_throughput", "opt[num]"), ("entry", "latency"): ("en_latency", "opt[num]"),
    ("entry", "port_pressure"): ("en_port_pressure", "uops"), ("entry", "operands"): ("en_operands", "list[pattern]"),
    ("memop", "post_indexed"): ("m_post", "postix"), ("memop", "pre_indexed"): ("m_pre", "bool"),
    ("rowhead", "dst"): ("rh_dst", "opt[str]"), ("rowhead", "src"): ("rh_src", "opt[str]"),
}
# fields of the form that assign_tp_lt may set
SETTABLE = {"flags", "port_pressure", "port_uops", "throughput", "latency", "latency_wo_load", "latency_cp", "latency_lcd"}
# form.semantic_operands[<key>]
SEMOPS = {"source": "fo_source", "destination": "fo_destination", "src_dst": "fo_src_dst"}
# self._data[<key>] / self._machine_model[<key>]: (text, type, may be absent)
MM_KEYS = {
    "ports": ("(m_ports v_mm)", "list[str]", False),
    "load_latency": ("(m_ld_lat v_mm)", "onumtab", False),
    "load_throughput": ("(t_ld v_tb)", "list[ldrow]", False),
    "load_throughput_default": ("(t_ld_default v_tb)", "list[uop]", False),
    "store_throughput": ("(t_st v_tb)", "list[strow]", False),
    "store_throughput_default": ("(t_st_default v_tb)", "list[uop]", False),
    "load_throughput_multiplier": ("(m_ld_mult v_mm)", "numtab", True),
    "store_throughput_multiplier": ("(m_st_mult v_mm)", "numtab", True),
}
MM_OBJS = ("self._data", "self._machine_model")
# typed empty lists: `name = []`
LOCAL_EMPTY = {"flags": "list[flag]", "data_port_uops": "list[uop]", "st_data_port_uops": "list[uop]"}
FLAG_CTORS = {"performs_load": "F_HAS_LD", "performs_store": "F_HAS_ST", "is_load_instruction": "F_LD",
              "tp_unknown": "F_TP_UNKWN", "lt_unknown": "F_LT_UNKWN", "not_bound": "F_NOT_BOUND"}

ROWS_T = "list[tuple[rowhead,list[uop]]]"

HEADER = """(* GENERATED by tools/gen_c08.py from
     @SRC@
   -- do not edit *)
From Coq Require Import ZArith List Bool String Ascii.
From OV Require Import Model.PyString Model.Match.
From OV Require Import Model.Num Model.Pressure Model.Costing Model.Rows Model.CostPy.
From OV Require Gen.PressureGen.
Import ListNotations.
Open Scope string_scope.

Section Gen.
Context {T : Type} (N : NumOps T).
"""
FOOTER = """
End Gen.
"""


class CostUnit(ImpUnit):
    def __init__(self, path, cls, registry, consts):
        ImpUnit.__init__(self, path, cls=cls)
        self.registry = registry        # python method name -> signature dict (all translated functions so far)
        self.class_consts = consts      # {"GAS_SUFFIXES": "bswlqt", "INSTR_FLAGS": {...}}

    def coq_type(self, t):
        if t in COQ_TYPES:
            return COQ_TYPES[t]
        if t.startswith("list["):
            return "(list %s)" % self.coq_type(t[5:-1])
        if t.startswith("opt["):
            return "(option %s)" % self.coq_type(t[4:-1])
        if t.startswith("tuple["):
            return "(%s)%%type" % " * ".join(self.coq_type(a) for a in targs(t))
        raise Unsupported("no Coq type for %s" % t)


def is_list(t):
    return t.startswith("list[")


def assigned2(stmts, registry=None):
    """names whose VALUE (in the record/value translation) a statement list may change, in order of first occurrence"""
    out = []

    def add(n):
        if n not in out:
            out.append(n)

    def base(t):
        while isinstance(t, (ast.Attribute, ast.Subscript)):
            t = t.value
        if isinstance(t, ast.Name):
            return t.id
        raise Unsupported("assignment target at line %d" % t.lineno)

    def tgt(t):
        if isinstance(t, (ast.Tuple, ast.List)):
            for x in t.elts:
                tgt(x)
        else:
            add(base(t))

    def walk(ss):
        for s in ss:
            if isinstance(s, ast.Assign):
                for t in s.targets:
                    tgt(t)
            elif isinstance(s, (ast.AugAssign, ast.AnnAssign)):
                tgt(s.target)
            elif isinstance(s, ast.For):
                tgt(s.target)
                walk(s.body)
                walk(s.orelse)
            elif isinstance(s, (ast.If, ast.While)):
                walk(s.body)
                walk(s.orelse)
            elif isinstance(s, ast.Try):
                walk(s.body)
                for h in s.handlers:
                    if h.name:
                        add(h.name)
                    walk(h.body)
                walk(s.orelse)
                walk(s.finalbody)
            elif isinstance(s, (ast.With, ast.FunctionDef, ast.ClassDef, ast.Global, ast.Nonlocal, ast.Delete, ast.Import,
                                ast.ImportFrom)):
                raise Unsupported("statement %s at line %d" % (type(s).__name__, s.lineno))
            # calls: a method call on a name may mutate it; names passed to a call may be mutated by the callee
            for n in ast.walk(s):
                if isinstance(n, ast.NamedExpr):
                    raise Unsupported("walrus at line %d" % n.lineno)
                if isinstance(n, ast.Call):
                    if isinstance(n.func, ast.Attribute) and n.func.attr in ("append", "remove", "extend", "insert", "pop", "clear",
                                                                              "sort", "reverse", "update"):
                        add(base(n.func.value))
                    if isinstance(n.func, ast.Attribute) and registry and n.func.attr in registry:
                        sig = registry[n.func.attr]
                        for k, pn in enumerate(sig["params"]):
                            if pn in sig["mutates"] and k < len(n.args) and isinstance(n.args[k], ast.Name):
                                add(n.args[k].id)
    walk(stmts)
    return out


class CostTr(ImpTr):
    """One function of the costing path (see the module docstring)."""

    def __init__(self, unit, fdef, sig):
        ImpTr.__init__(self, unit, fdef, sig)
        self.narrow = {}             # unparse key of an attribute expression -> (coq variable, narrowed type)
        self.owned = set()           # local list names bound to a list object created here and not shared since
        self.shared = set()          # (object name, attribute) whose list is shared with another name
        self.in_loop = 0
        self.uses = set()            # external parameters used: "gi", "grt"
        for p in sig.get("mutates", ()):
            if is_list(sig["params"][p]):
                self.owned.add(p)

    # ----------------------------------------------------------------- helpers
    def sub(self, e):
        """translate e with its own hoists: (value text, type, [(temp, monadic text)])"""
        saved, self.pending = self.pending, []
        try:
            v, t = self.expr(e)
            mine = self.pending
        finally:
            self.pending = saved
        return v, t, mine

    @staticmethod
    def binds(p):
        return "".join("%s <- %s ;; " % (t, m) for t, m in p)

    def as_num(self, v, t):
        if t == "int" and v == "(0)%Z":
            return "(n0 N)"
        if t == "int" and not (v.startswith("(") and v.endswith(")%Z") and v[1:-3].lstrip("-").isdigit()):
            return "(py_num_of_int N %s)" % v
        return ImpTr.as_num(self, v, t)

    def truth(self, v, t, e):
        if t == "bool":
            return v
        if t == "postix":
            return "(postix_truth %s)" % v
        if t == "opt[num]":
            return "(py_truth_onum N %s)" % v
        if t == "opt[entry]":
            return "(is_some %s)" % v
        if t == "none":
            return "false"
        raise Unsupported("truthiness of %s at line %d" % (t, getattr(e, "lineno", 0)))

    def coerce(self, v, t, want, s):
        if t == want:
            return v
        if want.startswith("opt["):
            inner = want[4:-1]
            if t == "none":
                return "None"
            if t == inner:
                return "(Some %s)" % v
            if inner == "num" and t == "int":
                return "(Some %s)" % self.as_num(v, t)
        if want == "num" and t == "int":
            return self.as_num(v, t)
        if want == "puops":
            if t == "uops":
                return "(puops_of_uops %s)" % v
            if t == "list[uop]":
                return "(PList %s)" % v
            if t == "list[?]":
                return "(PList [])"
        if want == "uops" and t == "list[uop]":
            return "(UList %s)" % v
        if t == "list[?]" and is_list(want):
            return "[]"
        if want == ROWS_T:
            if t == "list[ldrow]":
                return "(map ld_item %s)" % v
            if t == "list[strow]":
                return "(map st_item %s)" % v
            if t == "list[tuple[memop,list[uop]]]":
                return "(map (fun p_ => (HOp (fst p_), snd p_)) %s)" % v
        if want.startswith("tuple[") and t.startswith("tuple["):
            wa, ta = targs(want), targs(t)
            if len(wa) == len(ta) and v.startswith("(") and self.last_tuple and self.last_tuple[0] == v:
                parts = [self.coerce(x, xt, w, s) for (x, xt), w in zip(self.last_tuple[1], wa)]
                return "(" + ", ".join(parts) + ")"
        raise Unsupported("value of type %s where %s is expected at line %d" % (t, want, getattr(s, "lineno", 0)))

    last_tuple = None

    def is_fresh(self, e):
        if ImpTr.is_fresh(self, e):
            return True
        return isinstance(e, ast.Call) and isinstance(e.func, ast.Attribute) and e.func.attr == "copy" and not e.args

    def share(self, e):
        """the value of e is stored somewhere else: a bare list name loses ownership"""
        if isinstance(e, ast.Name):
            self.owned.discard(e.id)
        elif isinstance(e, ast.Attribute) and isinstance(e.value, ast.Name):
            self.shared.add((e.value.id, e.attr))
        elif isinstance(e, (ast.List, ast.Tuple)):
            for x in e.elts:
                self.share(x)

    def simple_lookup(self, e):
        return all(isinstance(n, (ast.Name, ast.Attribute, ast.Subscript, ast.Constant, ast.Load)) for n in ast.walk(e))

    # ----------------------------------------------------------------- expressions
    def e_Name(self, e):
        if e.id in self.env:
            t = self.env[e.id]
            if t.startswith("maybe["):
                # bound on some paths only: UnboundLocalError otherwise (carried in the slot EAttr)
                return self.hoist("py_bound %s" % self.unit.ident(e.id)), t[6:-1]
            return self.unit.ident(e.id), t
        raise Unsupported("free name %s at line %d" % (e.id, e.lineno))

    def e_Attribute(self, e):
        key = ast.unparse(e)
        if key in self.narrow:
            return self.narrow[key]
        if key == "self._isa":
            return "(isa_str (m_isa v_mm))", "str"
        if key == "self.GAS_SUFFIXES":
            if "GAS_SUFFIXES" not in self.unit.class_consts:
                raise Unsupported("class constant GAS_SUFFIXES not found")
            return cstr(self.unit.class_consts["GAS_SUFFIXES"]), "str"
        if isinstance(e.value, ast.Name) and e.value.id == "INSTR_FLAGS" and "INSTR_FLAGS" not in self.env:
            val = self.unit.class_consts["INSTR_FLAGS"].get(e.attr)
            if val not in FLAG_CTORS:
                raise Unsupported("flag INSTR_FLAGS.%s (= %r) is outside the model's flag vocabulary at line %d" % (e.attr, val, e.lineno))
            return FLAG_CTORS[val], "flag"
        v, t = self.expr(e.value)
        if (t, e.attr) in FIELDS:
            proj, ft = FIELDS[(t, e.attr)]
            return "(%s %s)" % (proj, v), ft
        raise Unsupported("attribute .%s on %s at line %d" % (e.attr, t, e.lineno))

    def e_Tuple(self, e):
        els = [self.expr(x) for x in e.elts]
        for x in e.elts:
            self.share(x)
        text = "(" + ", ".join(v for v, _ in els) + ")"
        self.last_tuple = (text, els)
        return text, "tuple[%s]" % ",".join(t for _, t in els)

    def e_Dict(self, e):
        if len(e.keys) == 1 and all(isinstance(x, ast.Constant) and x.value == "*" for x in (e.keys[0], e.values[0])):
            return "OWild", "operand"
        raise Unsupported("dict literal at line %d" % e.lineno)

    def e_List(self, e):
        if not e.elts:
            return "[]", "list[?]"
        for x in e.elts:
            self.share(x)
        if any(isinstance(x, ast.Starred) for x in e.elts):
            raise Unsupported("starred list element at line %d" % e.lineno)
        return py2coq.FuncTr.e_List(self, e)

    def e_Subscript(self, e):
        s = e.slice
        base_key = ast.unparse(e.value)
        if base_key in MM_OBJS and isinstance(s, ast.Constant) and isinstance(s.value, str):
            if s.value not in MM_KEYS:
                raise Unsupported("machine-model key %r at line %d" % (s.value, e.lineno))
            text, t, optional = MM_KEYS[s.value]
            if optional:
                return self.hoist("py_getitem_opt %s" % text), t
            return text, t
        if isinstance(e.value, ast.Attribute) and e.value.attr == "semantic_operands" and isinstance(s, ast.Constant) \
                and s.value in SEMOPS:
            v, t = self.expr(e.value.value)
            if t == "form":
                return "(%s %s)" % (SEMOPS[s.value], v), "list[operand]"
        v, t = self.expr(e.value)
        if isinstance(s, ast.Slice):
            if t == "str" and s.lower is None and s.step is None and s.upper is not None:
                if isinstance(s.upper, ast.UnaryOp) and isinstance(s.upper.op, ast.USub) and isinstance(s.upper.operand, ast.Constant) \
                        and s.upper.operand.value == 1:
                    return "(py_slice_to_m1 %s)" % v, "str"
                u, ut = self.expr(s.upper)
                if ut == "idx":
                    return "(py_str_prefix %s %s)" % (v, u), "str"
            raise Unsupported("slice at line %d" % e.lineno)
        const = s.value if isinstance(s, ast.Constant) and type(s.value) is int else None
        if const is None and isinstance(s, ast.UnaryOp) and isinstance(s.op, ast.USub) and isinstance(s.operand, ast.Constant) \
                and type(s.operand.value) is int:
            const = -s.operand.value
        if t == "str" and const == -1:
            return self.hoist("py_str_last %s" % v), "str"
        if t.startswith("tuple[") and const is not None:
            ts = targs(t)
            if len(ts) == 2 and const in (0, 1):
                return "(%s %s)" % (("fst", "snd")[const], v), ts[const]
            raise Unsupported("tuple index %r at line %d" % (const, e.lineno))
        if t in ("ldrow", "strow") and const in (0, 1):
            if const == 1:
                return "(rw_uops %s)" % v, "list[uop]"
            return "(%s %s)" % ("ld_head" if t == "ldrow" else "st_head", v), "rowhead"
        if is_list(t) and const is not None and const >= 0:
            return self.hoist("nth_res %s %d%%nat" % (v, const)), t[5:-1]
        i, it = self.expr(s)
        if is_list(t) and it == "idx":
            return self.hoist("nth_res %s %s" % (v, i)), t[5:-1]
        if t == "numtab" and it == "str":
            return self.hoist("py_assoc %s %s" % (v, i)), "num"
        if t == "onumtab" and it == "str":
            return self.hoist("py_assoc %s %s" % (v, i)), "opt[num]"
        raise Unsupported("subscript %s[%s] at line %d" % (t, it, e.lineno))

    def compare1(self, l, op, r, e):
        neg = isinstance(op, (ast.NotEq, ast.NotIn, ast.IsNot))
        w = (lambda s: "(negb %s)" % s) if neg else (lambda s: s)
        if isinstance(op, (ast.In, ast.NotIn)) and ast.unparse(r) == "self._machine_model":
            if isinstance(l, ast.Constant) and l.value in MM_KEYS:
                text, _, optional = MM_KEYS[l.value]
                return w("(is_some %s)" % text) if optional else w("true")
            raise Unsupported("`in self._machine_model` at line %d" % e.lineno)
        if isinstance(op, (ast.Eq, ast.NotEq)) and isinstance(r, ast.List) and not r.elts:
            lv, lt = self.expr(l)
            if is_list(lt):
                return w("(py_is_nil %s)" % lv)
            raise Unsupported("== [] on %s at line %d" % (lt, e.lineno))
        lv, lt = self.expr(l)
        rv, rt = self.expr(r)
        if isinstance(op, (ast.Is, ast.IsNot)):
            if rt != "none":
                raise Unsupported("`is` with non-None at line %d" % e.lineno)
            if lt.startswith("opt["):
                return w("(negb (is_some %s))" % lv)
            if lt == "none":
                return w("true")
            return w("false")          # a value of a non-optional model type is never None
        if isinstance(op, (ast.Eq, ast.NotEq)):
            if lt == rt == "str":
                return w("(String.eqb %s %s)" % (lv, rv))
            if lt == rt == "int":
                return w("(Z.eqb %s %s)" % (lv, rv))
            if lt == rt == "bool":
                return w("(Bool.eqb %s %s)" % (lv, rv))
            if {lt, rt} <= {"num", "int"}:
                return w("(neqb N %s %s)" % (self.as_num(lv, lt), self.as_num(rv, rt)))
            raise Unsupported("== between %s and %s at line %d" % (lt, rt, e.lineno))
        if isinstance(op, (ast.In, ast.NotIn)):
            if lt == rt == "str":
                return w("(py_substr %s %s)" % (lv, rv))
            if lt == "flag" and rt == "list[flag]":
                return w("(py_in_flag %s %s)" % (lv, rv))
            raise Unsupported("`in` between %s and %s at line %d" % (lt, rt, e.lineno))
        if isinstance(op, (ast.Lt, ast.LtE, ast.Gt, ast.GtE)):
            a, b = (lv, rv) if isinstance(op, (ast.Lt, ast.LtE)) else (rv, lv)
            at, bt = (lt, rt) if isinstance(op, (ast.Lt, ast.LtE)) else (rt, lt)
            strict = isinstance(op, (ast.Lt, ast.Gt))
            if lt == rt == "int":
                return "(%s %s %s)" % ("Z.ltb" if strict else "Z.leb", a, b)
            if {lt, rt} <= {"num", "int"}:
                return "(%s N %s %s)" % ("nltb" if strict else "nleb", self.as_num(a, at), self.as_num(b, bt))
        raise Unsupported("comparison at line %d" % e.lineno)

    def e_UnaryOp(self, e):
        if isinstance(e.op, ast.Not):
            v, t = self.expr(e.operand)
            return "(negb %s)" % self.truth(v, t, e), "bool"
        return ImpTr.e_UnaryOp(self, e)

    def e_BinOp(self, e):
        if isinstance(e.op, ast.Add):
            lv, lt = self.expr(e.left)
            rv, rt = self.expr(e.right)
            if is_list(lt) and is_list(rt):
                if lt == "list[?]":
                    return rv, rt
                if rt == "list[?]":
                    return lv, lt
                if lt != rt:
                    raise Unsupported("list + list of different element types at line %d" % e.lineno)
                return "(%s ++ %s)%%list" % (lv, rv), lt
            if lt == "opt[num]" and rt in ("num", "int"):
                return self.hoist("py_add_onum N %s %s" % (lv, self.as_num(rv, rt))), "num"
            if lt == rt == "int":
                return "(%s + %s)%%Z" % (lv, rv), "int"
            if lt == rt == "str":
                return "(%s ++ %s)%%string" % (lv, rv), "str"
            if {lt, rt} <= {"num", "int"}:
                return "(nadd N %s %s)" % (self.as_num(lv, lt), self.as_num(rv, rt)), "num"
            raise Unsupported("+ on %s, %s at line %d" % (lt, rt, e.lineno))
        return ImpTr.e_BinOp(self, e)

    def e_BoolOp(self, e):
        is_and = isinstance(e.op, ast.And)
        v0, t0 = self.expr(e.values[0])
        items = [(self.truth(v0, t0, e.values[0]), [])]
        for x in e.values[1:]:
            v, t, p = self.sub(x)
            items.append((self.truth(v, t, x), p))
        if not any(p for _, p in items):
            out = items[-1][0]
            for c, _ in reversed(items[:-1]):
                out = "(%s %s %s)" % ("andb" if is_and else "orb", c, out)
            return out, "bool"
        c, p = items[-1]
        m = self.binds(p) + "Ok %s" % c
        for c, p in reversed(items[:-1]):
            if is_and:
                m = self.binds(p) + "if %s then (%s) else Ok false" % (c, m)
            else:
                m = self.binds(p) + "if %s then Ok true else (%s)" % (c, m)
        return self.hoist("(%s)" % m), "bool"

    def e_IfExp(self, e):
        if ast.dump(e.test) == ast.dump(e.body) and self.simple_lookup(e.test):
            v, t = self.expr(e.test)           # evaluated once: a pure look-up gives the same value the second time
            b, bt, pb = self.sub(e.orelse)
            if t == "opt[num]" and not pb and bt in ("num", "int"):
                b = self.as_num(b, bt)
                return "(match %s with Some x_ => if neqb N x_ (n0 N) then %s else x_ | None => %s end)" % (v, b, b), "num"
            raise Unsupported("`E if E else d` on %s at line %d" % (t, e.lineno))
        c, ct = self.expr(e.test)
        c = self.truth(c, ct, e)
        a, at, pa = self.sub(e.body)
        b, bt, pb = self.sub(e.orelse)
        if at != bt:
            if {at, bt} <= {"num", "int"}:
                a, b, at = self.as_num(a, at), self.as_num(b, bt), "num"
            elif at == "list[?]":
                a, at = "[]", bt
            elif bt == "list[?]":
                b = "[]"
            else:
                raise Unsupported("conditional expression branches %s/%s at line %d" % (at, bt, e.lineno))
        if not pa and not pb:
            return "(if %s then %s else %s)" % (c, a, b), at
        return self.hoist("(if %s then (%sOk %s) else (%sOk %s))" % (c, self.binds(pa), a, self.binds(pb), b)), at

    def comp_source(self, g, lineno):
        """iterable + filters of one comprehension/generator clause: (pattern, source text, restore)"""
        if g.is_async:
            raise Unsupported("async comprehension at line %d" % lineno)
        it, itt = self.expr(g.iter)
        if not is_list(itt):
            raise Unsupported("comprehension over %s at line %d" % (itt, lineno))
        elty = itt[5:-1]
        ifs = list(g.ifs)
        src = it
        if ifs and isinstance(g.target, ast.Name) and elty == "operand" and isinstance(ifs[0], ast.Call) \
                and ast.unparse(ifs[0]) == "isinstance(%s, MemoryOperand)" % g.target.id:
            src, elty, ifs = "(py_mems %s)" % src, "memop", ifs[1:]
        pat = self.binder(g.target, elty)
        for c in ifs:
            cv, ct, p = self.sub(c)
            if p:
                src = self.hoist("py_filter_res (fun %s => %sOk %s) %s" % (pat, self.binds(p), self.truth(cv, ct, c), src))
            else:
                src = "(filter (fun %s => %s) %s)" % (pat, self.truth(cv, ct, c), src)
        return pat, src, elty

    def e_ListComp(self, e):
        if len(e.generators) != 1:
            raise Unsupported("list comprehension shape at line %d" % e.lineno)
        saved = dict(self.env)
        g = e.generators[0]
        pat, src, elty = self.comp_source(g, e.lineno)
        if isinstance(e.elt, ast.Name) and isinstance(g.target, ast.Name) and e.elt.id == g.target.id:
            self.env = saved
            return src, "list[%s]" % elty
        body, bt, p = self.sub(e.elt)
        self.env = saved
        if p:
            raise Unsupported("comprehension element that can raise at line %d" % e.lineno)
        return "(map (fun %s => %s) %s)" % (pat, body, src), "list[%s]" % bt

    def quantifier(self, e, fn):
        a = e.args[0]
        if isinstance(a, (ast.GeneratorExp, ast.ListComp)) and len(a.generators) == 1:
            saved = dict(self.env)
            pat, src, _ = self.comp_source(a.generators[0], e.lineno)
            body, bt, p = self.sub(a.elt)
            self.env = saved
            if p:
                raise Unsupported("any/all element that can raise at line %d" % e.lineno)
            return "(%s (fun %s => %s) %s)" % (fn, pat, self.truth(body, bt, a.elt), src), "bool"
        raise Unsupported("any/all shape at line %d" % e.lineno)

    # ----------------------------------------------------------------- calls
    def call_translated(self, name, e, stmt_level=False):
        """call of a translated method: (value text, type); for a function that mutates parameters only at statement level"""
        sig = self.unit.registry[name]
        if e.keywords or any(isinstance(a, ast.Starred) for a in e.args):
            raise Unsupported("call shape of %s at line %d" % (name, e.lineno))
        pnames = list(sig["params"])
        if len(e.args) > len(pnames):
            raise Unsupported("too many arguments for %s at line %d" % (name, e.lineno))
        if sig["mutates"] and not stmt_level:
            raise Unsupported("call of %s (mutates %s) inside an expression at line %d" % (name, sig["mutates"], e.lineno))
        args = []
        for k, pn in enumerate(pnames):
            want = sig["params"][pn]
            if k < len(e.args):
                v, t = self.expr(e.args[k])
                if pn in sig["mutates"]:
                    a = e.args[k]
                    if not isinstance(a, ast.Name):
                        raise Unsupported("argument for the mutated parameter %s of %s is not a name at line %d" % (pn, name, e.lineno))
                    if is_list(want) and a.id not in self.owned:
                        raise Unsupported("%s mutates the list %s, which this function does not own (aliasing) at line %d"
                                          % (name, a.id, e.lineno))
                args.append(self.coerce(v, t, want, e))
            elif pn in sig.get("defaults", {}):
                d = sig["defaults"][pn]
                if d is not None:
                    raise Unsupported("default value of %s.%s" % (name, pn))
                args.append("None")
            else:
                raise Unsupported("missing argument %s of %s at line %d" % (pn, name, e.lineno))
        muts = [e.args[pnames.index(p)].id for p in sig["mutates"]]
        if len(set(muts)) != len(muts):
            raise Unsupported("one object passed for two mutated parameters of %s at line %d" % (name, e.lineno))
        self.uses |= set(sig["uses"])
        extra = "".join(" " + x for x in (["mm_get_instruction"] if "gi" in sig["uses"] else []) + (["parser_get_reg_type"] if "grt" in sig["uses"] else []))
        head = "%s%s v_mm v_tb%s%s" % (sig["coq"], " N" if sig["generic"] else "", extra, "".join(" " + a for a in args))
        if sig["pure"]:
            return "(%s)" % head, sig["ret"]
        return head, sig["ret"], muts          # monadic: the caller binds it

    def e_Call(self, e):
        f = e.func
        key = ast.unparse(e)
        if key == "self._data['isa'].lower()":
            return "(isa_str (m_isa v_mm))", "str"
        a = e.args
        if isinstance(f, ast.Name) and f.id not in self.env:
            if e.keywords and f.id != "RegisterOperand":
                raise Unsupported("keyword arguments at line %d" % e.lineno)
            if f.id == "isinstance" and len(a) == 2 and isinstance(a[1], ast.Name):
                v, t = self.expr(a[0])
                if a[1].id == "MemoryOperand" and t == "operand":
                    return "(is_mem %s)" % v, "bool"
                if a[1].id == "MemoryOperand" and t == "memop":
                    return "true", "bool"
                if a[1].id == "list" and is_list(t):
                    return "true", "bool"
                raise Unsupported("isinstance(%s, %s) at line %d" % (t, a[1].id, e.lineno))
            if f.id == "len" and len(a) == 1:
                v, t = self.expr(a[0])
                if is_list(t):
                    return "(py_len %s)" % v, "int"
                raise Unsupported("len(%s) at line %d" % (t, e.lineno))
            if f.id == "sum" and len(a) == 1:
                v, t = self.expr(a[0])
                if t == "list[num]":
                    return "(nsum N %s)" % v, "num"
                if t == "tuple[num,num]":
                    return "(nsum N [fst %s; snd %s])" % (v, v), "num"
                raise Unsupported("sum(%s) at line %d" % (t, e.lineno))
            if f.id == "max" and len(a) == 1:
                v, t = self.expr(a[0])
                if t == "list[num]":
                    return self.hoist("list_max N %s" % v), "num"
                raise Unsupported("max(%s) at line %d" % (t, e.lineno))
            if f.id == "max" and len(a) == 2:
                (v1, t1), (v2, t2) = self.expr(a[0]), self.expr(a[1])
                if t1 in ("num", "int") and t2 in ("num", "int"):
                    return "(py_max2 N %s %s)" % (self.as_num(v1, t1), self.as_num(v2, t2)), "num"
                if t1 in ("num", "int") and t2 == "opt[num]":
                    return self.hoist("py_max2_onum N %s %s" % (self.as_num(v1, t1), v2)), "num"
                raise Unsupported("max(%s, %s) at line %d" % (t1, t2, e.lineno))
            if f.id == "range" and len(a) == 1:
                v, t = self.expr(a[0])
                if t == "int":
                    return "(py_range %s)" % v, "list[int]"
                raise Unsupported("range(%s) at line %d" % (t, e.lineno))
            if f.id == "zip" and len(a) == 2 and not any(isinstance(x, ast.Starred) for x in a):
                (v1, t1), (v2, t2) = self.expr(a[0]), self.expr(a[1])
                if is_list(t1) and is_list(t2):
                    return "(py_zip %s %s)" % (v1, v2), "list[tuple[%s,%s]]" % (t1[5:-1], t2[5:-1])
                raise Unsupported("zip(%s, %s) at line %d" % (t1, t2, e.lineno))
            if f.id == "list" and len(a) == 1:
                inner = a[0]
                if isinstance(inner, ast.Call) and isinstance(inner.func, ast.Name) and inner.func.id == "chain" and len(inner.args) == 2 \
                        and not inner.keywords:
                    (v1, t1), (v2, t2) = self.expr(inner.args[0]), self.expr(inner.args[1])
                    if t2 == "list[?]":
                        v2, t2 = "[]", "list[uop]"
                    if t1 == "uops" and t2 == "list[uop]":
                        return "(py_chain_uops %s %s)" % (v1, v2), "puops"
                    if t1 == t2 == "list[uop]":
                        return "(PList (%s ++ %s)%%list)" % (v1, v2), "puops"
                    raise Unsupported("list(chain(%s, %s)) at line %d" % (t1, t2, e.lineno))
                if isinstance(inner, ast.Call) and isinstance(inner.func, ast.Name) and inner.func.id == "set" and len(inner.args) == 1 \
                        and not inner.keywords:
                    v, t = self.expr(inner.args[0])
                    if t == "list[flag]":
                        return "(py_list_set_flags %s)" % v, t
                    if t == "list[?]":
                        return "[]", t
                    raise Unsupported("list(set(%s)) at line %d" % (t, e.lineno))
                v, t = self.expr(inner)
                if is_list(t):
                    return v, t
                raise Unsupported("list(%s) at line %d" % (t, e.lineno))
            if f.id in ("all", "any") and len(a) == 1:
                return self.quantifier(e, "forallb" if f.id == "all" else "existsb")
            if f.id == "RegisterOperand" and not a and len(e.keywords) == 1 and e.keywords[0].arg == "name":
                v, t = self.expr(e.keywords[0].value)
                if t == "str":
                    return "(reg_of_name (Some %s))" % v, "reg"
                if t == "opt[str]":
                    return "(reg_of_name %s)" % v, "reg"
                raise Unsupported("RegisterOperand(name=%s) at line %d" % (t, e.lineno))
            raise Unsupported("call of %s at line %d" % (f.id, e.lineno))
        if isinstance(f, ast.Attribute):
            owner = ast.unparse(f.value)
            cls = self.unit.cls
            reg = self.unit.registry
            if (owner == "self" and f.attr in reg and reg[f.attr]["cls"] in ((cls, "ISASemantics") if cls == "ArchSemantics" else (cls,))) \
                    or (owner == "self._machine_model" and cls != "MachineModel" and f.attr in reg and reg[f.attr]["cls"] == "MachineModel"):
                r = self.call_translated(f.attr, e)
                if len(r) == 2:
                    return r
                return self.hoist(r[0]), r[1]
            mm = (owner == "self" and cls == "MachineModel") or (owner == "self._machine_model" and cls != "MachineModel")
            if mm and not e.keywords:
                if f.attr == "get_instruction" and len(a) == 2:
                    (v1, t1), (v2, t2) = self.expr(a[0]), self.expr(a[1])
                    if t1 == "str" and t2 == "list[operand]":
                        self.uses.add("gi")
                        return "(mm_get_instruction %s %s)" % (v1, v2), "opt[entry]"
                    raise Unsupported("get_instruction(%s, %s) at line %d" % (t1, t2, e.lineno))
                if f.attr == "_check_operands" and len(a) == 2:
                    (v1, t1), (v2, t2) = self.expr(a[0]), self.expr(a[1])
                    if t1 == t2 == "reg":
                        return self.hoist("py_check_operands (m_isa v_mm) %s %s" % (v1, v2)), "bool"
                    raise Unsupported("_check_operands(%s, %s) at line %d" % (t1, t2, e.lineno))
                if f.attr in ("_is_x86_mem_type", "_is_AArch64_mem_type") and len(a) == 2 and cls == "MachineModel":
                    (v1, t1), (v2, t2) = self.expr(a[0]), self.expr(a[1])
                    if t1 == "rowhead" and t2 == "memop":
                        fn = "py_is_x86_mem_type" if f.attr == "_is_x86_mem_type" else "py_is_a64_mem_type"
                        return self.hoist("%s %s %s" % (fn, v1, v2)), "bool"
                    raise Unsupported("%s(%s, %s) at line %d" % (f.attr, t1, t2, e.lineno))
                if f.attr == "average_port_pressure" and len(a) == 1:
                    v, t = self.expr(a[0])
                    if t in ("uops", "list[uop]", "list[?]"):
                        return self.hoist("PressureGen.g_average_port_pressure N (m_ports v_mm) %s 0%%Z" % self.coerce(
                            "[]" if t == "list[?]" else v, "list[uop]" if t == "list[?]" else t, "uops", e)), "list[num]"
                    raise Unsupported("average_port_pressure(%s) at line %d" % (t, e.lineno))
            if owner == "self._parser" and f.attr == "get_reg_type" and len(a) == 1 and not e.keywords:
                v, t = self.expr(a[0])
                if t == "pattern":
                    self.uses.add("grt")
                    return self.hoist("parser_get_reg_type %s" % v), "str"
                raise Unsupported("get_reg_type(%s) at line %d" % (t, e.lineno))
            if e.keywords:
                raise Unsupported("keyword arguments at line %d" % e.lineno)
            v, t = self.expr(f.value)
            if f.attr == "copy" and not a and is_list(t):
                return v, t                       # lists are values: a copy is the value
            if t == "str" and f.attr == "lower" and not a:
                return "(py_lower %s)" % v, "str"
            if t == "str" and f.attr == "upper" and not a:
                return "(py_upper %s)" % v, "str"
            if f.attr == "index" and len(a) == 1:
                x, xt = self.expr(a[0])
                if t == "str" and xt == "str":
                    return self.hoist("py_str_index %s %s" % (v, x)), "idx"
                if t == "list[operand]" and xt == "operand":
                    return self.hoist("py_index_operand %s %s" % (v, x)), "idx"
                raise Unsupported("%s.index(%s) at line %d" % (t, xt, e.lineno))
            raise Unsupported("method .%s on %s at line %d" % (f.attr, t, e.lineno))
        raise Unsupported("call at line %d" % e.lineno)

    # ----------------------------------------------------------------- statements
    def stmts(self, ss, tail):
        if ss:
            s, rest = ss[0], ss[1:]
            if isinstance(s, ast.Expr) and isinstance(s.value, ast.Call):
                return self.s_expr(s) + self.stmts(rest, tail)
            if isinstance(s, ast.Assert):
                raise Unsupported("assert outside `try ... except AssertionError` at line %d" % s.lineno)
            if isinstance(s, (ast.For, ast.While)):
                self.in_loop += 1
                try:
                    return ImpTr.stmts(self, ss, tail)
                finally:
                    self.in_loop -= 1
        return ImpTr.stmts(self, ss, tail)

    def own_check(self, name, ln, what):
        if self.in_loop:
            raise Unsupported("%s inside a loop at line %d" % (what, ln))
        if name not in self.owned:
            raise Unsupported("%s of list %s, which this function does not own (it may alias a row of the machine model or "
                              "another object's list) at line %d" % (what, name, ln))

    def form_field(self, target, ln):
        """target `name.attr` on a form-typed name: (name, attr, projection, field type)"""
        if isinstance(target, ast.Attribute) and isinstance(target.value, ast.Name) and self.env.get(target.value.id) == "form" \
                and target.attr in SETTABLE:
            proj, ft = FIELDS[("form", target.attr)]
            return target.value.id, target.attr, proj, ft
        raise Unsupported("assignment target %s at line %d" % (ast.unparse(target), ln))

    def bind_mutating_call(self, call, ln):
        """`<mutating translated method>(args)`: (text binding result + mutated names, result text, result type) or None"""
        f = call.func
        if not (isinstance(f, ast.Attribute) and f.attr in self.unit.registry and self.unit.registry[f.attr]["mutates"]):
            return None
        if ast.unparse(f.value) != "self":
            raise Unsupported("call of %s at line %d" % (ast.unparse(f), ln))
        head, rt, muts = self.call_translated(f.attr, call, stmt_level=True)
        pre = self.take()
        names = ([] if rt is None else ["\0ret"]) + muts
        t = self.temp()
        pat = ", ".join(t if n == "\0ret" else self.unit.ident(n) for n in names)
        pat = "'(%s)" % pat if len(names) > 1 else pat
        return pre + "%s <- %s ;;\n" % (pat, head), t, rt

    def s_expr(self, s):
        call, ln = s.value, s.lineno
        f = call.func
        key = ast.unparse(f)
        if key == "warnings.warn":
            return ""
        m = self.bind_mutating_call(call, ln)
        if m is not None:
            return m[0]
        if isinstance(f, ast.Attribute) and f.attr in ("append", "remove") and len(call.args) == 1 and not call.keywords:
            x, xt = self.expr(call.args[0])
            if isinstance(f.value, ast.Name):
                name = f.value.id
                lt = self.env.get(name, "")
                self.own_check(name, ln, ".%s()" % f.attr)
                cur = self.unit.ident(name)
                rebind = lambda v: "%s := %s" % (cur, v)
                rebind_m = lambda v: "%s <- %s ;;\n" % (cur, v)
                letb = lambda v: "let %s := %s in\n" % (cur, v)
            else:
                obj, attr, proj, lt = self.form_field(f.value, ln)
                if (obj, attr) in self.shared or self.in_loop:
                    raise Unsupported("in-place .%s() on %s.%s, which is shared with another name, at line %d" % (f.attr, obj, attr, ln))
                o = self.unit.ident(obj)
                cur = "(%s %s)" % (proj, o)
                letb = lambda v: "let %s := set_%s %s %s in\n" % (o, proj, o, v)
            if lt == "list[?]" and isinstance(f.value, ast.Name):
                lt = self.env[f.value.id] = "list[%s]" % xt
            if lt != "list[%s]" % xt:
                raise Unsupported(".%s(%s) on %s at line %d" % (f.attr, xt, lt, ln))
            pre = self.take()
            if f.attr == "append":
                self.share(call.args[0])
                return pre + letb("(%s ++ [%s])%%list" % (cur, x))
            if xt != "flag":
                raise Unsupported(".remove on %s at line %d" % (lt, ln))
            t = self.temp()
            return pre + "%s <- py_remove_flag %s %s ;;\n" % (t, cur, x) + letb(t)
        raise Unsupported("expression statement %s at line %d" % (key, ln))

    def bind_name(self, name, v, t, value, ln):
        if name in self.loop_iters:
            raise Unsupported("assignment to the iterated list %s at line %d" % (name, ln))
        if t == "list[?]" and name in LOCAL_EMPTY:
            t = LOCAL_EMPTY[name]              # otherwise the element type is fixed by the first use / the first join
        self.env[name] = t
        if is_list(t):
            if value is not None and self.is_fresh(value):
                self.owned.add(name)
            else:
                self.owned.discard(name)
                if value is not None:
                    self.share(value)
        return "let %s := %s in\n" % (self.unit.ident(name), v)

    def s_assign(self, target, value, op, s):
        ln = s.lineno
        if op is None and isinstance(value, ast.Call):
            m = self.bind_mutating_call(value, ln)
            if m is not None:
                text, rv, rt = m
                if rt is None:
                    raise Unsupported("%s returns nothing at line %d" % (ast.unparse(value.func), ln))
                return text + self.unpack(target, rv, rt, None, ln)
        if op is None:
            if isinstance(target, ast.Attribute):
                obj, attr, proj, ft = self.form_field(target, ln)
                v, t = self.expr(value)
                v = self.coerce(v, t, ft, s)
                pre = self.take()
                if is_list(ft) or ft == "puops":
                    if self.is_fresh(value):
                        self.shared.discard((obj, attr))
                    else:
                        self.shared.add((obj, attr))
                        self.share(value)
                self.narrow.pop("%s.%s" % (obj, attr), None)
                o = self.unit.ident(obj)
                return pre + "let %s := set_%s %s %s in\n" % (o, proj, o, v)
            v, t = self.expr(value)
            pre = self.take()
            return pre + self.unpack(target, v, t, value, ln)
        # augmented assignment
        if not isinstance(op, ast.Add):
            raise Unsupported("augmented assignment %s at line %d" % (type(op).__name__, ln))
        if isinstance(target, ast.Name):
            name = target.id
            lt = self.env.get(name)
            if lt is None:
                raise Unsupported("augmented assignment to the unbound name %s at line %d" % (name, ln))
            if is_list(lt):
                self.own_check(name, ln, "in-place `+=`")
                v, t = self.expr(value)
                if lt == "list[?]" and is_list(t):
                    lt = self.env[name] = t
                v = self.coerce(v, t, lt, s)
                pre = self.take()
                return pre + "let %s := (%s ++ %s)%%list in\n" % (self.unit.ident(name), self.unit.ident(name), v)
            bin_ = ast.BinOp(left=ast.Name(id=name, ctx=ast.Load(), lineno=ln, col_offset=0), op=op, right=value, lineno=ln, col_offset=0)
            v, t = self.expr(bin_)
            pre = self.take()
            return pre + self.bind_name(name, v, t, None, ln)
        obj, attr, proj, ft = self.form_field(target, ln)
        if not is_list(ft):
            raise Unsupported("`+=` on %s.%s at line %d" % (obj, attr, ln))
        if (obj, attr) in self.shared or self.in_loop:
            raise Unsupported("in-place `+=` on %s.%s, which is shared with another name, at line %d" % (obj, attr, ln))
        v, t = self.expr(value)
        v = self.coerce(v, t, ft, s)
        pre = self.take()
        o = self.unit.ident(obj)
        return pre + "let %s := set_%s %s (%s %s ++ %s)%%list in\n" % (o, proj, o, proj, o, v)

    def unpack(self, target, v, t, value, ln):
        if isinstance(target, ast.Name):
            return self.bind_name(target.id, v, t, value, ln)
        if isinstance(target, (ast.Tuple, ast.List)) and t.startswith("tuple[") and all(isinstance(x, ast.Name) for x in target.elts):
            ts = targs(t)
            names = [x.id for x in target.elts]
            if len(ts) != len(names) or len(set(names)) != len(names):
                raise Unsupported("unpacking shape at line %d" % ln)
            for n, et in zip(names, ts):
                if n in self.loop_iters:
                    raise Unsupported("assignment to the iterated list %s at line %d" % (n, ln))
                self.env[n] = et
                self.owned.discard(n)
            return "let '(%s) := %s in\n" % (", ".join(self.unit.ident(n) for n in names), v)
        raise Unsupported("assignment target at line %d" % ln)

    def s_return(self, s):
        if s.value is None:
            raise Unsupported("bare return at line %d" % s.lineno)
        v, t = self.expr(s.value)
        v = self.coerce(v, t, self.ret, s)
        muts = self.sig.get("mutates", [])
        if muts:
            v = "(" + ", ".join([v] + [self.unit.ident(m) for m in muts]) + ")"
        return self.take() + "Ok %s" % v

    def s_try(self, s, rest, tail):
        ln = s.lineno
        if s.orelse or s.finalbody or len(s.handlers) != 1:
            raise Unsupported("try shape at line %d" % ln)
        h = s.handlers[0]
        if not (isinstance(h.type, ast.Name) and h.type.id == "AssertionError" and h.name is None):
            return ImpTr.s_try(self, s, rest, tail)
        k = 0
        while k < len(s.body) and isinstance(s.body[k], ast.Assert):
            k += 1
        asserts, body = s.body[:k], s.body[k:]
        if not asserts:
            raise Unsupported("`except AssertionError` without leading asserts at line %d" % ln)
        bad = contains(body + h.body, (ast.Assert, ast.Raise, ast.Return, ast.Try))
        if bad is not None:
            raise Unsupported("%s inside try/except AssertionError at line %d" % (type(bad).__name__, bad.lineno))
        for n in ast.walk(ast.Module(body=body, type_ignores=[])):
            if isinstance(n, ast.Call) and isinstance(n.func, ast.Attribute) and n.func.attr in self.unit.registry:
                raise Unsupported("call of a translated method inside try/except AssertionError at line %d" % n.lineno)
        tests = []
        for a in asserts:
            if not all(isinstance(n, (ast.Name, ast.Constant, ast.Compare, ast.Call, ast.Load, ast.Eq, ast.BoolOp, ast.And)) for n in ast.walk(a.test)):
                raise Unsupported("assert test shape at line %d" % a.lineno)
            for n in ast.walk(a.test):
                if isinstance(n, ast.Call) and not (isinstance(n.func, ast.Name) and n.func.id in ("isinstance", "len")):
                    raise Unsupported("call inside an assert test at line %d" % a.lineno)
            tests.append(a.test)
        test = tests[0] if len(tests) == 1 else ast.BoolOp(op=ast.And(), values=tests, lineno=ln, col_offset=0)
        new = ast.If(test=test, body=body or [ast.Pass(lineno=ln, col_offset=0)], orelse=h.body, lineno=ln, col_offset=0)
        return self.s_if(new, rest, tail)

    # ----------------------------------------------------------------- if: narrowing, joins over all leaves
    def narrow_test(self, test):
        """(kind, subject expr, then_is_some): kind 'none' = None / not None, 'truth' = falsy / truthy number"""
        neg = False
        subj = None
        kind = None
        if isinstance(test, ast.Compare) and len(test.ops) == 1 and isinstance(test.ops[0], (ast.Is, ast.IsNot)) \
                and isinstance(test.comparators[0], ast.Constant) and test.comparators[0].value is None:
            subj, kind = test.left, "none"
            then_some = isinstance(test.ops[0], ast.IsNot)
        else:
            t = test
            if isinstance(t, ast.UnaryOp) and isinstance(t.op, ast.Not):
                neg, t = True, t.operand
            subj, kind, then_some = t, "bare", not neg
        if isinstance(subj, ast.Name):
            ty = self.env.get(subj.id, "")
        elif isinstance(subj, ast.Attribute) and isinstance(subj.value, ast.Name) and ast.unparse(subj) not in self.narrow \
                and (self.env.get(subj.value.id), subj.attr) in FIELDS:
            ty = FIELDS[(self.env[subj.value.id], subj.attr)][1]
        else:
            return None
        if not ty.startswith("opt["):
            return None
        if kind == "bare":
            kind = "truth" if ty == "opt[num]" else ("none" if ty == "opt[entry]" else None)
            if kind is None:
                return None
        return kind, subj, then_some, ty[4:-1]

    @staticmethod
    def split_type(t):
        """(maybe unbound, optional, base)"""
        m = t.startswith("maybe[")
        if m:
            t = t[6:-1]
        o = t.startswith("opt[")
        if o:
            t = t[4:-1]
        return m, o, t

    def join_coerce(self, v, t, want):
        """value of a variable at one leaf -> the type it has after the join (None = unbound at this leaf)"""
        wm, wo, _ = self.split_type(want)
        if t is None:
            return "None"
        m, o, _ = self.split_type(t)
        if wo and not o:
            v = "(option_map Some %s)" % v if m else "(Some %s)" % v
        if wm and not m:
            v = "(Some %s)" % v
        return v

    def save_state(self):
        return (dict(self.env), dict(self.narrow), set(self.owned), set(self.shared), dict(self.closures))

    def restore_state(self, st):
        self.env, self.narrow, self.owned, self.shared, self.closures = dict(st[0]), dict(st[1]), set(st[2]), set(st[3]), dict(st[4])

    def s_if(self, s, rest, tail):
        ln = s.lineno
        returns = contains(s.body + s.orelse, (ast.Return, ast.FunctionDef)) is not None
        join = bool(rest) and not returns
        leaves = []
        if join:
            def btail():
                leaves.append(self.save_state())
                return "\0J%d\0" % (len(leaves) - 1)
            body_a, body_b = s.body, s.orelse
        else:
            btail, body_a, body_b = tail, s.body + rest, s.orelse + rest
        nt = self.narrow_test(s.test)
        saved = self.save_state()
        ends = []

        def run(body, setup=None):
            self.restore_state(saved)
            if setup:
                setup()
            text = self.stmts(body, btail)
            ends.append(self.save_state())
            return textwrap.indent(text, "  ")

        if nt is None:
            c, ct = self.expr(s.test)
            c = self.truth(c, ct, s)
            pre = self.take()
            saved = self.save_state()
            a = run(body_a)
            b = run(body_b)
            shape = "if %s then\n%s\nelse\n%s" % (c, a, b)
        else:
            kind, subj, then_some, inner = nt
            pre = ""
            sv, _ = self.expr(subj)
            if self.pending:
                raise Unsupported("narrowing test that can raise at line %d" % ln)
            if isinstance(subj, ast.Name):
                binder = self.unit.ident(subj.id)

                def setup():
                    self.env[subj.id] = inner
            else:
                binder = self.temp()
                key = ast.unparse(subj)

                def setup():
                    self.narrow[key] = (binder, inner)
            body_some, body_none = (body_a, body_b) if then_some else (body_b, body_a)
            if kind == "none":
                tn = run(body_none)
                ts = run(body_some, setup)
                shape = "match %s with\n| None =>\n%s\n| Some %s =>\n%s\nend" % (sv, tn, binder, ts)
            else:
                x = self.temp()
                tn = run(body_none)
                ts = run(body_some, setup)
                rebind = "let %s := %s in\n" % (binder, x)
                shape = ("match %s with\n| None =>\n%s\n| Some %s =>\n  if neqb N %s (n0 N) then\n%s\n  else\n%s\nend"
                         % (sv, tn, x, x, textwrap.indent(tn, "  "), textwrap.indent(textwrap.indent(rebind, "  ") + ts, "  ")))
        self.restore_state(saved)
        states = leaves if join else ends
        if states:
            self.owned = set.intersection(*[st[2] for st in states])
            self.shared = set.union(*[st[3] for st in states])
        if not join:
            return pre + shape
        if not leaves:
            return pre + shape                       # no branch falls through: `rest` is unreachable
        keep, types = [], {}
        end = max([getattr(n, "end_lineno", None) or getattr(n, "lineno", 0) for n in ast.walk(s)] + [ln])
        live = set(n.id for n in ast.walk(self.fdef) if isinstance(n, ast.Name) and isinstance(n.ctx, ast.Load)
                   and (self.in_loop or n.lineno > end))
        live |= set(self.sig.get("mutates", []))
        for n in assigned2(s.body + s.orelse, self.unit.registry):
            if n not in live:
                self.env.pop(n, None)
                continue
            ts = [st[0].get(n) for st in leaves]
            parts = [self.split_type(t) for t in ts if t is not None]
            bases = set(b for _, _, b in parts)
            if len(bases) > 1 and "list[?]" in bases and all(is_list(b) for b in bases):
                bases.discard("list[?]")       # an empty list takes the element type of the other leaves
            if len(bases) != 1 or "none" in bases:
                self.env.pop(n, None)                # a later use is a free name -> Unsupported
                continue
            base = bases.pop()
            o = any(x for _, x, _ in parts)
            m = any(x for x, _, _ in parts) or any(t is None for t in ts)
            types[n] = ("maybe[%s]" if m else "%s") % (("opt[%s]" if o else "%s") % base)
            keep.append(n)
            self.env[n] = types[n]
            if n in saved[0] and saved[0][n] != types[n] and self.in_loop:
                raise Unsupported("variable %s changes type in a loop at line %d" % (n, ln))
        for k, st in enumerate(leaves):
            vals = [self.join_coerce(self.unit.ident(n), st[0].get(n), types[n]) for n in keep]
            out = "Ok " + ("tt" if not vals else vals[0] if len(vals) == 1 else "(" + ", ".join(vals) + ")")
            shape = shape.replace("\0J%d\0" % k, out)
        # narrowings of attributes survive only if they held before the `if`
        return pre + "%s <- (%s) ;;\n" % (self.bind_pat(keep), shape) + self.stmts(rest, tail)

    # ----------------------------------------------------------------- function
    def translate(self):
        sig = self.sig
        muts = sig.get("mutates", [])
        if sig["ret"] is None:
            tail = lambda: "Ok " + self.tuple_of(muts)
        elif "fallthrough" in sig:
            tail = lambda: "Ok " + sig["fallthrough"]
        else:
            tail = None
        body = self.stmts(self.fdef.body, tail)
        if self.extra_params:
            raise Unsupported("unexpected parameters %s" % sorted(self.extra_params))
        return body


def result_type(unit, sig):
    muts = [sig["params"][m] for m in sig["mutates"]]
    parts = ([] if sig["ret"] is None else [sig["ret"]]) + muts
    if len(parts) == 1:
        return unit.coq_type(parts[0])
    return "(%s)%%type" % " * ".join(unit.coq_type(p) for p in parts)


def add(unit, name, coqname, params, ret, mutates=(), defaults=None, fallthrough=None):
    fdef = unit.find(name)
    a = fdef.args
    if a.kwarg or a.kwonlyargs or a.posonlyargs or a.kw_defaults or a.vararg or fdef.decorator_list:
        raise Unsupported("%s: signature shape" % name)
    args = [x.arg for x in a.args]
    if not args or args[0] != "self" or args[1:] != list(params):
        raise Unsupported("%s: parameters %s, expected %s" % (name, args[1:], list(params)))
    have = dict(zip(args[len(args) - len(a.defaults):], [ast.unparse(d) for d in a.defaults]))
    if have != {k: repr(v) for k, v in (defaults or {}).items()}:
        raise Unsupported("%s: default values %s, expected %s" % (name, have, defaults or {}))
    sig = {"params": params, "ret": ret, "coqname": coqname, "coq": coqname, "mutates": list(mutates), "defaults": defaults or {},
           "cls": unit.cls, "call": None}
    if fallthrough is not None:
        sig["fallthrough"] = fallthrough
    tr = CostTr(unit, fdef, sig)
    body = tr.translate()
    pure = ret is not None and not mutates and body.startswith("Ok ") and "\n" not in body and "<-" not in body
    sig["pure"] = pure
    sig["uses"] = sorted(tr.uses)
    sig["generic"] = False
    ps = ["(v_mm : %s)" % COQ_TYPES["mach"], "(v_tb : %s)" % COQ_TYPES["tables"]]
    if "gi" in tr.uses:
        ps.append("(mm_get_instruction : string -> list operand -> option (pyentry T))")
    if "grt" in tr.uses:
        ps.append("(parser_get_reg_type : pattern -> res string)")
    ps += ["(%s : %s)" % (unit.ident(p), unit.coq_type(t)) for p, t in params.items()]
    rty = result_type(unit, sig)
    if pure:
        text = "Definition %s %s : %s :=\n  %s." % (coqname, " ".join(ps), rty, body[3:])
    else:
        text = "Definition %s %s : res %s :=\n%s." % (coqname, " ".join(ps), rty, textwrap.indent(body, "  "))
    unit.registry[name] = sig
    unit.out.append("(* translated from %s:%d (%s.%s) *)\n%s\n" % (unit.path, fdef.lineno, unit.cls, name, text))
    return text


# ------------------------------------------------------------------ source facts the representation relies on (checked syntactically)
def class_body(tree, cls, path):
    for n in tree.body:
        if isinstance(n, ast.ClassDef) and n.name == cls:
            return n.body
    raise Unsupported("class %s not found in %s" % (cls, path))


def str_consts(body):
    out = {}
    for n in body:
        if isinstance(n, ast.Assign) and len(n.targets) == 1 and isinstance(n.targets[0], ast.Name) \
                and isinstance(n.value, ast.Constant) and isinstance(n.value.value, str):
            out[n.targets[0].id] = n.value.value
    return out


def method(body, name):
    for n in body:
        if isinstance(n, ast.FunctionDef) and n.name == name:
            return n
    return None


def body_is(fn, text, what):
    stmts = [s for s in fn.body if not (isinstance(s, ast.Expr) and isinstance(s.value, ast.Constant))] if fn else None
    if fn is None or "\n".join(ast.unparse(s) for s in stmts) != text:
        raise Unsupported("%s is not `%s` any more" % (what, text))


def check_facts(repo):
    hw = os.path.join(repo, "osaca/semantics/hw_model.py")
    sem = os.path.join(repo, "osaca/semantics/arch_semantics.py")
    isa = os.path.join(repo, "osaca/semantics/isa_semantics.py")
    form = os.path.join(repo, "osaca/parser/instruction_form.py")
    mm = class_body(ast.parse(open(hw).read()), "MachineModel", hw)
    body_is(method(mm, "__getitem__"), "return self._data[key]", "MachineModel.__getitem__")
    body_is(method(mm, "__contains__"), "return key in self._data", "MachineModel.__contains__")
    body_is(method(mm, "get_ISA"), "return self._data['isa'].lower()", "MachineModel.get_ISA")
    arch = class_body(ast.parse(open(sem).read()), "ArchSemantics", sem)
    init = method(arch, "__init__")
    if init is None or "self._isa = machine_model.get_ISA().lower()" not in [ast.unparse(s) for s in init.body] \
            or "self._machine_model = machine_model" not in [ast.unparse(s) for s in init.body]:
        raise Unsupported("ArchSemantics.__init__ does not set _isa / _machine_model from the machine model any more")
    for n in ast.walk(ast.parse(open(form).read())):
        if isinstance(n, ast.FunctionDef) and n.name in ("__bool__", "__len__"):
            raise Unsupported("InstructionForm defines %s: `not entry` is no longer `entry is None`" % n.name)
    itree = ast.parse(open(isa).read())
    consts = {"INSTR_FLAGS": str_consts(class_body(itree, "INSTR_FLAGS", isa))}
    gas = str_consts(arch).get("GAS_SUFFIXES")
    if gas is None:
        gas = str_consts(class_body(itree, "ISASemantics", isa)).get("GAS_SUFFIXES")
    if gas is not None:
        consts["GAS_SUFFIXES"] = gas
    # names the translated code uses must be the imported ones
    src = open(sem).read()
    for line in ("from .isa_semantics import INSTR_FLAGS, ISASemantics", "from osaca.parser.memory import MemoryOperand",
                 "from osaca.parser.register import RegisterOperand", "from itertools import chain"):
        if line not in src:
            raise Unsupported("arch_semantics.py no longer has `%s`" % line)
    return consts


def gen(repo):
    hw = os.path.join(repo, "osaca/semantics/hw_model.py")
    sem = os.path.join(repo, "osaca/semantics/arch_semantics.py")
    isa = os.path.join(repo, "osaca/semantics/isa_semantics.py")
    consts = check_facts(repo)
    registry = {}
    u1 = CostUnit(hw, "MachineModel", registry, consts)
    add(u1, "_match_mem_entries", "g_match_mem_entries", {"mem": "memop", "i_mem": "rowhead"}, "bool", fallthrough="false")
    add(u1, "get_load_latency", "g_get_load_latency", {"reg_type": "str"}, "num")
    add(u1, "get_load_throughput", "g_get_load_throughput", {"memory": "memop"}, ROWS_T)
    add(u1, "get_store_latency", "g_get_store_latency", {"reg_type": "str"}, "int")
    add(u1, "get_store_throughput", "g_get_store_throughput", {"memory": "memop", "src_reg": "opt[reg]"}, ROWS_T,
        defaults={"src_reg": None})
    u2 = CostUnit(isa, "ISASemantics", registry, consts)
    add(u2, "_create_reg_wildcard", "g_create_reg_wildcard", {}, "operand")
    add(u2, "substitute_mem_address", "g_substitute_mem_address", {"operands": "list[operand]"}, "list[operand]")
    u3 = CostUnit(sem, "ArchSemantics", registry, consts)
    add(u3, "_handle_instruction_found", "g_handle_instruction_found",
        {"instruction_data": "entry", "port_number": "int", "instruction_form": "form", "flags": "list[flag]"},
        "tuple[num,list[num],num,opt[num]]", mutates=["instruction_form", "flags"])
    add(u3, "assign_tp_lt", "g_assign_tp_lt", {"instruction_form": "form"}, None, mutates=["instruction_form"])
    meta = {"consts": consts, "signatures": {k: {"pure": v["pure"], "uses": v["uses"], "mutates": v["mutates"]} for k, v in registry.items()}}
    text = HEADER.replace("@SRC@", "\n     ".join([hw, isa, sem])) + "\n" + "\n".join(u1.out + u2.out + u3.out) + FOOTER
    return text, meta


def generate(repo, outdir, name=GEN):
    """Returns (ok, text-or-error, meta); writes outdir/name when the translation succeeds (only when it changed)."""
    os.makedirs(outdir, exist_ok=True)
    p = os.path.join(outdir, name)
    try:
        text, meta = gen(repo)
    except (Unsupported, SyntaxError, OSError, KeyError, IndexError, ValueError, AttributeError, TypeError) as e:
        for q in (p, p[:-2] + ".vo"):
            if os.path.exists(q):
                os.remove(q)
        return False, "%s: %s" % (type(e).__name__, e), {}
    old = open(p).read() if os.path.exists(p) else None
    if old != text:
        tmp = p + ".tmp%d" % os.getpid()
        with open(tmp, "w") as f:
            f.write(text)
        os.replace(tmp, p)
    return True, text, meta


if __name__ == "__main__":
    import sys
    args = [a for a in sys.argv[1:] if not a.startswith("-")]
    out = args[1] if len(args) > 1 else os.path.join(os.path.dirname(os.path.abspath(__file__)), "../coq/Gen")
    ok, t, meta = generate(args[0] if args else "/repo", out)
    print(GEN, "ok" if ok else t)
    if ok and "-v" in sys.argv:
        print(t)
