"""Fail-closed translator from a small subset of DYNAMICALLY TYPED Python (methods of a class) to Gallina over
coq/Model/PyDyn.v.  Companion of tools/py2coq.py (typed, pure expressions); use this one when values may be None,
a str, a dict or an object of one of several classes and the code tests that with isinstance / `is None` / `==`.

Every translated method  def m(self, a, b)  becomes  Definition <prefix>m (self v_a v_b : pyval) : res pyval.
All values are `pyval`, every expression is evaluated in the error monad `res` in Python's evaluation order, `and`/`or`
short-circuit and return the deciding VALUE (not a bool), `if` applies truthiness, a function that falls off its end
returns None.  AttributeError / TypeError / KeyError / IndexError of the Python are `Raise ...` values of the model.

SUPPORTED SUBSET (anything else raises Unsupported -> the caller reports a broken obligation)
  statements   docstring; `x = e`; `a = b = e`; `return [e]` (statements behind an unconditional return never run and are
               ignored; yield/global/nonlocal anywhere in the function are refused); `pass`;
               `if / elif / else` (a branch that falls through
               continues with the statements after the `if`; variables assigned in only one branch and not defined
               before are undefined afterwards); `for x in e:` / `for i, x in enumerate(e):` (no break/continue/else;
               `return` inside the body is allowed; the loop state is the set of variables assigned in the body that
               were defined before the loop; loop variables are undefined after the loop);
               `try: return next(x for x in ITER if COND) except StopIteration: <block>` with further handlers only
               of the transparent form `except E [as e]: print(...); raise E [from e]`;
               `if <constant parameter>:` is resolved at translation time (see const_params).
  expressions  None True False, str and int literals, local variables, list/tuple literals;
               `e.attr` (py_getattr); `self.NAME` for a class-level constant NAME = <literal>; `e[k]` (a literal str key is
               compared like a name: py_getitem_lit, proved equal to py_getitem in Proofs/PyDyn.v);
               `==  !=  is None  is not None  in  not in` (one operator per comparison); `and  or  not`; `a if c else b`;
               `a + b`; `len(e)`; `isinstance(e, C)` / `isinstance(e, (C1, C2))` with C a builtin (dict str list int bool)
               or a class of the configured class index that has no subclasses and no __getattr__/__bool__/__len__/...;
               `e.lower()  e.upper()  e.rstrip(string.digits)  e.get(k, d)`;
               `self.m(args, kw=...)` for another method of the same unit (translated first; recursion is refused);
               `v = K()` for a configured external class K (a static binding, K.__init__ is trusted to be irrelevant)
               and then `v.m(args)` for a method m of K that does not use `self` (translated through K's unit).
  const_params a parameter declared constant (e.g. consider_masking=False) must have that default, and EVERY call of
               the method anywhere under the repository's package must omit it or pass the same literal; it is then
               replaced by the literal and `if <param>:` is pruned.
  __eq__       `==` between objects goes through a table  class -> compared attributes | identity, derived from the
               classes' own __eq__ methods (eq_table()); only the shape
                   def __eq__(self, other):
                       if isinstance(other, C): return (self._a == other._a and ...)
                       return False
               is accepted; `_a` is identified with the public attribute `a` when the class has a property `a` whose
               getter is `return self._a`, otherwise the object must carry the attribute `_a` itself.
NOT MODELLED  side effects of print(); hash/identity beyond an object id; floats; subclassing; properties with logic.
"""
import ast
import glob
import os
import textwrap


class Unsupported(Exception):
    pass


BUILTIN_CLASSES = ("dict", "str", "list", "int", "bool")
FORBIDDEN_DUNDERS = ("__getattr__", "__getattribute__", "__bool__", "__len__", "__contains__", "__iter__", "__ne__",
                     "__getitem__", "__setattr__", "__new__", "__instancecheck__")
COQ_RESERVED = {"fun", "match", "with", "end", "let", "in", "if", "then", "else", "fix", "forall", "exists", "Type",
                "Prop", "Set", "as", "at", "return", "where", "using", "struct", "cofix", "for"}


def cstr(s):
    if any(ord(c) > 126 or ord(c) < 32 for c in s):
        raise Unsupported("non-ASCII / control character in string literal %r" % s)
    return '"' + s.replace('"', '""') + '"'


def loc(node):
    return "line %s" % getattr(node, "lineno", "?")


# ------------------------------------------------------------------ the classes of a source tree
class ClassIndex:
    """name -> (ast.ClassDef, file) for every class defined under the given files; used for the isinstance guards,
    the __eq__ table and the constant-parameter call-site check."""

    def __init__(self, files):
        self.files = sorted(files)
        self.trees = {}
        self.classes = {}
        for f in self.files:
            tree = ast.parse(open(f).read(), f)
            self.trees[f] = tree
            for node in ast.walk(tree):
                if isinstance(node, ast.ClassDef):
                    if node.name in self.classes:
                        # two classes of one name: refuse to reason about either
                        self.classes[node.name] = None
                    else:
                        self.classes[node.name] = (node, f)

    def get(self, name):
        c = self.classes.get(name)
        if c is None:
            raise Unsupported("class %s is not defined exactly once in the indexed sources" % name)
        return c[0]

    def base_names(self, node):
        out = []
        for b in node.bases:
            if isinstance(b, ast.Name):
                out.append(b.id)
            elif isinstance(b, ast.Attribute):
                out.append(b.attr)
            else:
                raise Unsupported("class %s: base class expression" % node.name)
        return out

    def mro(self, name):
        """the class and its (single-inheritance) ancestors that are in the index; `object` ends the chain"""
        out = []
        while name != "object":
            node = self.get(name)
            out.append(node)
            bases = self.base_names(node)
            if len(bases) > 1:
                raise Unsupported("class %s: multiple inheritance" % name)
            if not bases:
                break
            name = bases[0]
        return out

    def subclasses(self, name):
        return [n for n, c in self.classes.items() if c is not None and name in self.base_names(c[0])]

    def methods(self, name):
        """method name -> FunctionDef, own and inherited (nearest first)"""
        out = {}
        for node in self.mro(name):
            for st in node.body:
                if isinstance(st, (ast.FunctionDef, ast.AsyncFunctionDef)) and st.name not in out:
                    out[st.name] = st
        return out

    def check_plain_class(self, name):
        """isinstance(v, name) == (type(v) is name), objects are truthy and attribute access is plain"""
        subs = self.subclasses(name)
        if subs:
            raise Unsupported("class %s has subclasses %s: isinstance is not a test of the exact class" % (name, subs))
        for node in self.mro(name):
            for st in node.body:
                if isinstance(st, (ast.FunctionDef, ast.AsyncFunctionDef)) and st.name in FORBIDDEN_DUNDERS:
                    raise Unsupported("class %s defines %s" % (node.name, st.name))
            if node.keywords:
                raise Unsupported("class %s: metaclass / class keywords" % node.name)
            if node.decorator_list:
                raise Unsupported("class %s: class decorator" % node.name)

    def property_getter_is_field(self, name, prop):
        """the class has a property `prop` whose getter is exactly `return self._<prop>`"""
        for node in self.mro(name):
            for st in node.body:
                if isinstance(st, ast.FunctionDef) and st.name == prop and any(
                        isinstance(d, ast.Name) and d.id == "property" for d in st.decorator_list):
                    body = [s for s in st.body if not (isinstance(s, ast.Expr) and isinstance(s.value, ast.Constant))]
                    ok = (len(body) == 1 and isinstance(body[0], ast.Return) and isinstance(body[0].value, ast.Attribute)
                          and isinstance(body[0].value.value, ast.Name) and body[0].value.value.id == "self"
                          and body[0].value.attr == "_" + prop)
                    return ok
        return False

    def eq_fields(self, name):
        """None = identity (no __eq__ anywhere in the chain); else the list of public attributes __eq__ compares"""
        self.check_plain_class(name)
        meths = self.methods(name)
        if "__eq__" not in meths:
            return None
        f = meths["__eq__"]
        bad = Unsupported("%s.__eq__ is not of the accepted shape (%s)" % (name, loc(f)))
        if [a.arg for a in f.args.args] != ["self", "other"] or f.args.vararg or f.args.kwarg or f.args.kwonlyargs or f.decorator_list:
            raise bad
        body = [s for s in f.body if not (isinstance(s, ast.Expr) and isinstance(s.value, ast.Constant))]
        if len(body) != 2 or not isinstance(body[0], ast.If) or body[0].orelse or not isinstance(body[1], ast.Return):
            raise bad
        if not (isinstance(body[1].value, ast.Constant) and body[1].value.value is False):
            raise bad
        t = body[0].test
        if not (isinstance(t, ast.Call) and isinstance(t.func, ast.Name) and t.func.id == "isinstance" and len(t.args) == 2
                and not t.keywords and isinstance(t.args[0], ast.Name) and t.args[0].id == "other"
                and isinstance(t.args[1], ast.Name) and t.args[1].id == name):
            raise bad
        if len(body[0].body) != 1 or not isinstance(body[0].body[0], ast.Return):
            raise bad
        v = body[0].body[0].value
        terms = v.values if isinstance(v, ast.BoolOp) and isinstance(v.op, ast.And) else [v]
        fields = []
        for c in terms:
            if not (isinstance(c, ast.Compare) and len(c.ops) == 1 and isinstance(c.ops[0], ast.Eq)):
                raise bad
            l, r = c.left, c.comparators[0]
            if not (isinstance(l, ast.Attribute) and isinstance(l.value, ast.Name) and l.value.id == "self"
                    and isinstance(r, ast.Attribute) and isinstance(r.value, ast.Name) and r.value.id == "other"
                    and l.attr == r.attr and l.attr.startswith("_")):
                raise bad
            pub = l.attr[1:]
            # the public property when it is a plain view of the field, else the private attribute itself
            # (e.g. ImmediateOperand.shift returns self._imd_type: __eq__ compares `_shift`, which no property shows)
            fields.append(pub if self.property_getter_is_field(name, pub) else l.attr)
        return fields


def eq_table(index, class_names):
    """Gallina text of `eqtab : string -> option (list string)` for the given classes (others: identity)"""
    rows = []
    info = {}
    for c in class_names:
        fl = index.eq_fields(c)
        info[c] = fl
        if fl is not None:
            rows.append("  if key_eqb c %s then Some [%s] else" % (cstr(c), "; ".join(cstr(x) for x in fl)))
    text = "Definition eqtab (c : string) : option (list string) :=\n%s\n  None.\n" % "\n".join(rows) if rows else \
           "Definition eqtab (c : string) : option (list string) := None.\n"
    return text, info


# ------------------------------------------------------------------ translated expressions
class E:
    """a translated expression: pure (a term of type pyval) or monadic (a term of type res pyval)"""

    def __init__(self, term, pure):
        self.term = term
        self.pure = pure

    def res(self):
        return "(Ok %s)" % self.term if self.pure else self.term


def pure(t):
    return E(t, True)


def mon(t):
    return E(t, False)


class Unit:
    """the methods of one class that are to be translated"""

    def __init__(self, path, cls, prefix, index, externals=None, modname="string"):
        self.path = path
        self.cls = cls
        self.prefix = prefix
        self.index = index
        self.externals = externals or {}          # class name -> Unit (methods callable on `v = K()`)
        self.src = open(path).read()
        self.tree = ast.parse(self.src, path)
        self.cdef = None
        for node in self.tree.body:
            if isinstance(node, ast.ClassDef) and node.name == cls:
                if self.cdef is not None:
                    raise Unsupported("class %s defined twice in %s" % (cls, path))
                self.cdef = node
        if self.cdef is None:
            raise Unsupported("class %s not found in %s" % (cls, path))
        self.methods = {}
        for st in self.cdef.body:
            if isinstance(st, (ast.FunctionDef, ast.AsyncFunctionDef)):
                if st.name in self.methods:
                    raise Unsupported("method %s defined twice" % st.name)
                self.methods[st.name] = st
        # class-level constants NAME = <literal>
        self.class_consts = {}
        for st in self.cdef.body:
            if isinstance(st, ast.Assign) and len(st.targets) == 1 and isinstance(st.targets[0], ast.Name):
                nm = st.targets[0].id
                if isinstance(st.value, ast.Constant) and isinstance(st.value.value, (str, bool, int, type(None))):
                    if nm in self.class_consts:
                        raise Unsupported("class constant %s assigned twice" % nm)
                    self.class_consts[nm] = st.value.value
        # which modules are imported at top level under their own name (for string.digits)
        self.imported_modules = set()
        for node in self.tree.body:
            if isinstance(node, ast.Import):
                for a in node.names:
                    if a.asname is None:
                        self.imported_modules.add(a.name)
        self.wanted = []            # (name, const_params)
        self.done = {}              # name -> Gallina text
        self.order = []
        self.params = {}            # name -> [python parameter names that became Gallina parameters]
        self.in_progress = set()
        self.attrs_read = set()
        self.classes_tested = set()
        self.fresh = 0

    # ------------------------------------------------------------ public
    def add(self, name, const_params=None):
        self.wanted.append((name, dict(const_params or {})))

    def gname(self, name):
        return self.prefix + name.lstrip("_")

    def render_defs(self):
        for name, cp in self.wanted:
            self._translate(name, cp)
        return "\n".join(self.done[n] for n in self.order)

    # ------------------------------------------------------------ helpers
    def check_global_name(self, n, func, builtin=False):
        """the name n, used inside func, denotes the builtin / the imported-or-defined class of that name:
        it is bound at module level only by `from ... import n` or `class n` (builtin: not bound at all) and is
        not a local variable of func"""
        binders = []
        for node in ast.walk(self.tree):
            if isinstance(node, ast.ImportFrom):
                binders += ["import" for a in node.names if (a.asname or a.name) == n and a.asname is None]
                binders += ["alias" for a in node.names if a.asname == n]
            elif isinstance(node, ast.Import):
                binders += ["module" for a in node.names if (a.asname or a.name.split(".")[0]) == n]
            elif isinstance(node, (ast.FunctionDef, ast.AsyncFunctionDef)) and node.name == n:
                binders.append("def")
            elif isinstance(node, ast.ClassDef) and node.name == n:
                binders.append("class")
            elif isinstance(node, ast.Name) and node.id == n and isinstance(node.ctx, (ast.Store, ast.Del)):
                binders.append("assignment")
            elif isinstance(node, ast.arg) and node.arg == n:
                binders.append("parameter")
        if builtin:
            if binders:
                raise Unsupported("builtin name %s is rebound in %s (%s)" % (n, self.path, binders))
        elif sorted(set(binders)) not in (["import"], ["class"]):
            raise Unsupported("name %s is not bound exactly by an import or a class definition in %s (%s)" % (n, self.path, binders))

    def tmp(self, base="t"):
        self.fresh += 1
        return "%s%d" % (base, self.fresh)

    def var(self, name):
        if not name.isidentifier() or not name.isascii():
            raise Unsupported("variable name %r" % name)
        return "v_" + name

    def seq(self, e, f):
        """evaluate e, then continue with f(term of type pyval) -> E"""
        if e.pure:
            return f(e.term)
        t = self.tmp()
        k = f(t)
        return mon("(bind %s (fun %s => %s))" % (e.term, t, k.res()))

    def seq_many(self, es, f):
        """evaluate es left to right, then f([terms])"""
        def go(i, acc):
            if i == len(es):
                return f(acc)
            return self.seq(es[i], lambda t: go(i + 1, acc + [t]))
        return go(0, [])

    def const(self, v, node=None):
        if v is None:
            return pure("PNone")
        if v is True:
            return pure("(PBool true)")
        if v is False:
            return pure("(PBool false)")
        if isinstance(v, int):
            return pure("(PInt (%d)%%Z)" % v)
        if isinstance(v, str):
            return pure("(PStr %s)" % cstr(v))
        raise Unsupported("literal %r (%s)" % (v, loc(node) if node is not None else ""))

    # ------------------------------------------------------------ one method
    def _translate(self, name, const_params):
        if name in self.done:
            return
        if name in self.in_progress:
            raise Unsupported("recursive call of %s" % name)
        if name not in self.methods:
            raise Unsupported("method %s.%s not found" % (self.cls, name))
        f = self.methods[name]
        if not isinstance(f, ast.FunctionDef):
            raise Unsupported("%s: async def" % name)
        if f.decorator_list:
            raise Unsupported("%s: decorators" % name)
        a = f.args
        if a.vararg or a.kwarg or a.kwonlyargs or a.posonlyargs:
            raise Unsupported("%s: *args/**kwargs/keyword-only parameters" % name)
        names = [x.arg for x in a.args]
        if not names or names[0] != "self":
            raise Unsupported("%s: first parameter is not self" % name)
        defaults = {}
        for p, d in zip(names[len(names) - len(a.defaults):], a.defaults):
            if not isinstance(d, ast.Constant):
                raise Unsupported("%s: default of %s is not a literal" % (name, p))
            defaults[p] = d.value
        for p, v in const_params.items():
            if p not in names:
                raise Unsupported("%s: constant parameter %s is not a parameter" % (name, p))
            if p not in defaults or defaults[p] is not v:
                raise Unsupported("%s: constant parameter %s must default to %r" % (name, p, v))
            self._check_call_sites(name, names, p, v)
        # the method is what the class body defines: nobody assigns `<something>.name = ...` / deletes it
        for fpath, tree in self.index.trees.items():
            for node in ast.walk(tree):
                if isinstance(node, ast.Attribute) and node.attr == name and isinstance(node.ctx, (ast.Store, ast.Del)):
                    raise Unsupported("%s.%s is rebound (%s:%s)" % (self.cls, name, fpath, node.lineno))
        self.in_progress.add(name)
        fn = FuncTr(self, name, f, names, defaults, const_params)
        body = fn.function_body()
        self.in_progress.discard(name)
        gparams = [p for p in names[1:] if p not in const_params]
        self.params[name] = (names[1:], defaults, const_params)
        sig = " ".join(["self"] + [self.var(p) for p in gparams])
        text = "(* %s.%s, %s:%d *)\nDefinition %s (%s : pyval) : res pyval :=\n%s.\n" % (
            self.cls, name, os.path.basename(self.path), f.lineno, self.gname(name), sig, textwrap.indent(body, "  "))
        self.done[name] = text
        self.order.append(name)

    def _check_call_sites(self, name, names, p, v):
        """every call `<anything>.name(...)` in the indexed sources passes the literal v for parameter p (or omits it)"""
        pos = names.index(p) - 1          # position among the call's positional arguments
        for f, tree in self.index.trees.items():
            for node in ast.walk(tree):
                if isinstance(node, ast.Call) and isinstance(node.func, ast.Attribute) and node.func.attr == name:
                    given = None
                    if len(node.args) > pos:
                        given = node.args[pos]
                    for kw in node.keywords:
                        if kw.arg is None:
                            raise Unsupported("call of %s with ** (%s:%s)" % (name, f, node.lineno))
                        if kw.arg == p:
                            given = kw.value
                    if any(isinstance(x, ast.Starred) for x in node.args):
                        raise Unsupported("call of %s with * (%s:%s)" % (name, f, node.lineno))
                    if given is not None and not (isinstance(given, ast.Constant) and given.value is v):
                        raise Unsupported("%s:%s calls %s with %s that is not the literal %r" % (f, node.lineno, name, p, v))
                elif isinstance(node, ast.Attribute) and node.attr == name and not isinstance(getattr(node, "ctx", None), ast.Load):
                    raise Unsupported("%s is assigned to (%s:%s)" % (name, f, node.lineno))
        # a bare reference (e.g. passed as a callback) would escape the check
        for f, tree in self.index.trees.items():
            calls = set()
            for node in ast.walk(tree):
                if isinstance(node, ast.Call) and isinstance(node.func, ast.Attribute) and node.func.attr == name:
                    calls.add(id(node.func))
            for node in ast.walk(tree):
                if isinstance(node, ast.Attribute) and node.attr == name and id(node) not in calls:
                    raise Unsupported("%s is referenced without being called (%s:%s)" % (name, f, node.lineno))


def always_returns(stmts):
    if not stmts:
        return False
    last = stmts[-1]
    if isinstance(last, (ast.Return, ast.Raise)):
        return True
    if isinstance(last, ast.If):
        return always_returns(last.body) and always_returns(last.orelse)
    if isinstance(last, ast.Try):
        return (always_returns(last.body) and all(always_returns(h.body) for h in last.handlers)
                and not last.orelse and not last.finalbody)
    return False


def assigned_vars(stmts):
    out = []
    for st in stmts:
        for node in ast.walk(st):
            if isinstance(node, ast.Name) and isinstance(node.ctx, ast.Store) and node.id not in out:
                out.append(node.id)
            if isinstance(node, (ast.FunctionDef, ast.Lambda, ast.ClassDef, ast.ListComp, ast.GeneratorExp, ast.DictComp,
                                 ast.SetComp, ast.NamedExpr, ast.Global, ast.Nonlocal, ast.With, ast.While, ast.Delete,
                                 ast.AugAssign, ast.Import, ast.ImportFrom)):
                if not isinstance(node, ast.GeneratorExp):
                    raise Unsupported("%s (%s)" % (type(node).__name__, loc(node)))
    return out


def definitely_assigned(stmts):
    """variables assigned on every path that falls through the block"""
    out = set()
    for st in stmts:
        if isinstance(st, ast.Assign):
            for t in st.targets:
                if isinstance(t, ast.Name):
                    out.add(t.id)
        elif isinstance(st, ast.If):
            a = definitely_assigned(st.body) if not always_returns(st.body) else None
            b = definitely_assigned(st.orelse) if not always_returns(st.orelse) else None
            if a is None and b is None:
                return out
            out |= (a & b) if (a is not None and b is not None) else (a if a is not None else b)
    return out


class Ctx:
    """where a block lives: how `return e` is rendered (function level: the value; loop body: Return v)"""

    def __init__(self, ret):
        self.ret = ret          # res-term -> term of the block's type


class FuncTr:
    def __init__(self, unit, name, f, names, defaults, const_params):
        self.u = unit
        self.name = name
        self.f = f
        self.names = names
        self.defaults = defaults
        self.const_params = const_params
        self.static = {}        # variable -> external class name (v = K())

    # ------------------------------------------------------------ statements
    def function_body(self):
        body = list(self.f.body)
        if body and isinstance(body[0], ast.Expr) and isinstance(body[0].value, ast.Constant) and isinstance(body[0].value.value, str):
            body = body[1:]
        for node in ast.walk(self.f):
            if isinstance(node, (ast.Yield, ast.YieldFrom, ast.Await, ast.Global, ast.Nonlocal)):
                raise Unsupported("%s in %s (%s)" % (type(node).__name__, self.name, loc(node)))
        env = set(p for p in self.names[1:] if p not in self.const_params)
        ctx = Ctx(lambda r: r)
        return self.block(body, env, ctx, lambda env2: "(Ok PNone)")

    def block(self, stmts, env, ctx, kont):
        """Gallina term for the statements, continuing with kont(env) on fall-through"""
        if not stmts:
            return kont(env)
        st, rest = stmts[0], stmts[1:]
        nxt = lambda env2: self.block(rest, env2, ctx, kont)
        if isinstance(st, ast.Pass):
            return nxt(env)
        if isinstance(st, ast.Expr):
            if isinstance(st.value, ast.Constant) and isinstance(st.value.value, str):
                return nxt(env)
            raise Unsupported("expression statement (%s)" % loc(st))
        if isinstance(st, ast.Return):
            # statements after an unconditional return never execute (function_body() has excluded yield/global)
            e = self.const(None) if st.value is None else self.expr(st.value, env)
            return ctx.ret(e.res())
        if isinstance(st, ast.Assign):
            return self.assign(st, env, nxt)
        if isinstance(st, ast.If):
            return self.if_stmt(st, rest, env, ctx, kont)
        if isinstance(st, ast.For):
            return self.for_stmt(st, rest, env, ctx, kont)
        if isinstance(st, ast.Try):
            return self.try_stmt(st, rest, env, ctx, kont)
        raise Unsupported("statement %s (%s)" % (type(st).__name__, loc(st)))

    def const(self, v):
        return self.u.const(v)

    def assign(self, st, env, nxt):
        for t in st.targets:
            if not isinstance(t, ast.Name):
                raise Unsupported("assignment target %s (%s)" % (type(t).__name__, loc(st)))
            if t.id == "self" or t.id in self.const_params:
                raise Unsupported("assignment to %s (%s)" % (t.id, loc(st)))
        names = [t.id for t in st.targets]
        v = st.value
        # v = K()
        if isinstance(v, ast.Call) and isinstance(v.func, ast.Name) and v.func.id in self.u.externals:
            self.u.check_global_name(v.func.id, self.f)
            if v.args or v.keywords or len(names) != 1:
                raise Unsupported("constructor call with arguments (%s)" % loc(st))
            if names[0] in env or names[0] in self.static:
                raise Unsupported("rebinding of %s to an instance (%s)" % (names[0], loc(st)))
            self.static[names[0]] = v.func.id
            return nxt(env)
        for n in names:
            if n in self.static:
                raise Unsupported("rebinding of the instance variable %s (%s)" % (n, loc(st)))
        e = self.expr(v, env)
        env2 = set(env) | set(names)
        if e.pure:
            out = "".join("let %s := %s in\n" % (self.u.var(n), e.term) for n in names)
            return "(" + out + nxt(env2) + ")"
        first = self.u.var(names[0])
        out = "bind %s (fun %s =>\n" % (e.term, first)
        out += "".join("let %s := %s in\n" % (self.u.var(n), first) for n in names[1:])
        return "(" + out + nxt(env2) + "))"

    def static_test(self, test):
        """truth value of an `if` test that is a constant parameter (or `not` of one), else None"""
        if isinstance(test, ast.Name) and test.id in self.const_params:
            return bool(self.const_params[test.id])
        if isinstance(test, ast.UnaryOp) and isinstance(test.op, ast.Not):
            v = self.static_test(test.operand)
            return None if v is None else not v
        return None

    def if_stmt(self, st, rest, env, ctx, kont):
        sv = self.static_test(st.test)
        if sv is not None:
            return self.block((st.body if sv else st.orelse) + rest, env, ctx, kont)
        c = self.expr(st.test, env)
        fa, fb = not always_returns(st.body), not always_returns(st.orelse)
        if rest and not (fa or fb):
            raise Unsupported("unreachable statements after if (%s)" % loc(st))

        def wrap(a_term, b_term, pre=""):
            def f(t):
                return mon("%s(if py_truth %s then\n%s\nelse\n%s)" % (pre, t, textwrap.indent(a_term, "  "), textwrap.indent(b_term, "  ")))
            return self.u.seq(c, f).term

        if rest and fa and fb:
            # both branches fall through into a non-empty rest: share it as a local continuation over the joined variables
            da = definitely_assigned(st.body)
            db = definitely_assigned(st.orelse)
            cand = [x for x in assigned_vars(st.body + st.orelse)]
            joined = [x for x in cand if x in env or (x in da and x in db)]
            for x in cand:
                if x in self.static:
                    raise Unsupported("instance variable %s assigned in a branch (%s)" % (x, loc(st)))
            env_after = (set(env) | set(joined))
            dropped = [x for x in cand if x not in joined]
            env_after -= set(dropped)
            k = self.u.tmp("k")
            args = " ".join(self.u.var(x) for x in joined) if joined else "tt"
            params = " ".join("(%s : pyval)" % self.u.var(x) for x in joined) if joined else "(_ : unit)"
            rest_term = self.block(rest, env_after, ctx, kont)
            call = lambda env2: "(%s %s)" % (k, args)
            a = self.block(st.body, set(env), ctx, call)
            b = self.block(st.orelse, set(env), ctx, call)
            return "(let %s := fun %s =>\n%s in\n%s)" % (k, params, textwrap.indent(rest_term, "  "), wrap(a, b))
        # at most one branch continues into the rest (or there is no rest): inline it
        follow = lambda env2: self.block(rest, env2, ctx, kont)

        def branch(stmts):
            dropped = [x for x in assigned_vars(stmts) if x not in env and x not in definitely_assigned(stmts)]
            return self.block(stmts, set(env), ctx, lambda env2: follow(set(env2) - set(dropped)))
        return wrap(branch(st.body), branch(st.orelse))

    def state_tuple(self, vars_):
        if not vars_:
            return "tt", "unit"
        if len(vars_) == 1:
            return self.u.var(vars_[0]), "pyval"
        return "(" + ", ".join(self.u.var(x) for x in vars_) + ")", "(" + " * ".join("pyval" for _ in vars_) + ")"

    def for_stmt(self, st, rest, env, ctx, kont):
        if st.orelse:
            raise Unsupported("for ... else (%s)" % loc(st))
        for node in ast.walk(st):
            if isinstance(node, (ast.Break, ast.Continue)):
                raise Unsupported("break/continue (%s)" % loc(node))
        # iterated expression
        it = st.iter
        enum = False
        if isinstance(it, ast.Call) and isinstance(it.func, ast.Name) and it.func.id == "enumerate":
            if len(it.args) != 1 or it.keywords:
                raise Unsupported("enumerate with a start value (%s)" % loc(st))
            enum = True
            it = it.args[0]
        src = self.expr(it, env)
        # targets
        if isinstance(st.target, ast.Name):
            targets = [st.target.id]
        elif isinstance(st.target, ast.Tuple) and len(st.target.elts) == 2 and all(isinstance(e, ast.Name) for e in st.target.elts):
            targets = [e.id for e in st.target.elts]
        else:
            raise Unsupported("loop target (%s)" % loc(st))
        for t in targets:
            if t in env or t in self.static or t == "self" or t in self.const_params:
                raise Unsupported("loop variable %s shadows a variable (%s)" % (t, loc(st)))
        assigned = assigned_vars(st.body)
        for x in assigned:
            if x in targets or x in self.static:
                raise Unsupported("loop body assigns %s (%s)" % (x, loc(st)))
        state = [x for x in assigned if x in env]
        tup, ty = self.state_tuple(state)
        item = self.u.tmp("it")
        stv = self.u.tmp("st")
        inner_ctx = Ctx(lambda r: "(bind %s (fun rv => Ok (Return rv)))" % r)
        body_env = set(env) | set(targets)
        body = self.block(st.body, body_env, inner_ctx, lambda env2: "(Ok (Next %s))" % tup)
        if len(targets) == 1:
            unpack = "let %s := %s in\n" % (self.u.var(targets[0]), item)
            close = ""
        else:
            unpack = "bind (py_unpack2 %s) (fun ab => let '(%s, %s) := ab in\n" % (item, self.u.var(targets[0]), self.u.var(targets[1]))
            close = ")"
        destruct = "let '%s := %s in\n" % (tup, stv) if len(state) > 1 else ("let %s := %s in\n" % (tup, stv) if state else "")
        fun = "(fun (%s : pyval) (%s : %s) =>\n%s%s%s%s)" % (item, stv, ty, destruct, unpack, textwrap.indent(body, "  "), close)
        env_after = set(env)            # loop variables and body-local variables are undefined afterwards
        after = self.block(rest, env_after, ctx, kont)
        res_v = self.u.tmp("c")
        st2 = self.u.tmp("st")
        destruct2 = "let '%s := %s in\n" % (tup, st2) if len(state) > 1 else ("let %s := %s in\n" % (tup, st2) if state else "")
        loop = ("(bind (py_for %%s %s %s) (fun %s =>\n  match %s with\n  | Return rv => %s\n  | Next %s =>\n%s%s\n  end))"
                % (fun, tup, res_v, res_v, ctx.ret("(Ok rv)"), st2, textwrap.indent(destruct2, "    "), textwrap.indent(after, "    ")))

        def with_items(t):
            items = self.u.tmp("items")
            get = "(bind (py_enumerate %s) py_iter)" % t if enum else "(py_iter %s)" % t
            return mon("(bind %s (fun %s =>\n%s))" % (get, items, loop % items))
        return self.u.seq(src, with_items).term

    def try_stmt(self, st, rest, env, ctx, kont):
        bad = Unsupported("try statement outside the pattern `try: return next(x for x in ITER if COND) except StopIteration: ...` (%s)" % loc(st))
        if st.orelse or st.finalbody or len(st.body) != 1 or not isinstance(st.body[0], ast.Return) or rest:
            raise bad
        call = st.body[0].value
        if not (isinstance(call, ast.Call) and isinstance(call.func, ast.Name) and call.func.id == "next" and len(call.args) == 1 and not call.keywords):
            raise bad
        g = call.args[0]
        if not (isinstance(g, ast.GeneratorExp) and len(g.generators) == 1 and isinstance(g.elt, ast.Name)):
            raise bad
        comp = g.generators[0]
        if comp.is_async or not isinstance(comp.target, ast.Name) or comp.target.id != g.elt.id or len(comp.ifs) != 1:
            raise bad
        x = comp.target.id
        if x in env or x in self.static or x == "self" or x in self.const_params:
            raise Unsupported("generator variable %s shadows a variable (%s)" % (x, loc(st)))
        stop = None
        for h in st.handlers:
            if not isinstance(h.type, ast.Name):
                raise bad
            if h.type.id == "StopIteration":
                if stop is not None:
                    raise bad
                stop = h
                continue
            # transparent handler: print(...) calls, then raise the same exception class
            body = list(h.body)
            if not body or not isinstance(body[-1], ast.Raise):
                raise bad
            r = body[-1]
            exc = r.exc
            if isinstance(exc, ast.Call) and not exc.args and not exc.keywords:
                exc = exc.func
            if not (isinstance(exc, ast.Name) and exc.id == h.type.id):
                raise bad
            for s in body[:-1]:
                if not (isinstance(s, ast.Expr) and isinstance(s.value, ast.Call) and isinstance(s.value.func, ast.Name) and s.value.func.id == "print"):
                    raise bad
        if stop is None or st.handlers[0] is not stop and any(isinstance(h.type, ast.Name) and h.type.id in ("Exception", "BaseException") for h in st.handlers):
            raise bad
        if stop.name is not None:
            raise bad
        src = self.expr(comp.iter, env)
        cond = self.expr(comp.ifs[0], set(env) | {x})
        handler = self.block(stop.body, set(env), ctx, kont)
        if not always_returns(stop.body):
            raise bad

        def f(t):
            r = self.u.tmp("r")
            items = self.u.tmp("items")
            return mon("(bind (py_iter %s) (fun %s =>\nbind (py_first %s (fun %s => %s)) (fun %s =>\n  match %s with\n  | Some fv => %s\n  | None =>\n%s\n  end)))"
                       % (t, items, items, self.u.var(x), cond.res(), r, r, ctx.ret("(Ok fv)"), textwrap.indent(handler, "    ")))
        return self.u.seq(src, f).term

    # ------------------------------------------------------------ expressions
    def expr(self, e, env):
        u = self.u
        if isinstance(e, ast.Constant):
            if isinstance(e.value, (bool, int, str, type(None))) and not isinstance(e.value, float):
                return u.const(e.value, e)
            raise Unsupported("literal %r (%s)" % (e.value, loc(e)))
        if isinstance(e, ast.Name):
            if e.id in self.const_params:
                return u.const(self.const_params[e.id], e)
            if e.id in env:
                return pure(u.var(e.id))
            if e.id in self.static:
                raise Unsupported("instance variable %s used as a value (%s)" % (e.id, loc(e)))
            raise Unsupported("name %s is not a defined local variable here (%s)" % (e.id, loc(e)))
        if isinstance(e, (ast.List, ast.Tuple)):
            es = [self.expr(x, env) for x in e.elts]
            return u.seq_many(es, lambda ts: pure("(PList [%s])" % "; ".join(ts)))
        if isinstance(e, ast.Attribute):
            if isinstance(e.value, ast.Name) and e.value.id == "self" and e.attr in u.class_consts:
                # a class constant, unless an instance attribute of the same name could shadow it: self.X = ... anywhere
                for node in ast.walk(u.cdef):
                    if isinstance(node, ast.Attribute) and node.attr == e.attr and isinstance(node.ctx, (ast.Store, ast.Del)):
                        raise Unsupported("class constant %s is assigned through an instance (%s)" % (e.attr, loc(node)))
                return u.const(u.class_consts[e.attr], e)
            base = pure("self") if isinstance(e.value, ast.Name) and e.value.id == "self" else self.expr(e.value, env)
            u.attrs_read.add(e.attr)
            return u.seq(base, lambda t: mon("(py_getattr %s %s)" % (t, cstr(e.attr))))
        if isinstance(e, ast.Subscript):
            if isinstance(e.slice, ast.Slice):
                raise Unsupported("slice (%s)" % loc(e))
            if isinstance(e.slice, ast.Constant) and isinstance(e.slice.value, str):
                # a literal key: compared like a name (py_getitem_lit = py_getitem on a PStr, Proofs/PyDyn.v)
                key = cstr(e.slice.value)
                return u.seq(self.expr(e.value, env), lambda t: mon("(py_getitem_lit %s %s)" % (t, key)))
            a, b = self.expr(e.value, env), self.expr(e.slice, env)
            return u.seq_many([a, b], lambda ts: mon("(py_getitem %s %s)" % (ts[0], ts[1])))
        if isinstance(e, ast.Compare):
            if len(e.ops) != 1:
                raise Unsupported("chained comparison (%s)" % loc(e))
            op, l, r = e.ops[0], e.left, e.comparators[0]
            if isinstance(op, (ast.Is, ast.IsNot)):
                if not (isinstance(r, ast.Constant) and r.value is None):
                    raise Unsupported("`is` with something else than None (%s)" % loc(e))
                a = self.expr(l, env)
                if isinstance(op, ast.Is):
                    return u.seq(a, lambda t: pure("(PBool (py_is_none %s))" % t))
                return u.seq(a, lambda t: pure("(PBool (negb (py_is_none %s)))" % t))
            a, b = self.expr(l, env), self.expr(r, env)
            if isinstance(op, ast.Eq):
                return u.seq_many([a, b], lambda ts: pure("(PBool (py_eqb eqtab %s %s))" % (ts[0], ts[1])))
            if isinstance(op, ast.NotEq):
                return u.seq_many([a, b], lambda ts: pure("(PBool (negb (py_eqb eqtab %s %s)))" % (ts[0], ts[1])))
            if isinstance(op, ast.In):
                return u.seq_many([a, b], lambda ts: mon("(py_in eqtab %s %s)" % (ts[0], ts[1])))
            if isinstance(op, ast.NotIn):
                return u.seq_many([a, b], lambda ts: mon("(bind (py_in eqtab %s %s) (fun m => Ok (py_not m)))" % (ts[0], ts[1])))
            raise Unsupported("comparison operator %s (%s)" % (type(op).__name__, loc(e)))
        if isinstance(e, ast.BoolOp):
            parts = [self.expr(x, env) for x in e.values]
            comb = "py_and" if isinstance(e.op, ast.And) else "py_or"
            term = parts[-1].res()
            for p in reversed(parts[:-1]):
                term = "(%s %s (fun _ =>\n%s))" % (comb, p.res(), textwrap.indent(term, " "))
            return mon(term)
        if isinstance(e, ast.UnaryOp) and isinstance(e.op, ast.Not):
            return u.seq(self.expr(e.operand, env), lambda t: pure("(py_not %s)" % t))
        if isinstance(e, ast.BinOp) and isinstance(e.op, ast.Add):
            a, b = self.expr(e.left, env), self.expr(e.right, env)
            return u.seq_many([a, b], lambda ts: mon("(py_add %s %s)" % (ts[0], ts[1])))
        if isinstance(e, ast.IfExp):
            c, a, b = self.expr(e.test, env), self.expr(e.body, env), self.expr(e.orelse, env)
            return u.seq(c, lambda t: mon("(if py_truth %s then %s else %s)" % (t, a.res(), b.res())))
        if isinstance(e, ast.Call):
            return self.call(e, env)
        raise Unsupported("expression %s (%s)" % (type(e).__name__, loc(e)))

    def class_name(self, node):
        if not isinstance(node, ast.Name):
            raise Unsupported("isinstance against %s (%s)" % (type(node).__name__, loc(node)))
        n = node.id
        self.u.check_global_name(n, self.f, builtin=n in BUILTIN_CLASSES)
        if n in BUILTIN_CLASSES:
            return n
        self.u.index.check_plain_class(n)
        self.u.classes_tested.add(n)
        return n

    def call(self, e, env):
        u = self.u
        f = e.func
        if any(isinstance(a, ast.Starred) for a in e.args) or any(k.arg is None for k in e.keywords):
            raise Unsupported("* / ** in a call (%s)" % loc(e))
        if isinstance(f, ast.Name):
            if f.id == "isinstance":
                if len(e.args) != 2 or e.keywords:
                    raise Unsupported("isinstance arity (%s)" % loc(e))
                c = e.args[1]
                names = [self.class_name(x) for x in c.elts] if isinstance(c, ast.Tuple) else [self.class_name(c)]
                return u.seq(self.expr(e.args[0], env),
                             lambda t: pure("(py_isinstance %s [%s])" % (t, "; ".join(cstr(n) for n in names))))
            if f.id == "len":
                u.check_global_name("len", self.f, builtin=True)
                if len(e.args) != 1 or e.keywords:
                    raise Unsupported("len arity (%s)" % loc(e))
                return u.seq(self.expr(e.args[0], env), lambda t: mon("(py_len %s)" % t))
            raise Unsupported("call of %s (%s)" % (f.id, loc(e)))
        if not isinstance(f, ast.Attribute):
            raise Unsupported("call of a computed function (%s)" % loc(e))
        # self.m(...)
        if isinstance(f.value, ast.Name) and f.value.id == "self":
            return self.method_call(u, f.attr, e, env, "self")
        # v.m(...) with v = K()
        if isinstance(f.value, ast.Name) and f.value.id in self.static:
            ext = u.externals[self.static[f.value.id]]
            m = ext.methods.get(f.attr)
            if m is None:
                raise Unsupported("%s.%s not found (%s)" % (ext.cls, f.attr, loc(e)))
            for node in ast.walk(m):
                if isinstance(node, ast.Name) and node.id == "self":
                    raise Unsupported("%s.%s uses self: the instance state is not modelled (%s)" % (ext.cls, f.attr, loc(e)))
            return self.method_call(ext, f.attr, e, env, "PNone")
        # methods of values
        if f.attr in ("lower", "upper"):
            if e.args or e.keywords:
                raise Unsupported(".%s with arguments (%s)" % (f.attr, loc(e)))
            return u.seq(self.expr(f.value, env), lambda t: mon("(py_%s_m %s)" % (f.attr, t)))
        if f.attr == "rstrip":
            a = e.args
            if (len(a) == 1 and not e.keywords and isinstance(a[0], ast.Attribute) and isinstance(a[0].value, ast.Name)
                    and a[0].value.id == "string" and a[0].attr == "digits" and "string" in u.imported_modules
                    and "string" not in env):
                return u.seq(self.expr(f.value, env), lambda t: mon("(py_rstrip_digits_m %s)" % t))
            raise Unsupported(".rstrip with another argument than string.digits (%s)" % loc(e))
        if f.attr == "get":
            if len(e.args) != 2 or e.keywords:
                raise Unsupported(".get needs (key, default) (%s)" % loc(e))
            es = [self.expr(f.value, env), self.expr(e.args[0], env), self.expr(e.args[1], env)]
            return u.seq_many(es, lambda ts: mon("(py_dict_get %s %s %s)" % tuple(ts)))
        raise Unsupported("method call .%s (%s)" % (f.attr, loc(e)))

    def method_call(self, unit, name, e, env, self_term):
        if name not in [n for n, _ in unit.wanted]:
            raise Unsupported("call of %s.%s, which is not among the translated methods (%s)" % (unit.cls, name, loc(e)))
        cp = dict(unit.wanted)[name]
        unit._translate(name, cp)
        pnames, defaults, const_params = unit.params[name]
        if len(e.args) > len(pnames):
            raise Unsupported("too many arguments for %s (%s)" % (name, loc(e)))
        given = {}
        for p, a in zip(pnames, e.args):
            given[p] = a
        for kw in e.keywords:
            if kw.arg not in pnames or kw.arg in given:
                raise Unsupported("keyword %s of %s (%s)" % (kw.arg, name, loc(e)))
            given[kw.arg] = kw.value
        args = []
        # Python evaluates positional arguments, then keywords, in source order; all our argument expressions are
        # evaluated in the order given, and the parameters are filled afterwards
        order = list(e.args) + [kw.value for kw in e.keywords]
        evald = {}
        for a in order:
            evald[id(a)] = self.expr(a, env)
        for p in pnames:
            if p in const_params:
                if p in given and not (isinstance(given[p], ast.Constant) and given[p].value is const_params[p]):
                    raise Unsupported("constant parameter %s of %s gets another value (%s)" % (p, name, loc(e)))
                continue
            if p in given:
                args.append(("e", given[p]))
            elif p in defaults:
                args.append(("d", defaults[p]))
            else:
                raise Unsupported("missing argument %s of %s (%s)" % (p, name, loc(e)))
        order_kept = [a for a in order if not any(given.get(p) is a for p in const_params)]

        def fin(ts):
            m = {id(a): t for a, t in zip(order_kept, ts)}
            terms = []
            for kind, x in args:
                terms.append(m[id(x)] if kind == "e" else self.u.const(x).term)
            return mon("(%s %s)" % (unit.gname(name), " ".join([self_term] + terms)))
        return self.u.seq_many([evald[id(a)] for a in order_kept], fin)


def package_files(repo, pkg="osaca"):
    return sorted(glob.glob(os.path.join(repo, pkg, "**", "*.py"), recursive=True))
