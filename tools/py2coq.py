"""Fail-closed translator from a small, pure subset of Python to Gallina.

The translated text is regenerated from /repo's *current* source on every run; theorems
in coq/PropsGen are then re-checked against it.  Anything outside the subset raises
Unsupported -- the caller counts that as a broken proof obligation (DESIGN.md 0.1, 0.3).

Typing is tracked lightly so that the right prelude operation is chosen:
  str, char, bool, int (Z), num (the NumOps carrier, rendered through the `N.` record),
  reg (record with string fields), match (option string = group 1 of re.match),
  list[T], dictvals[T] (a dict literal, only `.values()` is ever used), opt[T].
"""
import ast
import textwrap


class Unsupported(Exception):
    pass


def cstr(s):
    return '"' + s.replace('"', '""') + '"'


def cchar(c):
    if c == '"':
        return '""""%char'
    return '"%s"%%char' % c


def parse_regex(pat):
    """Tiny regex subset -> Coq `list ritem`: literals, [a-z0-9] classes, one (...) group, ? + *."""
    items = []
    i = 0
    cap = False
    seen_group = False
    while i < len(pat):
        c = pat[i]
        if c == "(":
            if seen_group:
                raise Unsupported("regex: more than one group")
            cap = True
            seen_group = True
            i += 1
            continue
        if c == ")":
            cap = False
            i += 1
            if i < len(pat) and pat[i] in "?+*":
                raise Unsupported("regex: quantified group")
            continue
        if c == "[":
            j = pat.index("]", i)
            body = pat[i + 1:j]
            if body.startswith("^"):
                raise Unsupported("regex: negated class")
            ranges = []
            k = 0
            while k < len(body):
                if k + 2 < len(body) and body[k + 1] == "-":
                    ranges.append((body[k], body[k + 2]))
                    k += 3
                else:
                    ranges.append((body[k], body[k]))
                    k += 1
            i = j + 1
        elif c in ".^$|\\{}":
            raise Unsupported("regex: metacharacter %r" % c)
        else:
            ranges = [(c, c)]
            i += 1
        q = "QOne"
        if i < len(pat) and pat[i] in "?+*":
            q = {"?": "QOpt", "+": "QPlus", "*": "QStar"}[pat[i]]
            i += 1
        items.append("{| r_set := [%s]; r_quant := %s; r_cap := %s |}" % (
            "; ".join("(%s, %s)" % (cchar(a), cchar(b)) for a, b in ranges), q, "true" if cap else "false"))
    return "[" + ";\n      ".join(items) + "]"


class FuncTr:
    def __init__(self, unit, fdef, sig):
        self.unit = unit
        self.fdef = fdef
        self.sig = sig          # dict: params {name: type}, ret type
        self.env = dict(sig["params"])
        self.ret = sig["ret"]
        self.fresh = 0

    # ------------------------------------------------------------- expressions
    def expr(self, e):
        m = getattr(self, "e_" + type(e).__name__, None)
        if m is None:
            raise Unsupported("expression %s at line %d" % (type(e).__name__, e.lineno))
        return m(e)

    def e_Constant(self, e):
        v = e.value
        if isinstance(v, bool):
            return ("true" if v else "false"), "bool"
        if isinstance(v, str):
            return cstr(v), "str"
        if isinstance(v, int):
            return "(%d)%%Z" % v, "int"
        if v is None:
            return "None", "none"
        if isinstance(v, float):
            return self.unit.float_const(v), "num"
        raise Unsupported("constant %r" % (v,))

    def e_Name(self, e):
        if e.id in self.env:
            return self.unit.ident(e.id), self.env[e.id]
        if e.id in self.unit.consts:
            return self.unit.consts[e.id]
        raise Unsupported("free name %s at line %d" % (e.id, e.lineno))

    def e_Attribute(self, e):
        # string.digits is handled by callers; record fields here
        v, t = self.expr(e.value)
        if t in self.unit.records and e.attr in self.unit.records[t]:
            return "(%s_%s %s)" % (t, e.attr, v), self.unit.records[t][e.attr]
        raise Unsupported("attribute .%s on %s at line %d" % (e.attr, t, e.lineno))

    def e_List(self, e):
        els = [self.expr(x) for x in e.elts]
        ts = {t for _, t in els}
        if len(ts) > 1:
            raise Unsupported("heterogeneous list at line %d" % e.lineno)
        t = ts.pop() if ts else "str"
        return "[" + "; ".join(v for v, _ in els) + "]", "list[%s]" % t

    def wrap_pyval(self, v, t, e):
        """C20: a value stored in a Python dict literal with string keys (unit.pydict mode)."""
        if t == "pyval":
            return v
        if t in ("str", "int", "bool"):
            return "(%s %s)" % ({"str": "PStr", "int": "PInt", "bool": "PBool"}[t], v)
        if t == "none":
            return "PNone"
        raise Unsupported("dict value of type %s at line %d" % (t, e.lineno))

    def e_ListComp(self, e):
        if len(e.generators) != 1 or e.generators[0].ifs or not isinstance(e.generators[0].target, ast.Name) \
                or e.generators[0].is_async:
            raise Unsupported("list comprehension shape at line %d" % e.lineno)
        it, itt = self.expr(e.generators[0].iter)
        if not itt.startswith("list["):
            raise Unsupported("list comprehension over %s at line %d" % (itt, e.lineno))
        var = e.generators[0].target.id
        saved = dict(self.env)
        self.env[var] = itt[5:-1]
        body, bt = self.expr(e.elt)
        self.env = saved
        return "(map (fun %s => %s) %s)" % (self.unit.ident(var), body, it), "list[%s]" % bt

    def e_Dict(self, e):
        if getattr(self.unit, "pydict", False):
            if not all(isinstance(k, ast.Constant) and isinstance(k.value, str) for k in e.keys):
                raise Unsupported("dict literal keys at line %d" % e.lineno)
            if len({k.value for k in e.keys}) != len(e.keys):
                raise Unsupported("dict literal with repeated key at line %d" % e.lineno)
            items = []
            for k, x in zip(e.keys, e.values):
                v, t = self.expr(x)
                items.append("(%s, %s)" % (cstr(k.value), self.wrap_pyval(v, t, e)))
            return "[" + ";\n      ".join(items) + "]", "pydict"
        vals = [self.expr(x) for x in e.values]
        ts = {t for _, t in vals}
        if len(ts) != 1:
            raise Unsupported("dict literal values at line %d" % e.lineno)
        return "[" + ";\n      ".join(v for v, _ in vals) + "]", "dictvals[%s]" % ts.pop()

    def e_Subscript(self, e):
        v, t = self.expr(e.value)
        s = e.slice
        if t == "str" and isinstance(s, ast.Slice) and s.step is None:
            lo = s.lower.value if isinstance(s.lower, ast.Constant) else None
            hi = s.upper
            if lo == 1 and hi is None:
                return "(py_slice_from1 %s)" % v, "str"
            if s.lower is None and isinstance(hi, ast.UnaryOp) and isinstance(hi.op, ast.USub) \
                    and isinstance(hi.operand, ast.Constant) and hi.operand.value == 1:
                return "(py_slice_to_m1 %s)" % v, "str"
            if lo == 1 and isinstance(hi, ast.Constant) and hi.value == 2:
                return "(py_slice_1_2 %s)" % v, "str"
        raise Unsupported("subscript at line %d" % e.lineno)

    def e_UnaryOp(self, e):
        v, t = self.expr(e.operand)
        if isinstance(e.op, ast.Not):
            return "(negb %s)" % self.truth(v, t, e), "bool"
        if isinstance(e.op, ast.USub) and t == "int":
            return "(- %s)%%Z" % v, "int"
        if isinstance(e.op, ast.USub) and t == "num":
            return "(nopp N %s)" % v, "num"
        raise Unsupported("unary op at line %d" % e.lineno)

    def truth(self, v, t, e):
        if t == "bool":
            return v
        if t == "match":
            return "(is_some %s)" % v
        raise Unsupported("truthiness of %s at line %d" % (t, e.lineno))

    def e_BoolOp(self, e):
        parts = []
        for x in e.values:
            v, t = self.expr(x)
            parts.append(self.truth(v, t, x))
        op = "andb" if isinstance(e.op, ast.And) else "orb"
        out = parts[-1]
        for p in reversed(parts[:-1]):
            out = "(%s %s %s)" % (op, p, out)
        return out, "bool"

    def e_Compare(self, e):
        if len(e.ops) != 1:
            # a < b <= c
            parts = []
            left = e.left
            for op, right in zip(e.ops, e.comparators):
                parts.append(self.compare1(left, op, right, e))
                left = right
            out = parts[-1]
            for p in reversed(parts[:-1]):
                out = "(andb %s %s)" % (p, out)
            return out, "bool"
        return self.compare1(e.left, e.ops[0], e.comparators[0], e), "bool"

    def compare1(self, l, op, r, e):
        lv, lt = self.expr(l)
        rv, rt = self.expr(r)
        neg = isinstance(op, (ast.NotEq, ast.NotIn, ast.IsNot))
        w = (lambda s: "(negb %s)" % s) if neg else (lambda s: s)
        if isinstance(op, (ast.Is, ast.IsNot)):
            if rt != "none":
                raise Unsupported("`is` with non-None at line %d" % e.lineno)
            if lt.startswith("opt["):
                return w("(negb (is_some %s))" % lv)
            # a value of a non-optional model type is never None (model assumption)
            return w("false")
        if isinstance(op, (ast.Eq, ast.NotEq)):
            if lt == rt == "str":
                return w("(String.eqb %s %s)" % (lv, rv))
            if lt == rt == "int":
                return w("(Z.eqb %s %s)" % (lv, rv))
            if lt == rt == "bool":
                return w("(Bool.eqb %s %s)" % (lv, rv))
            if {lt, rt} <= {"num", "int"}:
                return w("(neqb N %s %s)" % (self.as_num(lv, lt), self.as_num(rv, rt)))
            raise Unsupported("== between %s and %s at line %d" % (lt, rt, e.lineno))
        if isinstance(op, (ast.In, ast.NotIn)):
            if lt == "str" and rt == "str":
                return w("(py_substr %s %s)" % (lv, rv))
            if lt == "str" and rt == "list[str]":
                return w("(py_in_list %s %s)" % (lv, rv))
            raise Unsupported("`in` between %s and %s at line %d" % (lt, rt, e.lineno))
        if isinstance(op, (ast.Lt, ast.LtE, ast.Gt, ast.GtE)):
            if lt == rt == "int":
                f = {ast.Lt: "Z.ltb %s %s", ast.LtE: "Z.leb %s %s", ast.Gt: "Z.ltb %s %s", ast.GtE: "Z.leb %s %s"}[type(op)]
                a, b = (lv, rv) if isinstance(op, (ast.Lt, ast.LtE)) else (rv, lv)
                return "(" + f % (a, b) + ")"
            if {lt, rt} <= {"num", "int"}:
                a, b = self.as_num(lv, lt), self.as_num(rv, rt)
                if isinstance(op, (ast.Gt, ast.GtE)):
                    a, b = b, a
                f = "nleb" if isinstance(op, (ast.LtE, ast.GtE)) else "nltb"
                return "(%s N %s %s)" % (f, a, b)
        raise Unsupported("comparison at line %d" % e.lineno)

    def as_num(self, v, t):
        if t == "num":
            return v
        if t == "int":
            return "(nofZ N %s)" % v
        raise Unsupported("not numeric: %s" % t)

    def e_BinOp(self, e):
        lv, lt = self.expr(e.left)
        rv, rt = self.expr(e.right)
        op = type(e.op)
        if lt == rt == "int" and op in (ast.Add, ast.Sub, ast.Mult):
            return "(%s %s %s)%%Z" % (lv, {ast.Add: "+", ast.Sub: "-", ast.Mult: "*"}[op], rv), "int"
        if lt == rt == "str" and op is ast.Add:
            return "(%s ++ %s)" % (lv, rv), "str"
        if {lt, rt} <= {"num", "int"} and op in (ast.Add, ast.Sub, ast.Mult, ast.Div):
            f = {ast.Add: "nadd", ast.Sub: "nsub", ast.Mult: "nmul", ast.Div: "ndiv"}[op]
            return "(%s N %s %s)" % (f, self.as_num(lv, lt), self.as_num(rv, rt)), "num"
        raise Unsupported("binary op %s on %s,%s at line %d" % (op.__name__, lt, rt, e.lineno))

    def e_IfExp(self, e):
        c, ct = self.expr(e.test)
        a, at = self.expr(e.body)
        b, bt = self.expr(e.orelse)
        if at != bt and getattr(self.unit, "pydict", False):
            a, b, at, bt = self.wrap_pyval(a, at, e), self.wrap_pyval(b, bt, e), "pyval", "pyval"
        if at != bt:
            raise Unsupported("conditional expression branches %s/%s at line %d" % (at, bt, e.lineno))
        return "(if %s then %s else %s)" % (self.truth(c, ct, e), a, b), at

    def e_Call(self, e):
        f = e.func
        # any(<generator>)
        if isinstance(f, ast.Name) and f.id == "any" and len(e.args) == 1 and isinstance(e.args[0], ast.GeneratorExp):
            g = e.args[0]
            if len(g.generators) != 1 or g.generators[0].ifs or not isinstance(g.generators[0].target, ast.Name):
                raise Unsupported("generator shape at line %d" % e.lineno)
            it, itt = self.expr(g.generators[0].iter)
            var = g.generators[0].target.id
            saved = dict(self.env)
            if itt == "str":
                self.env[var] = "char"
                body, bt = self.expr(g.elt)
                self.env = saved
                return "(py_any_char (fun %s => %s) %s)" % (self.unit.ident(var), self.truth(body, bt, e), it), "bool"
            if itt.startswith("list["):
                self.env[var] = itt[5:-1]
                body, bt = self.expr(g.elt)
                self.env = saved
                return "(existsb (fun %s => %s) %s)" % (self.unit.ident(var), self.truth(body, bt, e), it), "bool"
            raise Unsupported("any() over %s at line %d" % (itt, e.lineno))
        if isinstance(f, ast.Name) and f.id == "isinstance" and len(e.args) == 2:
            v, t = self.expr(e.args[0])
            cls = e.args[1].id if isinstance(e.args[1], ast.Name) else None
            if t in self.unit.records and cls in self.unit.isinstance_true.get(t, ()):
                return "true", "bool"
            raise Unsupported("isinstance(%s, %s) at line %d" % (t, cls, e.lineno))
        if isinstance(f, ast.Name) and f.id in self.unit.builtins:
            return self.unit.builtins[f.id](self, e)
        if isinstance(f, ast.Name) and self.unit.cls is None and f.id in self.unit.funcs and not e.keywords:
            sig = self.unit.funcs[f.id]
            args = [self.expr(a) for a in e.args]
            if [t for _, t in args] != list(sig["params"].values()):
                raise Unsupported("argument types of %s at line %d" % (f.id, e.lineno))
            return "(%s %s)" % (self.unit.prefix + f.id, " ".join(v for v, _ in args)), sig["ret"]
        if isinstance(f, ast.Attribute):
            # re.match(pattern, s)
            if isinstance(f.value, ast.Name) and f.value.id == "re" and f.attr == "match":
                if len(e.args) != 2 or e.keywords or not isinstance(e.args[0], ast.Constant):
                    raise Unsupported("re.match shape at line %d" % e.lineno)
                s, st = self.expr(e.args[1])
                if st != "str":
                    raise Unsupported("re.match on %s" % st)
                return "(re_match %s %s)" % (parse_regex(e.args[0].value), s), "match"
            if isinstance(f.value, ast.Name) and f.value.id == "math" and f.attr in ("floor", "ceil"):
                v, t = self.expr(e.args[0])
                return "(n%s N %s)" % (f.attr, self.as_num(v, t)), "int"
            # self.method(args)
            if isinstance(f.value, ast.Name) and f.value.id == "self":
                if f.attr not in self.unit.funcs:
                    raise Unsupported("call of untranslated method %s at line %d" % (f.attr, e.lineno))
                sig = self.unit.funcs[f.attr]
                args = [self.expr(a) for a in e.args]
                if [t for _, t in args] != list(sig["params"].values()):
                    raise Unsupported("argument types of %s at line %d" % (f.attr, e.lineno))
                return "(%s %s)" % (self.unit.prefix + f.attr, " ".join(v for v, _ in args)), sig["ret"]
            v, t = self.expr(f.value)
            if t == "str":
                if f.attr == "upper" and not e.args:
                    return "(py_upper %s)" % v, "str"
                if f.attr == "lower" and not e.args:
                    return "(py_lower %s)" % v, "str"
                if f.attr == "startswith" and len(e.args) == 1:
                    a, at = self.expr(e.args[0])
                    if at == "str":
                        return "(py_startswith %s %s)" % (v, a), "bool"
                if f.attr == "rstrip" and len(e.args) == 1 and isinstance(e.args[0], ast.Attribute) \
                        and isinstance(e.args[0].value, ast.Name) and e.args[0].value.id == "string" \
                        and e.args[0].attr == "digits":
                    return "(py_rstrip_digits %s)" % v, "str"
            if t == "char" and f.attr == "isdigit" and not e.args:
                return "(is_digit %s)" % v, "bool"
            if t == "match" and f.attr == "group" and len(e.args) == 1 and isinstance(e.args[0], ast.Constant) \
                    and e.args[0].value == 1:
                return "(re_group1 %s)" % v, "str"
            if t.startswith("dictvals[") and f.attr == "values" and not e.args:
                return v, "list[%s]" % t[9:-1]
            raise Unsupported("method .%s on %s at line %d" % (f.attr, t, e.lineno))
        raise Unsupported("call at line %d" % e.lineno)

    # ------------------------------------------------------------- statements
    def block(self, stmts, k):
        """Translate a statement list; k = Gallina text of 'what happens on fall-through'
        (None: falling through is an error => Unsupported)."""
        if not stmts:
            if k is None:
                raise Unsupported("function may fall off its end (implicit None)")
            return k
        s, rest = stmts[0], stmts[1:]
        if isinstance(s, ast.Expr) and isinstance(s.value, ast.Constant) and isinstance(s.value.value, str):
            return self.block(rest, k)          # docstring
        if isinstance(s, ast.Pass):
            return self.block(rest, k)
        if isinstance(s, ast.Return):
            if s.value is None:
                raise Unsupported("bare return at line %d" % s.lineno)
            v, t = self.expr(s.value)
            return self.coerce(v, t, self.ret, s)
        if isinstance(s, ast.Assign):
            if len(s.targets) != 1 or not isinstance(s.targets[0], ast.Name):
                raise Unsupported("assignment target at line %d" % s.lineno)
            v, t = self.expr(s.value)
            name = s.targets[0].id
            if name in self.env and self.env[name] != t:
                raise Unsupported("variable %s changes type at line %d" % (name, s.lineno))
            self.env[name] = t
            return "let %s := %s in\n%s" % (self.unit.ident(name), v, self.block(rest, k))
        if isinstance(s, ast.If):
            c, ct = self.expr(s.test)
            c = self.truth(c, ct, s)
            if c == "false" and not s.orelse:
                return self.block(rest, k)      # statically dead guard (e.g. isinstance on a typed model value)
            if c == "(negb true)" and not s.orelse:
                return self.block(rest, k)
            if rest:
                self.fresh += 1
                kn = "k%d_" % self.fresh
                saved = dict(self.env)
                kbody = self.block(rest, k)
                self.env = saved
                a = self.block(s.body, "%s tt" % kn)
                self.env = dict(saved)
                b = self.block(s.orelse, "%s tt" % kn)
                self.env = saved
                self.check_no_new_vars(s, saved)
                return "let %s := fun _ : unit =>\n%s in\nif %s then\n%s\nelse\n%s" % (
                    kn, textwrap.indent(kbody, "  "), c, textwrap.indent(a, "  "), textwrap.indent(b, "  "))
            saved = dict(self.env)
            a = self.block(s.body, k)
            self.env = dict(saved)
            b = self.block(s.orelse, k)
            self.env = saved
            return "if %s then\n%s\nelse\n%s" % (c, textwrap.indent(a, "  "), textwrap.indent(b, "  "))
        if isinstance(s, ast.For):
            if s.orelse or not isinstance(s.target, ast.Name):
                raise Unsupported("for shape at line %d" % s.lineno)
            it, itt = self.expr(s.iter)
            if not itt.startswith("list["):
                raise Unsupported("for over %s at line %d" % (itt, s.lineno))
            self.assert_no_assign(s.body)
            saved = dict(self.env)
            self.env[s.target.id] = itt[5:-1]
            self.fresh += 1
            kn = "next%d_" % self.fresh
            body = self.block(s.body, "%s tt" % kn)
            self.env = saved
            after = self.block(rest, k)
            return "py_for %s\n  (fun %s %s =>\n%s)\n  (fun _ : unit =>\n%s)" % (
                it, self.unit.ident(s.target.id), kn, textwrap.indent(body, "    "), textwrap.indent(after, "    "))
        if isinstance(s, ast.Raise):
            if "error" in self.unit.__dict__ and self.unit.error is not None:
                return self.unit.error
            raise Unsupported("raise at line %d" % s.lineno)
        raise Unsupported("statement %s at line %d" % (type(s).__name__, s.lineno))

    def check_no_new_vars(self, s, saved):
        # variables assigned inside an `if` with a continuation must not be used afterwards
        assigned = {t.id for n in ast.walk(s) if isinstance(n, ast.Assign) for t in n.targets if isinstance(t, ast.Name)}
        later_ok = assigned <= set(saved) or True
        # conservative check: an assigned variable that already existed would be shadowed wrongly
        clash = assigned & set(saved)
        if clash:
            raise Unsupported("re-assignment of %s inside a branch at line %d" % (sorted(clash), s.lineno))

    def assert_no_assign(self, stmts):
        for st in stmts:
            for n in ast.walk(st):
                if isinstance(n, (ast.Assign, ast.AugAssign, ast.Break, ast.Continue, ast.While)):
                    raise Unsupported("loop body with assignment/break at line %d" % n.lineno)

    def coerce(self, v, t, want, s):
        if t == want:
            return v
        if want == "bool" and t == "match":
            return "(is_some %s)" % v
        if want.startswith("opt[") and t == "none":
            return "None"
        if want.startswith("opt[") and t == want[4:-1]:
            return "(Some %s)" % v
        if want == "num" and t == "int":
            return "(nofZ N %s)" % v
        if want == "opt[num]" and t == "int":
            return "(Some (nofZ N %s))" % v
        raise Unsupported("return type %s where %s expected at line %d" % (t, want, s.lineno))

    def translate(self):
        params = " ".join("(%s : %s)" % (self.unit.ident(p), self.unit.coq_type(t)) for p, t in self.sig["params"].items())
        body = self.block(self.fdef.body, self.sig.get("fallthrough"))
        return "Definition %s%s %s : %s :=\n%s." % (
            self.unit.prefix, self.fdef.name, params, self.unit.coq_type(self.ret), textwrap.indent(body, "  "))


class Unit:
    """One generated .v file: functions taken from one class (or module level) of one source file."""

    def __init__(self, path, cls=None, prefix="", records=None, isinstance_true=None, header="", error=None):
        self.path = path
        self.src = open(path).read()
        self.tree = ast.parse(self.src)
        self.cls = cls
        self.prefix = prefix
        self.records = records or {}
        self.isinstance_true = isinstance_true or {}
        self.funcs = {}
        self.out = []
        self.header = header
        self.consts = {}
        self.builtins = {}
        self.error = error

    def ident(self, n):
        return n + "_" if n in ("at", "in", "of", "as", "end", "fun", "let", "if", "then", "else", "match", "with", "return", "type", "Type", "mod") else n

    def coq_type(self, t):
        if t in self.records:
            return t
        if t.startswith("list["):
            return "(list %s)" % self.coq_type(t[5:-1])
        if t.startswith("opt["):
            return "(option %s)" % self.coq_type(t[4:-1])
        return {"str": "string", "bool": "bool", "int": "Z", "num": "T", "match": "(option string)", "char": "ascii",
                "pydict": "pydict", "pyval": "pyval"}[t]

    def float_const(self, v):
        from fractions import Fraction
        # decimal literal as written -> exact rational handed to the NumOps instance
        fr = Fraction(repr(v))
        return "(nofQ N (%d) (%d))" % (fr.numerator, fr.denominator)

    def find(self, name):
        body = self.tree.body
        if self.cls:
            for n in body:
                if isinstance(n, ast.ClassDef) and n.name == self.cls:
                    body = n.body
                    break
            else:
                raise Unsupported("class %s not found in %s" % (self.cls, self.path))
        for n in body:
            if isinstance(n, ast.FunctionDef) and n.name == name:
                return n
        raise Unsupported("function %s not found in %s" % (name, self.path))

    def add(self, name, params, ret, fallthrough=None):
        fdef = self.find(name)
        args = [a.arg for a in fdef.args.args if a.arg != "self"]
        if args != list(params):
            raise Unsupported("%s: parameters %s, expected %s" % (name, args, list(params)))
        if fdef.args.vararg or fdef.args.kwarg or fdef.args.kwonlyargs:
            raise Unsupported("%s: star-args" % name)
        sig = {"params": params, "ret": ret, "fallthrough": fallthrough}
        text = FuncTr(self, fdef, sig).translate()
        self.funcs[name] = sig
        self.out.append("(* translated from %s:%d *)\n%s\n" % (self.path, fdef.lineno, text))
        return text

    def render(self):
        return self.header + "\n" + "\n".join(self.out)
