#!/bin/sh
# usage: tools/sweep.sh <tier> <seed> Cxx Cyy ...   -- run checks one after the other, summarise
tier=$1; seed=$2; shift 2
for p in "$@"; do
  t0=$(date +%s)
  VERIF_SEED=$seed ./check $p --tier $tier > sweep_${p}_${tier}_${seed}.log 2>&1
  rc=$?
  echo "$p tier=$tier seed=$seed rc=$rc wall=$(( $(date +%s) - t0 ))s $(grep -c 'KNOWN-FINDING' sweep_${p}_${tier}_${seed}.log) known $(grep 'VIOLATION' sweep_${p}_${tier}_${seed}.log | head -2 | tr '\n' ' ')"
done
