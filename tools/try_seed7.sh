#!/bin/sh
# usage: tools/try_seed4.sh Cxx   -- round 7: normalise the agent's worktree to HEAD + SEED/patch.diff, then validate + run the check
P=$1; WT=/tmp/seed7-$P
cp -r $WT/SEED /tmp/seed7-$P.SEED.bak 2>/dev/null
git -C $WT checkout -- . || exit 2
git -C $WT checkout -q --detach $(git -C /repo rev-parse HEAD) || exit 2
git -C $WT apply $WT/SEED/patch.diff || { echo "patch does not apply"; exit 2; }
git -C $WT status --short | grep -v '^??'
exec /verif/tools/try_seed.sh $P $P-7 $WT
