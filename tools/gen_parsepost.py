"""Regenerate Gallina from the CURRENT source of the POST-PROCESSING stage of the two assembly parsers
(osaca/parser/parser_AArch64.py, parser_x86att.py, base_parser.py): everything behind the pyparsing grammars,
i.e. the plain Python that turns the grammar's result dictionaries into operand objects / InstructionForms.

Built on the dynamically typed layer tools/py2coq_dyn.py + coq/Model/PyDyn.v (imported, not edited) and its
extension coq/Model/PyPost.v.  Every method  def m(self, a, b)  becomes

    Definition <prefix>m (orc : string -> pyval -> res pyval) (v_a v_b : pyval) : res pyval

`orc` is the GRAMMAR STAGE: `self.<elem>.parseString(e, parseAll=True).asDict()` is translated to `orc "<elem>" e`
(a result dictionary, or Raise ParseException).  The theorems quantify over the oracle; the check validates the
grammar-stage function they instantiate it with against real pyparsing output on every generated line.

SUBSET beyond py2coq_dyn (anything else raises Unsupported -> broken obligation, fail closed)
  self            only `self.NAME` for a class-level constant (own class or a base class, never assigned through an
                  instance), `self.m(...)` for a translated method, and the oracle pattern; `self` is not a value.
  constructors    `C(kw=...)` for a class of the package whose __init__ (and the __init__ it calls through
                  super().__init__(...)) is straight-line `self._x = <expr over the parameters>`; translated to
                  new_C / init_C: the object's fields are its instance attributes in assignment order.
  attributes      `e.a` is read as the instance attribute the property `a` is a plain view of (`return self._f`, the
                  same `_f` in every class of osaca/parser that has a property `a`), or as the data attribute `a` when
                  no class has such a property; `x.a = v` likewise through plain setters.
  updates         `x[k] = v`, `x.a = v`, `x.append(v)`, `x.extend(v)` (also `A if c else B` of those as a statement)
                  are functional updates of the variable x, under the ALIASING discipline below.
  expressions     dict literals, `int(e) int(e, 0) int(e, 10) str(e) float(e)(=Unmodelled) deepcopy(e)`,
                  `** << *`, `sep.join(e)`, `e.split("c")`, `e.strip()`, `range(a[, b])` as a loop iterable,
                  `==`/`!=`/`in` refusing objects (PyPost.py_eq_v ...).
  statements      `for` with `continue` and assignment to the loop variable; `raise E(...) [from e]`;
                  `try: <assignments / if / return> except E | (E1, E2) [as e]: <block>` (one handler; an exception
                  raised by a statement of the body is caught at that statement, with the assignments made so far).
ALIASING  (values are immutable in the target, so an in-place update must not be observable through another name)
  A1  the updated variable x is FRESH (bound to a list/dict literal, a constructor call, deepcopy(...), an oracle
      call) and has not ESCAPED (stored in a container/object, appended, returned, passed to a method that may
      return or store its argument, copied to another variable) since it was bound; or
  A2  x is a parameter P, or was bound exactly once by `x = P.get("f", d)` / `x = P["f"]`, and the update is
      `x["k"] = v` with a literal k; then P (resp. P["f"]) may be read elsewhere in the method only as
      P["f"]["k2"] / "k2" in P["f"] with k2 != k, never as a whole value, and the method is recorded as MUTATING P;
  A3  a call of a mutating method must pass `V["c"]` (V a variable), a call result or an oracle result; after the
      call V["c"] is not read again and V is not used as a whole value (V becomes mutated transitively);
  A4  when the stored value may contain x itself (it mentions x, or a call that received x) the guarded operation
      (PyPost.*_g) is emitted: a would-be cyclic structure is Unmodelled.
"""
import ast
import os
import textwrap

import py2coq_dyn as D
from py2coq_dyn import Unsupported, cstr, loc, pure, mon

EXN_NAMES = {"ParseException": "ParseException", "KeyError": "KeyError", "ValueError": "ValueError",
             "TypeError": "TypeError", "IndexError": "IndexError", "AttributeError": "AttributeError"}
FORBIDDEN_CTOR_DUNDERS = ("__getattr__", "__getattribute__", "__setattr__", "__new__", "__slots__", "__init_subclass__",
                          "__set_name__", "__delattr__")


def pseudo(kind, args, node, **kw):
    c = ast.Call(func=ast.Name(id="<" + kind + ">", ctx=ast.Load()), args=args, keywords=[])
    c._pseudo = kind
    c._extra = kw
    ast.copy_location(c, node)
    ast.copy_location(c.func, node)
    return c


def normalise(stmts):
    """in-place updates -> pseudo assignments `x = <op>(x, ...)`; `A if c else B` statements -> if statements"""
    out = []
    for st in stmts:
        for fld in ("body", "orelse", "finalbody"):
            if isinstance(getattr(st, fld, None), list) and not isinstance(st, (ast.IfExp,)):
                setattr(st, fld, normalise(getattr(st, fld)))
        if isinstance(st, ast.Try):
            for h in st.handlers:
                h.body = normalise(h.body)
        if isinstance(st, ast.Expr) and isinstance(st.value, ast.IfExp):
            n = ast.If(test=st.value.test, body=normalise([ast.copy_location(ast.Expr(value=st.value.body), st)]),
                       orelse=normalise([ast.copy_location(ast.Expr(value=st.value.orelse), st)]))
            out.append(ast.copy_location(n, st))
            continue
        if isinstance(st, ast.Expr) and isinstance(st.value, ast.Call) and isinstance(st.value.func, ast.Attribute) \
                and st.value.func.attr in ("append", "extend") and isinstance(st.value.func.value, ast.Name) \
                and len(st.value.args) == 1 and not st.value.keywords:
            x = st.value.func.value.id
            n = ast.Assign(targets=[ast.Name(id=x, ctx=ast.Store())],
                           value=pseudo(st.value.func.attr, [ast.Name(id=x, ctx=ast.Load()), st.value.args[0]], st, var=x))
            n._update = x
            out.append(ast.copy_location(n, st))
            ast.fix_missing_locations(n)
            continue
        if isinstance(st, ast.Assign) and len(st.targets) == 1 and isinstance(st.targets[0], (ast.Subscript, ast.Attribute)):
            t = st.targets[0]
            if not isinstance(t.value, ast.Name):
                raise Unsupported("update through something else than a variable (%s)" % loc(st))
            x = t.value.id
            if isinstance(t, ast.Subscript):
                if isinstance(t.slice, ast.Slice):
                    raise Unsupported("slice assignment (%s)" % loc(st))
                v = pseudo("setitem", [ast.Name(id=x, ctx=ast.Load()), t.slice, st.value], st, var=x)
            else:
                v = pseudo("setattr", [ast.Name(id=x, ctx=ast.Load()), st.value], st, var=x, attr=t.attr)
            n = ast.Assign(targets=[ast.Name(id=x, ctx=ast.Store())], value=v)
            n._update = x
            out.append(ast.copy_location(n, st))
            ast.fix_missing_locations(n)
            continue
        out.append(st)
    return out


# ------------------------------------------------------------------ constructors and properties of the package's classes
class Classes:
    """constructors (new_C / init_C) and the property <-> instance-attribute map of the classes under osaca/parser"""

    def __init__(self, index, repo):
        self.index = index
        self.parser_dir = os.path.join(repo, "osaca", "parser") + os.sep
        self.done = {}
        self.order = []
        self.params = {}
        self.used = set()

    def parser_classes(self):
        return [n for n, c in self.index.classes.items() if c is not None and c[1].startswith(self.parser_dir)]

    def _props(self, attr, kind):
        """[(class, field)] for every parser class with a property `attr` (kind: getter/setter); field None = not plain"""
        out = []
        for cname in self.parser_classes():
            node = self.index.get(cname)
            for st in node.body:
                if not isinstance(st, ast.FunctionDef) or st.name != attr:
                    continue
                is_get = any(isinstance(d, ast.Name) and d.id == "property" for d in st.decorator_list)
                is_set = any(isinstance(d, ast.Attribute) and d.attr == "setter" for d in st.decorator_list)
                body = [s for s in st.body if not (isinstance(s, ast.Expr) and isinstance(s.value, ast.Constant))]
                if kind == "getter" and is_get:
                    ok = (len(body) == 1 and isinstance(body[0], ast.Return) and isinstance(body[0].value, ast.Attribute)
                          and isinstance(body[0].value.value, ast.Name) and body[0].value.value.id == "self")
                    out.append((cname, body[0].value.attr if ok else None))
                elif kind == "setter" and is_set:
                    a = st.args.args
                    ok = (len(a) == 2 and len(body) == 1 and isinstance(body[0], ast.Assign) and len(body[0].targets) == 1
                          and isinstance(body[0].targets[0], ast.Attribute) and isinstance(body[0].targets[0].value, ast.Name)
                          and body[0].targets[0].value.id == "self" and isinstance(body[0].value, ast.Name)
                          and body[0].value.id == a[1].arg)
                    out.append((cname, body[0].targets[0].attr if ok else None))
                elif not is_get and not is_set and kind == "getter":
                    out.append((cname, None))          # a METHOD of that name: `e.attr` would be a bound method
        return out

    def field_read(self, attr, node):
        ps = self._props(attr, "getter")
        if not ps:
            return attr
        fields = set(f for _, f in ps)
        if None in fields or len(fields) != 1:
            raise Unsupported("attribute .%s: its getter is not one plain `return self._f` in every parser class (%s) (%s)"
                              % (attr, ps, loc(node)))
        return fields.pop()

    def field_write(self, attr, node):
        getters = self._props(attr, "getter")
        setters = self._props(attr, "setter")
        if not getters and not setters:
            return attr
        if set(c for c, _ in getters) - set(c for c, _ in setters):
            raise Unsupported("assignment to .%s: a parser class has the property without a setter (%s)" % (attr, loc(node)))
        fields = set(f for _, f in setters)
        if None in fields or len(fields) != 1:
            raise Unsupported("assignment to .%s: its setter is not one plain `self._f = value` in every parser class (%s) (%s)"
                              % (attr, setters, loc(node)))
        return fields.pop()

    # -------------------------------------------------------------- __init__ -> init_C / new_C
    def ensure(self, cname, unit):
        if cname in self.done:
            return
        node = self.index.get(cname)
        chain = self.index.mro(cname)
        for c in chain:
            if c.keywords or c.decorator_list:
                raise Unsupported("class %s: metaclass / decorator" % c.name)
            for st in c.body:
                nm = st.name if isinstance(st, (ast.FunctionDef, ast.AsyncFunctionDef)) else None
                if nm in FORBIDDEN_CTOR_DUNDERS:
                    raise Unsupported("class %s defines %s" % (c.name, nm))
                if isinstance(st, ast.Assign) and any(isinstance(t, ast.Name) and t.id == "__slots__" for t in st.targets):
                    raise Unsupported("class %s defines __slots__" % c.name)
        init = None
        owner = None
        for c in chain:
            for st in c.body:
                if isinstance(st, ast.FunctionDef) and st.name == "__init__":
                    init, owner = st, c
                    break
            if init is not None:
                break
        if init is None:
            raise Unsupported("class %s has no __init__" % cname)
        if owner.name != cname:
            # inherited constructor: same fields, other class name
            self.ensure(owner.name, unit)
            self.params[cname] = self.params[owner.name]
            self.done[cname] = "Definition init_%s := init_%s.\nDefinition new_%s %s : res pyval :=\n  bind (init_%s %s) (fun f => Ok (py_new %s f)).\n" % (
                cname, owner.name, cname, self._sig(self.params[cname][0]), cname,
                " ".join("v_" + p for p in self.params[cname][0]), cstr(cname))
            self.order.append(cname)
            return
        a = init.args
        if a.vararg or a.kwarg or a.kwonlyargs or a.posonlyargs or init.decorator_list:
            raise Unsupported("%s.__init__: *args/**kwargs/decorators" % cname)
        names = [x.arg for x in a.args]
        if not names or names[0] != "self":
            raise Unsupported("%s.__init__: first parameter is not self" % cname)
        defaults = {}
        for p, d in zip(names[len(names) - len(a.defaults):], a.defaults):
            defaults[p] = d
        params = names[1:]
        fn = PostTr(unit, cname + ".__init__", init, names, {}, {})
        fn.ctor_mode = True
        env = set(params)
        body = [s for s in init.body if not (isinstance(s, ast.Expr) and isinstance(s.value, ast.Constant))]
        term = self._init_body(fn, cname, owner, body, env)
        self.params[cname] = (params, defaults)
        text = "(* %s.__init__, line %d *)\nDefinition init_%s %s : res (list (string * pyval)) :=\n%s.\n" % (
            cname, init.lineno, cname, self._sig(params), textwrap.indent(term, "  "))
        text += "Definition new_%s %s : res pyval :=\n  bind (init_%s %s) (fun f => Ok (py_new %s f)).\n" % (
            cname, self._sig(params), cname, " ".join("v_" + p for p in params), cstr(cname))
        self.done[cname] = text
        self.order.append(cname)

    @staticmethod
    def _sig(params):
        return "(%s : pyval)" % " ".join("v_" + p for p in params) if params else "(_ : unit)"

    def _init_body(self, fn, cname, owner, body, env):
        """fields threaded through the statements of __init__"""
        def go(i, fvar):
            if i == len(body):
                return "(Ok %s)" % fvar
            st = body[i]
            # super().__init__(args) / super(C, self).__init__(args)
            if isinstance(st, ast.Expr) and isinstance(st.value, ast.Call) and isinstance(st.value.func, ast.Attribute) \
                    and st.value.func.attr == "__init__" and isinstance(st.value.func.value, ast.Call) \
                    and isinstance(st.value.func.value.func, ast.Name) and st.value.func.value.func.id == "super":
                if i != 0:
                    raise Unsupported("%s.__init__: super().__init__ is not the first statement" % cname)
                bases = self.index.base_names(owner)
                if len(bases) != 1 or bases[0] == "object":
                    raise Unsupported("%s.__init__: super() without a single indexed base class" % cname)
                self.ensure(bases[0], fn.u)
                bparams, bdefaults = self.params[bases[0]]
                call = st.value
                if call.keywords or any(isinstance(x, ast.Starred) for x in call.args) or len(call.args) > len(bparams):
                    raise Unsupported("%s.__init__: super().__init__ call shape" % cname)
                args = [fn.expr(x, env) for x in call.args]
                rest = bparams[len(call.args):]
                for p in rest:
                    if p not in bdefaults:
                        raise Unsupported("%s.__init__: super().__init__ misses %s" % (cname, p))
                    args.append(fn.expr(bdefaults[p], set()))
                nf = fn.u.tmp("f")
                return fn.u.seq_many(args, lambda ts: mon("(bind (init_%s %s) (fun %s =>\n%s))" % (
                    bases[0], " ".join(ts) if ts else "tt", nf, go(i + 1, nf)))).term
            if isinstance(st, ast.Assign) and len(st.targets) == 1 and isinstance(st.targets[0], ast.Attribute) \
                    and isinstance(st.targets[0].value, ast.Name) and st.targets[0].value.id == "self":
                fld = st.targets[0].attr
                e = fn.expr(st.value, env)
                nf = fn.u.tmp("f")
                return fn.u.seq(e, lambda t: mon("(let %s := fset %s %s %s in\n%s)" % (nf, cstr(fld), t, fvar, go(i + 1, nf)))).term
            raise Unsupported("%s.__init__: statement %s (%s)" % (cname, type(st).__name__, loc(st)))
        return go(0, "[]")

    def render(self):
        return "\n".join(self.done[c] for c in self.order)


# ------------------------------------------------------------------ units
class PostUnit(D.Unit):
    def __init__(self, path, cls, prefix, index, classes, opaque=()):
        super().__init__(path, cls, prefix, index)
        self.classes = classes
        self.opaque = set(opaque)
        self.oracles = set()
        self.mutates = {}            # method -> set of parameter names it may update in place (transitively)
        self.retains = {}            # method -> set of parameter names a result may alias / that it stores
        # class constants of the base classes too (BaseParser.comment_id ...)
        for node in index.mro(cls)[1:]:
            for st in node.body:
                if isinstance(st, ast.Assign) and len(st.targets) == 1 and isinstance(st.targets[0], ast.Name):
                    nm = st.targets[0].id
                    if isinstance(st.value, ast.Constant) and isinstance(st.value.value, (str, bool, int, type(None))) \
                            and nm not in self.class_consts:
                        self.class_consts[nm] = st.value.value
            for st in node.body:
                if isinstance(st, (ast.FunctionDef, ast.AsyncFunctionDef)) and st.name not in self.methods:
                    self.methods[st.name] = st
        self.mro_nodes = index.mro(cls)

    def const_attr(self, attr, node):
        """value of self.<attr> when it is a class constant nobody assigns through an instance, else None"""
        if attr not in self.class_consts:
            return None
        for c in self.mro_nodes:
            for n in ast.walk(c):
                if isinstance(n, ast.Attribute) and n.attr == attr and isinstance(n.ctx, (ast.Store, ast.Del)) \
                        and not (isinstance(n.value, ast.Name) and n.value.id not in ("self", "cls")):
                    # (a store through a local variable other than self is a store on another object: `self` is never a value)
                    raise Unsupported("class constant %s is assigned through an instance (%s)" % (attr, loc(n)))
        return self.class_consts[attr]

    def const(self, v, node=None):
        if isinstance(v, str) and "\n" in v and all(32 <= ord(c) <= 126 or c == "\n" for c in v):
            parts = [("nl" if x == "\n" else cstr(x)) for x in __import__("re").split("(\n)", v) if x != ""]
            return pure("(PStr (%s))" % " ++ ".join(parts)) if len(parts) > 1 else pure("(PStr %s)" % parts[0])
        return super().const(v, node)

    def _translate(self, name, const_params):
        if name in self.done:
            return
        if name in self.in_progress:
            raise Unsupported("recursive call of %s" % name)
        if name not in self.methods:
            raise Unsupported("method %s.%s not found" % (self.cls, name))
        f = self.methods[name]
        if not isinstance(f, ast.FunctionDef) or f.decorator_list:
            raise Unsupported("%s: async def / decorators" % name)
        a = f.args
        if a.vararg or a.kwarg or a.kwonlyargs or a.posonlyargs:
            raise Unsupported("%s: *args/**kwargs/keyword-only parameters" % name)
        names = [x.arg for x in a.args]
        if not names or names[0] != "self":
            raise Unsupported("%s: first parameter is not self" % name)
        defaults = {}
        for p, d in zip(names[len(names) - len(a.defaults):], a.defaults):
            if not isinstance(d, ast.Constant):
                raise Unsupported("%s: default of %s is not a literal" % (name, p))
            defaults[p] = d.value
        for fpath, tree in self.index.trees.items():
            for node in ast.walk(tree):
                if isinstance(node, ast.Attribute) and node.attr == name and isinstance(node.ctx, (ast.Store, ast.Del)):
                    raise Unsupported("%s.%s is rebound (%s:%s)" % (self.cls, name, fpath, node.lineno))
        # the method must be the one the class uses: not overridden between the defining class and self.cls
        self.in_progress.add(name)
        if name in self.opaque:
            body = "(Raise Unmodelled)  (* %s is outside the modelled layer (floats); nothing is claimed through it *)" % name
            self.mutates[name], self.retains[name] = set(), set()
        else:
            import copy
            f2 = copy.deepcopy(f)
            f2.body = normalise(f2.body)
            fn = PostTr(self, name, f2, names, defaults, {})
            body = fn.function_body()
            AliasCheck(self, name, f2, names[1:]).run()
        self.in_progress.discard(name)
        self.params[name] = (names[1:], defaults, {})
        sig = " ".join(["(orc : string -> pyval -> res pyval)"] + ["(%s : pyval)" % self.var(p) for p in names[1:]])
        text = "(* %s.%s, %s:%d *)\nDefinition %s %s : res pyval :=\n%s.\n" % (
            self.cls, name, os.path.basename(self.path), f.lineno, self.gname(name), sig, textwrap.indent(body, "  "))
        self.done[name] = text
        self.order.append(name)


class Ctx2(D.Ctx):
    def __init__(self, ret, cont=None, tctx=None):
        super().__init__(ret)
        self.cont = cont          # () -> term, for `continue`
        self.tctx = tctx          # (caught-list term, handler-call term generator) inside a try body


class PostTr(D.FuncTr):
    ctor_mode = False

    # ------------------------------------------------------------ statements
    def function_body(self):
        body = list(self.f.body)
        if body and isinstance(body[0], ast.Expr) and isinstance(body[0].value, ast.Constant) and isinstance(body[0].value.value, str):
            body = body[1:]
        for node in ast.walk(self.f):
            if isinstance(node, (ast.Yield, ast.YieldFrom, ast.Await, ast.Global, ast.Nonlocal, ast.Lambda, ast.NamedExpr)):
                raise Unsupported("%s in %s (%s)" % (type(node).__name__, self.name, loc(node)))
        env = set(self.names[1:])
        return self.block(body, env, Ctx2(lambda r: r), lambda env2: "(Ok PNone)")

    def bindk(self, ctx, e_term, var, nxt):
        t = getattr(ctx, "tctx", None)
        if t is None:
            return "(bind %s (fun %s =>\n%s))" % (e_term, var, nxt)
        return "(try_bind %s %s (fun _ => %s) (fun %s =>\n%s))" % (e_term, t[0], t[1](), var, nxt)

    def block(self, stmts, env, ctx, kont):
        if not stmts:
            return kont(env)
        st, rest = stmts[0], stmts[1:]
        if isinstance(st, ast.Continue):
            if getattr(ctx, "cont", None) is None:
                raise Unsupported("continue outside a translated loop (%s)" % loc(st))
            return ctx.cont()
        if isinstance(st, ast.Raise):
            if getattr(ctx, "tctx", None) is not None:
                raise Unsupported("raise inside a try body (%s)" % loc(st))
            return ctx.ret("(Raise %s)" % self.raised_class(st))
        if isinstance(st, ast.Return) and getattr(ctx, "tctx", None) is not None:
            e = self.const(None) if st.value is None else self.expr(st.value, env)
            if e.pure:
                return ctx.ret(e.res())
            v = self.u.tmp("rv")
            return self.bindk(ctx, e.term, v, ctx.ret("(Ok %s)" % v))
        if isinstance(st, ast.Assign):
            return self.assign2(st, env, ctx, lambda env2: self.block(rest, env2, ctx, kont))
        if isinstance(st, ast.Try):
            return self.try_stmt(st, rest, env, ctx, kont)
        if isinstance(st, ast.For) and getattr(ctx, "tctx", None) is not None:
            raise Unsupported("loop inside a try body (%s)" % loc(st))
        return super().block(stmts, env, ctx, kont)

    def raised_class(self, st):
        exc = st.exc
        if exc is None:
            raise Unsupported("bare raise (%s)" % loc(st))
        if isinstance(exc, ast.Call):
            for a in list(exc.args) + [k.value for k in exc.keywords]:
                self.harmless_message(a)
            exc = exc.func
        if isinstance(exc, ast.Name) and exc.id in EXN_NAMES and exc.id != "ParseException":
            self.u.check_global_name(exc.id, self.f, builtin=True)
            return EXN_NAMES[exc.id]
        raise Unsupported("raise of %s (%s)" % (ast.dump(exc)[:60], loc(st)))

    def harmless_message(self, a):
        """an exception message whose evaluation cannot fail: literals, variables, "...".format(variables)"""
        if isinstance(a, ast.Constant) or isinstance(a, ast.Name):
            return
        if isinstance(a, ast.Call) and isinstance(a.func, ast.Attribute) and a.func.attr == "format" \
                and isinstance(a.func.value, ast.Constant) and isinstance(a.func.value.value, str) \
                and all(isinstance(x, (ast.Name, ast.Constant)) for x in a.args) and not a.keywords:
            return
        raise Unsupported("exception message is not a plain format of variables (%s)" % loc(a))

    def assign2(self, st, env, ctx, nxt):
        for t in st.targets:
            if not isinstance(t, ast.Name):
                raise Unsupported("assignment target %s (%s)" % (type(t).__name__, loc(st)))
            if t.id == "self":
                raise Unsupported("assignment to self (%s)" % loc(st))
        names = [t.id for t in st.targets]
        e = self.expr(st.value, env)
        env2 = set(env) | set(names)
        if e.pure:
            out = "".join("let %s := %s in\n" % (self.u.var(n), e.term) for n in names)
            return "(" + out + nxt(env2) + ")"
        first = self.u.var(names[0])
        inner = "".join("let %s := %s in\n" % (self.u.var(n), first) for n in names[1:]) + nxt(env2)
        return self.bindk(ctx, e.term, first, inner)

    def if_stmt(self, st, rest, env, ctx, kont):
        c = self.expr(st.test, env)
        fa, fb = not D.always_returns(st.body), not D.always_returns(st.orelse)
        if rest and not (fa or fb):
            raise Unsupported("unreachable statements after if (%s)" % loc(st))

        def wrap(a_term, b_term):
            body = lambda t: "(if py_truth %s then\n%s\nelse\n%s)" % (t, textwrap.indent(a_term, "  "), textwrap.indent(b_term, "  "))
            if c.pure:
                return body(c.term)
            t = self.u.tmp()
            return self.bindk(ctx, c.term, t, body(t))

        if rest and fa and fb:
            da = D.definitely_assigned(st.body)
            db = D.definitely_assigned(st.orelse)
            cand = [x for x in D.assigned_vars(st.body + st.orelse)]
            joined = [x for x in cand if x in env or (x in da and x in db)]
            env_after = (set(env) | set(joined)) - set(x for x in cand if x not in joined)
            k = self.u.tmp("k")
            args = " ".join(self.u.var(x) for x in joined) if joined else "tt"
            params = " ".join("(%s : pyval)" % self.u.var(x) for x in joined) if joined else "(_ : unit)"
            rest_term = self.block(rest, env_after, ctx, kont)
            call = lambda env2: "(%s %s)" % (k, args)
            a = self.block(st.body, set(env), ctx, call)
            b = self.block(st.orelse, set(env), ctx, call)
            return "(let %s := fun %s =>\n%s in\n%s)" % (k, params, textwrap.indent(rest_term, "  "), wrap(a, b))
        follow = lambda env2: self.block(rest, env2, ctx, kont)

        def branch(stmts):
            dropped = [x for x in D.assigned_vars(stmts) if x not in env and x not in D.definitely_assigned(stmts)]
            return self.block(stmts, set(env), ctx, lambda env2: follow(set(env2) - set(dropped)))
        return wrap(branch(st.body), branch(st.orelse))

    def for_stmt(self, st, rest, env, ctx, kont):
        if st.orelse:
            raise Unsupported("for ... else (%s)" % loc(st))
        for node in ast.walk(st):
            if isinstance(node, ast.Break):
                raise Unsupported("break (%s)" % loc(node))
        it = st.iter
        kind = "iter"
        if isinstance(it, ast.Call) and isinstance(it.func, ast.Name) and it.func.id in ("enumerate", "range"):
            self.u.check_global_name(it.func.id, self.f, builtin=True)
            if it.keywords:
                raise Unsupported("%s with keywords (%s)" % (it.func.id, loc(st)))
            kind = it.func.id
            if kind == "enumerate":
                if len(it.args) != 1:
                    raise Unsupported("enumerate with a start value (%s)" % loc(st))
                src = self.expr(it.args[0], env)
            else:
                if len(it.args) not in (1, 2):
                    raise Unsupported("range with a step (%s)" % loc(st))
                parts = [self.expr(x, env) for x in it.args]
                if len(parts) == 1:
                    parts = [pure("(PInt 0%Z)")] + parts
                src = self.u.seq_many(parts, lambda ts: mon("(py_range %s %s)" % (ts[0], ts[1])))
        else:
            src = self.expr(it, env)
        if isinstance(st.target, ast.Name):
            targets = [st.target.id]
        elif isinstance(st.target, ast.Tuple) and len(st.target.elts) == 2 and all(isinstance(e, ast.Name) for e in st.target.elts):
            targets = [e.id for e in st.target.elts]
        else:
            raise Unsupported("loop target (%s)" % loc(st))
        for t in targets:
            if t in env or t == "self":
                raise Unsupported("loop variable %s shadows a variable (%s)" % (t, loc(st)))
        assigned = D.assigned_vars(st.body)
        state = [x for x in assigned if x in env]
        tup, ty = self.state_tuple(state)
        item = self.u.tmp("it")
        stv = self.u.tmp("st")
        inner_ctx = Ctx2(lambda r: "(bind %s (fun rv => Ok (Return rv)))" % r, cont=lambda: "(Ok (Next %s))" % tup)
        body_env = set(env) | set(targets)
        body = self.block(st.body, body_env, inner_ctx, lambda env2: "(Ok (Next %s))" % tup)
        if len(targets) == 1:
            unpack = "let %s := %s in\n" % (self.u.var(targets[0]), item)
            close = ""
        else:
            unpack = "bind (py_unpack2 %s) (fun ab => let '(%s, %s) := ab in\n" % (item, self.u.var(targets[0]), self.u.var(targets[1]))
            close = ")"
        destruct = "let '%s := %s in\n" % (tup, stv) if len(state) > 1 else ("let %s := %s in\n" % (tup, stv) if state else "")
        fun = "(fun (%s : pyval) (%s : %s) =>\n%s%s%s%s)" % (item, stv, ty, destruct, unpack, textwrap.indent(body, "  "), close)
        after = self.block(rest, set(env), ctx, kont)
        res_v = self.u.tmp("c")
        st2 = self.u.tmp("st")
        destruct2 = "let '%s := %s in\n" % (tup, st2) if len(state) > 1 else ("let %s := %s in\n" % (tup, st2) if state else "")
        loop = ("(bind (py_for @ITEMS@ %s %s) (fun %s =>\n  match %s with\n  | Return rv => %s\n  | Next %s =>\n%s%s\n  end))"
                % (fun, tup, res_v, res_v, ctx.ret("(Ok rv)"), st2, textwrap.indent(destruct2, "    "), textwrap.indent(after, "    ")))

        def with_items(t):
            items = self.u.tmp("items")
            get = "(bind (py_enumerate %s) py_iter)" % t if kind == "enumerate" else "(py_iter %s)" % t
            return mon("(bind %s (fun %s =>\n%s))" % (get, items, loop.replace("@ITEMS@", items)))
        if getattr(ctx, "tctx", None) is not None:
            raise Unsupported("loop inside a try body (%s)" % loc(st))
        return self.u.seq(src, with_items).term

    def try_stmt(self, st, rest, env, ctx, kont):
        if getattr(ctx, "tctx", None) is not None:
            raise Unsupported("nested try (%s)" % loc(st))
        if st.orelse or st.finalbody or len(st.handlers) != 1:
            raise Unsupported("try with else/finally or several handlers (%s)" % loc(st))
        h = st.handlers[0]
        if h.type is None:
            raise Unsupported("bare except (%s)" % loc(st))
        classes = []
        for t in (h.type.elts if isinstance(h.type, ast.Tuple) else [h.type]):
            if isinstance(t, ast.Attribute) and isinstance(t.value, ast.Name) and t.value.id == "pp" and t.attr == "ParseException" \
                    and "pyparsing" in self.u.imported_as.get("pp", ""):
                classes.append("ParseException")
            elif isinstance(t, ast.Name) and t.id in EXN_NAMES and t.id != "ParseException":
                self.u.check_global_name(t.id, self.f, builtin=True)
                classes.append(EXN_NAMES[t.id])
            else:
                raise Unsupported("except clause %s (%s)" % (ast.dump(t)[:60], loc(st)))
        for node in st.body:
            for n in ast.walk(node):
                if isinstance(n, (ast.For, ast.While, ast.Try, ast.Raise, ast.With)):
                    raise Unsupported("%s inside a try body (%s)" % (type(n).__name__, loc(n)))
        if h.name is not None:
            # `as e`: usable only in `raise ... from e`
            for n in ast.walk(ast.Module(body=h.body, type_ignores=[])):
                if isinstance(n, ast.Name) and n.id == h.name:
                    par_ok = any(isinstance(r, ast.Raise) and r.cause is n for r in ast.walk(ast.Module(body=h.body, type_ignores=[])))
                    if not par_ok:
                        raise Unsupported("the caught exception object is used as a value (%s)" % loc(n))
        body_assigned = [x for x in D.assigned_vars(st.body) if x in env]
        hand_assigned = [x for x in D.assigned_vars(h.body) if x in env]
        joined = list(dict.fromkeys(body_assigned + hand_assigned))
        k = self.u.tmp("k")
        hn = self.u.tmp("h")
        kargs = " ".join(self.u.var(x) for x in joined) if joined else "tt"
        kparams = " ".join("(%s : pyval)" % self.u.var(x) for x in joined) if joined else "(_ : unit)"
        hargs = " ".join(self.u.var(x) for x in body_assigned) if body_assigned else "tt"
        hparams = " ".join("(%s : pyval)" % self.u.var(x) for x in body_assigned) if body_assigned else "(_ : unit)"
        new_in_try = set(D.assigned_vars(st.body + h.body)) - set(env)
        rest_term = self.block(rest, set(env) - new_in_try, ctx, kont)
        callk = lambda env2: "(%s %s)" % (k, kargs)
        hand_term = self.block(h.body, set(env), ctx, callk)
        tctx = ("[%s]" % "; ".join(classes), lambda: "(%s %s)" % (hn, hargs))
        body_ctx = Ctx2(ctx.ret, cont=getattr(ctx, "cont", None), tctx=tctx)
        body_term = self.block(st.body, set(env), body_ctx, callk)
        return "(let %s := fun %s =>\n%s in\nlet %s := fun %s =>\n%s in\n%s)" % (
            k, kparams, textwrap.indent(rest_term, "  "), hn, hparams, textwrap.indent(hand_term, "  "), body_term)

    # ------------------------------------------------------------ expressions
    def const_key(self, e):
        """a subscript / membership key known at translation time: a str literal or self.<class constant str>"""
        if isinstance(e, ast.Constant) and isinstance(e.value, str):
            return e.value
        if isinstance(e, ast.Attribute) and isinstance(e.value, ast.Name) and e.value.id == "self":
            v = self.u.const_attr(e.attr, e)
            if isinstance(v, str):
                return v
        return None

    def expr(self, e, env):
        u = self.u
        kind = getattr(e, "_pseudo", None)
        if kind is not None:
            return self.pseudo_expr(kind, e, env)
        if isinstance(e, ast.Name) and e.id == "self":
            raise Unsupported("self used as a value (%s)" % loc(e))
        if isinstance(e, ast.Attribute):
            if isinstance(e.value, ast.Name) and e.value.id == "self":
                if self.ctor_mode:
                    raise Unsupported("__init__ reads self.%s (%s)" % (e.attr, loc(e)))
                v = u.const_attr(e.attr, e)
                if v is None and e.attr not in u.class_consts:
                    raise Unsupported("self.%s is not a class-level constant (instance state is not modelled) (%s)" % (e.attr, loc(e)))
                return u.const(v, e)
            fld = u.classes.field_read(e.attr, e)
            u.attrs_read.add(e.attr)
            return u.seq(self.expr(e.value, env), lambda t: mon("(py_getattr %s %s)" % (t, cstr(fld))))
        if isinstance(e, ast.Subscript):
            if isinstance(e.slice, ast.Slice):
                raise Unsupported("slice (%s)" % loc(e))
            key = self.const_key(e.slice)
            if key is not None:
                return u.seq(self.expr(e.value, env), lambda t: mon("(py_getitem_lit %s %s)" % (t, cstr(key))))
            a, b = self.expr(e.value, env), self.expr(e.slice, env)
            return u.seq_many([a, b], lambda ts: mon("(py_getitem %s %s)" % (ts[0], ts[1])))
        if isinstance(e, ast.Compare) and len(e.ops) == 1 and isinstance(e.ops[0], (ast.In, ast.NotIn)) \
                and self.const_key(e.left) is not None:
            op = "py_in_lit" if isinstance(e.ops[0], ast.In) else "py_notin_lit"
            key = self.const_key(e.left)
            return u.seq(self.expr(e.comparators[0], env), lambda t: mon("(%s %s %s)" % (op, cstr(key), t)))
        if isinstance(e, ast.Compare) and len(e.ops) == 1 and isinstance(e.ops[0], (ast.Eq, ast.NotEq, ast.In, ast.NotIn)):
            a, b = self.expr(e.left, env), self.expr(e.comparators[0], env)
            op = {ast.Eq: "py_eq_v", ast.NotEq: "py_ne_v", ast.In: "py_in_v", ast.NotIn: "py_notin_v"}[type(e.ops[0])]
            return u.seq_many([a, b], lambda ts: mon("(%s %s %s)" % (op, ts[0], ts[1])))
        if isinstance(e, ast.BinOp) and isinstance(e.op, (ast.Pow, ast.LShift, ast.Mult)):
            a, b = self.expr(e.left, env), self.expr(e.right, env)
            op = {ast.Pow: "py_pow", ast.LShift: "py_lshift", ast.Mult: "py_mul"}[type(e.op)]
            return u.seq_many([a, b], lambda ts: mon("(%s %s %s)" % (op, ts[0], ts[1])))
        if isinstance(e, ast.Dict):
            if any(k is None for k in e.keys):
                raise Unsupported("** in a dict literal (%s)" % loc(e))
            keys = [self.const_key(k) for k in e.keys]
            vals = [self.expr(v, env) for v in e.values]
            if all(k is not None for k in keys) and len(set(keys)) == len(keys):
                return u.seq_many(vals, lambda ts: pure("(PDict [%s])" % "; ".join("(%s, %s)" % (cstr(k), t) for k, t in zip(keys, ts))))
            kes = [self.expr(k, env) for k in e.keys]
            # Python evaluates key1, value1, key2, value2 ...
            inter = [x for pair in zip(kes, vals) for x in pair]

            def build(ts):
                term = "(Ok (PDict []))"
                for i in range(0, len(ts), 2):
                    term = "(bind %s (fun d => py_setitem d %s %s))" % (term, ts[i], ts[i + 1])
                return mon(term)
            return u.seq_many(inter, build)
        if isinstance(e, ast.Constant) and isinstance(e.value, float):
            raise Unsupported("float literal (%s)" % loc(e))
        return super().expr(e, env)

    def pseudo_expr(self, kind, e, env):
        u = self.u
        g = "_g" if getattr(e, "_guard", False) else ""
        x = self.expr(e.args[0], env)
        if kind == "setitem":
            key = self.const_key(e.args[1])
            v = self.expr(e.args[2], env)
            if key is not None:
                return u.seq_many([x, v], lambda ts: mon("(py_setitem_lit%s %s %s %s)" % (g, ts[0], cstr(key), ts[1])))
            k = self.expr(e.args[1], env)
            # Python evaluates the value, then the container, then the key
            return u.seq_many([v, x, k], lambda ts: mon("(py_setitem%s %s %s %s)" % (g, ts[1], ts[2], ts[0])))
        if kind == "setattr":
            fld = u.classes.field_write(e._extra["attr"], e)
            v = self.expr(e.args[1], env)
            return u.seq_many([v, x], lambda ts: mon("(py_setattr%s %s %s %s)" % (g, ts[1], cstr(fld), ts[0])))
        if kind in ("append", "extend"):
            v = self.expr(e.args[1], env)
            return u.seq_many([x, v], lambda ts: mon("(py_%s%s %s %s)" % (kind, g, ts[0], ts[1])))
        raise Unsupported("internal: pseudo %s" % kind)

    def call(self, e, env):
        u = self.u
        f = e.func
        if any(isinstance(a, ast.Starred) for a in e.args) or any(k.arg is None for k in e.keywords):
            raise Unsupported("* / ** in a call (%s)" % loc(e))
        # the grammar stage: self.<elem>.parseString(x, parseAll=True).asDict()
        if isinstance(f, ast.Attribute) and f.attr == "asDict" and not e.args and not e.keywords and isinstance(f.value, ast.Call):
            inner = f.value
            fi = inner.func
            if isinstance(fi, ast.Attribute) and fi.attr in ("parseString", "parse_string") and isinstance(fi.value, ast.Attribute) \
                    and isinstance(fi.value.value, ast.Name) and fi.value.value.id == "self" and len(inner.args) == 1 \
                    and len(inner.keywords) == 1 and inner.keywords[0].arg in ("parseAll", "parse_all") \
                    and isinstance(inner.keywords[0].value, ast.Constant) and inner.keywords[0].value.value is True:
                elem = fi.value.attr
                if elem in u.methods or elem in u.class_consts:
                    raise Unsupported("self.%s is not a grammar element (%s)" % (elem, loc(e)))
                u.oracles.add(elem)
                return u.seq(self.expr(inner.args[0], env), lambda t: mon("(orc %s %s)" % (cstr(elem), t)))
            raise Unsupported("asDict() outside the pattern self.<elem>.parseString(x, parseAll=True).asDict() (%s)" % loc(e))
        if isinstance(f, ast.Name):
            if f.id in ("int", "str", "float"):
                u.check_global_name(f.id, self.f, builtin=True)
                if e.keywords:
                    raise Unsupported("%s with keywords (%s)" % (f.id, loc(e)))
                if f.id == "int" and len(e.args) == 2 and isinstance(e.args[1], ast.Constant) and e.args[1].value in (0, 10) \
                        and not isinstance(e.args[1].value, bool):
                    b0 = "true" if e.args[1].value == 0 else "false"
                    return u.seq(self.expr(e.args[0], env), lambda t: mon("(py_int %s %s)" % (b0, t)))
                if len(e.args) != 1:
                    raise Unsupported("%s arity / base (%s)" % (f.id, loc(e)))
                if f.id == "int":
                    return u.seq(self.expr(e.args[0], env), lambda t: mon("(py_int false %s)" % t))
                if f.id == "str":
                    return u.seq(self.expr(e.args[0], env), lambda t: mon("(py_str %s)" % t))
                return u.seq(self.expr(e.args[0], env), lambda t: mon("(Raise Unmodelled)"))
            if f.id == "deepcopy":
                u.check_global_name("deepcopy", self.f)
                if u.imported_from.get("deepcopy") != "copy" or len(e.args) != 1 or e.keywords:
                    raise Unsupported("deepcopy is not copy.deepcopy(x) (%s)" % loc(e))
                return u.seq(self.expr(e.args[0], env), lambda t: mon("(py_deepcopy %s)" % t))
            if f.id in u.index.classes and f.id not in D.BUILTIN_CLASSES and f.id not in ("isinstance", "len"):
                return self.ctor_call(f.id, e, env)
            return super().call(e, env)
        if isinstance(f, ast.Attribute):
            if isinstance(f.value, ast.Name) and f.value.id == "self":
                if f.attr in u.opaque:
                    u.add_wanted(f.attr)
                return self.method_call(u, f.attr, e, env, "orc")
            if f.attr == "join":
                if len(e.args) != 1 or e.keywords:
                    raise Unsupported(".join arity (%s)" % loc(e))
                return u.seq_many([self.expr(f.value, env), self.expr(e.args[0], env)], lambda ts: mon("(py_join %s %s)" % (ts[0], ts[1])))
            if f.attr == "split":
                if len(e.args) != 1 or e.keywords:
                    raise Unsupported(".split needs exactly the separator (%s)" % loc(e))
                return u.seq_many([self.expr(f.value, env), self.expr(e.args[0], env)], lambda ts: mon("(py_split %s %s)" % (ts[0], ts[1])))
            if f.attr == "strip":
                if e.args or e.keywords:
                    raise Unsupported(".strip with arguments (%s)" % loc(e))
                return u.seq(self.expr(f.value, env), lambda t: mon("(py_strip_m %s)" % t))
            if f.attr == "get" and len(e.args) == 2 and not e.keywords and self.const_key(e.args[0]) is not None:
                key = self.const_key(e.args[0])
                return u.seq_many([self.expr(f.value, env), self.expr(e.args[1], env)],
                                  lambda ts: mon("(py_dict_get_lit %s %s %s)" % (ts[0], cstr(key), ts[1])))
            if f.attr in ("append", "extend"):
                raise Unsupported(".%s as an expression / on something else than a variable (%s)" % (f.attr, loc(e)))
        return super().call(e, env)

    def ctor_call(self, cname, e, env):
        u = self.u
        u.check_global_name(cname, self.f)
        u.classes.ensure(cname, u)
        u.classes.used.add(cname)
        params, defaults = u.classes.params[cname]
        if len(e.args) > len(params):
            raise Unsupported("too many arguments for %s (%s)" % (cname, loc(e)))
        given = dict(zip(params, e.args))
        for kw in e.keywords:
            if kw.arg not in params or kw.arg in given:
                raise Unsupported("keyword %s of %s (%s)" % (kw.arg, cname, loc(e)))
            given[kw.arg] = kw.value
        order = list(e.args) + [kw.value for kw in e.keywords]
        evald = [self.expr(a, env) for a in order]

        def fin(ts):
            m = {id(a): t for a, t in zip(order, ts)}
            terms = []
            pre = []
            for p in params:
                if p in given:
                    terms.append(m[id(given[p])])
                elif p in defaults:
                    d = self.expr(defaults[p], set())
                    if not d.pure:
                        raise Unsupported("default of %s.%s is not a literal (%s)" % (cname, p, loc(e)))
                    terms.append(d.term)
                else:
                    raise Unsupported("missing argument %s of %s (%s)" % (p, cname, loc(e)))
            return mon("(new_%s %s)" % (cname, " ".join(terms) if terms else "tt"))
        return u.seq_many(evald, fin)


# ------------------------------------------------------------------ ALIASING discipline (see the module docstring)
def pos(n):
    return (getattr(n, "lineno", 0), getattr(n, "col_offset", 0))


def endpos(n):
    return (getattr(n, "end_lineno", getattr(n, "lineno", 0)), getattr(n, "end_col_offset", getattr(n, "col_offset", 0)))


class AliasCheck:
    def __init__(self, unit, name, f, params):
        self.u, self.name, self.f, self.params = unit, name, f, list(params)
        self.parent = {}
        for n in ast.walk(f):
            for c in ast.iter_child_nodes(n):
                self.parent[id(c)] = n
        self.status = {p: ("param", p) for p in params}
        self.escaped = set()
        self.taints = []             # (P, f or None, k)
        self.bound_from = {}         # var -> list of binding assignments
        self.mutated_params = set()
        self.retained = set()

    def bad(self, msg, node):
        raise Unsupported("%s: aliasing discipline: %s (%s)" % (self.name, msg, loc(node)))

    # -------------------------------------------------------------- helpers
    def lit(self, e):
        if isinstance(e, ast.Constant) and isinstance(e.value, str):
            return e.value
        if isinstance(e, ast.Attribute) and isinstance(e.value, ast.Name) and e.value.id == "self":
            v = self.u.class_consts.get(e.attr)
            return v if isinstance(v, str) else None
        return None

    def sub_of_param(self, e):
        """(P, key) when e is P["key"] or P.get("key", d) with P a parameter"""
        if isinstance(e, ast.Subscript) and isinstance(e.value, ast.Name) and e.value.id in self.params and self.lit(e.slice) is not None:
            return e.value.id, self.lit(e.slice)
        if isinstance(e, ast.Call) and isinstance(e.func, ast.Attribute) and e.func.attr == "get" and isinstance(e.func.value, ast.Name) \
                and e.func.value.id in self.params and len(e.args) == 2 and self.lit(e.args[0]) is not None:
            return e.func.value.id, self.lit(e.args[0])
        return None

    def is_oracle(self, e):
        return isinstance(e, ast.Call) and isinstance(e.func, ast.Attribute) and e.func.attr == "asDict"

    def classify(self, e):
        if isinstance(e, (ast.List, ast.Dict, ast.Tuple)):
            return ("fresh",)
        if isinstance(e, ast.Call):
            if isinstance(e.func, ast.Name) and (e.func.id in self.u.index.classes or e.func.id == "deepcopy"):
                return ("fresh",)
            if self.is_oracle(e):
                return ("fresh",)
            if isinstance(e.func, ast.Name) and e.func.id in ("int", "str", "len", "isinstance", "float"):
                return ("immutable",)
        if isinstance(e, ast.Constant) or isinstance(e, (ast.Compare, ast.BoolOp, ast.UnaryOp, ast.BinOp)):
            return ("immutable",)
        sp = self.sub_of_param(e)
        if sp is not None:
            return ("sub", sp[0], sp[1])
        if isinstance(e, ast.Name):
            return ("alias", e.id)
        return ("other",)

    def names_in(self, e):
        return [n.id for n in ast.walk(e) if isinstance(n, ast.Name) and isinstance(n.ctx, ast.Load)]

    def escapes_of(self, e, top=True):
        """variables whose value may be kept by the value of e (stored in a literal / object, or returned by a call)"""
        out = set()
        if isinstance(e, ast.Name):
            return {e.id}
        if isinstance(e, (ast.List, ast.Tuple)):
            for x in e.elts:
                out |= self.escapes_of(x)
        elif isinstance(e, ast.Dict):
            for x in e.values:
                out |= self.escapes_of(x)
        elif isinstance(e, ast.IfExp):
            out |= self.escapes_of(e.body) | self.escapes_of(e.orelse)
        elif isinstance(e, ast.BoolOp):
            for x in e.values:
                out |= self.escapes_of(x)
        elif isinstance(e, ast.Call):
            kind = getattr(e, "_pseudo", None)
            if kind is not None:
                for x in e.args[1:]:
                    out |= self.escapes_of(x)
            elif isinstance(e.func, ast.Name) and e.func.id in self.u.index.classes:
                for x in list(e.args) + [k.value for k in e.keywords]:
                    out |= self.escapes_of(x)
            elif isinstance(e.func, ast.Attribute) and isinstance(e.func.value, ast.Name) and e.func.value.id == "self" \
                    and e.func.attr in self.u.params:
                m = e.func.attr
                pnames = self.u.params[m][0]
                given = dict(zip(pnames, e.args))
                for kw in e.keywords:
                    given[kw.arg] = kw.value
                for p, a in given.items():
                    if p in self.u.retains.get(m, set(pnames)):
                        out |= self.escapes_of(a)
            elif isinstance(e.func, ast.Name) and e.func.id in ("int", "str", "len", "isinstance", "float", "deepcopy"):
                pass
            elif self.is_oracle(e):
                pass
            elif isinstance(e.func, ast.Attribute) and e.func.attr in ("lower", "upper", "join", "split", "strip", "format"):
                pass
            elif isinstance(e.func, ast.Attribute) and e.func.attr == "get":
                out |= self.escapes_of(e.func.value) | self.escapes_of(e.args[1]) if len(e.args) == 2 else set(self.names_in(e))
            else:
                out |= set(self.names_in(e))
        elif isinstance(e, (ast.Subscript, ast.Attribute)):
            out |= self.escapes_of(e.value)          # a part of a container keeps the container's parts alive
        return out

    # -------------------------------------------------------------- the walk
    def run(self):
        self.walk(self.f.body, in_loop=None)
        self.check_taints()
        self.u.mutates[self.name] = set(self.mutated_params)
        self.u.retains[self.name] = set(self.retained)

    def walk(self, stmts, in_loop):
        for st in stmts:
            if isinstance(st, ast.Assign):
                self.assign(st, in_loop)
            elif isinstance(st, ast.Return):
                if st.value is not None:
                    self.calls_in(st.value, st, in_loop, tail=True)
                    for v in self.escapes_of(st.value):
                        self.escaped.add(v)
                    if self.classify(st.value)[0] != "immutable":
                        self.retained |= set(self.params)          # conservative: a result may keep any argument alive
            elif isinstance(st, ast.If):
                self.calls_in(st.test, st, in_loop)
                self.walk(st.body, in_loop)
                self.walk(st.orelse, in_loop)
            elif isinstance(st, ast.For):
                self.calls_in(st.iter, st, in_loop)
                for t in ([st.target] if isinstance(st.target, ast.Name) else list(st.target.elts)):
                    self.status[t.id] = ("other",)
                    self.escaped.discard(t.id)
                self.walk(st.body, st)
                self.walk(st.body, st)          # second pass: what escaped at the end of an iteration is escaped at its start
            elif isinstance(st, ast.Try):
                self.walk(st.body, in_loop)
                for h in st.handlers:
                    self.walk(h.body, in_loop)
            elif isinstance(st, ast.Expr):
                self.calls_in(st.value, st, in_loop)
            elif isinstance(st, (ast.Pass, ast.Continue, ast.Raise)):
                pass
            else:
                self.bad("statement %s" % type(st).__name__, st)

    def assign(self, st, in_loop):
        upd = getattr(st, "_update", None)
        v = st.value
        if upd is not None:
            self.update(st, upd, v, in_loop)
            return
        self.calls_in(v, st, in_loop)
        cls = self.classify(v)
        for t in st.targets:
            x = t.id
            self.bound_from.setdefault(x, []).append(st)
            if cls[0] == "alias":
                y = cls[1]
                if y in self.mutated_params:
                    self.bad("copy of the mutated parameter %s" % y, st)
                self.escaped.add(y)
                self.escaped.add(x)
                self.status[x] = ("other",)
            else:
                self.status[x] = cls
                self.escaped.discard(x)
        for y in self.escapes_of(v) if not isinstance(v, ast.Name) else ():
            self.escaped.add(y)
        if len(st.targets) > 1:
            for t in st.targets:
                self.escaped.add(t.id)

    def update(self, st, x, v, in_loop):
        kind = v._pseudo
        stored = v.args[-1]
        self.calls_in(stored, st, in_loop)
        if kind == "setitem":
            self.calls_in(v.args[1], st, in_loop)
        # A4: may the stored value contain x?
        esc = self.escapes_of(stored)
        if x in esc:
            v._guard = True
            esc = esc - {x}
        for y in esc:
            self.escaped.add(y)
        stt = self.status.get(x, ("other",))
        if stt[0] == "fresh":
            if x in self.escaped:
                self.bad("%s is updated after it escaped" % x, st)
            return
        k = self.lit(v.args[1]) if kind == "setitem" else None
        if k is None:
            self.bad("update of %s, which is neither fresh nor a parameter's dictionary updated under a literal key" % x, st)
        if stt[0] == "param":
            self.taints.append((x, None, k, st))
            self.mutated_params.add(x)
            return
        if stt[0] == "sub":
            if len(self.bound_from.get(x, [])) != 1:
                self.bad("%s is bound more than once" % x, st)
            self.taints.append((stt[1], stt[2], k, st))
            self.mutated_params.add(stt[1])
            return
        self.bad("update of %s, whose value may be shared" % x, st)

    def calls_in(self, e, st, in_loop, tail=False):
        """A3 for every call of a mutating method inside e"""
        for c in ast.walk(e):
            if not (isinstance(c, ast.Call) and isinstance(c.func, ast.Attribute) and isinstance(c.func.value, ast.Name)
                    and c.func.value.id == "self" and c.func.attr in self.u.params):
                continue
            m = c.func.attr
            pnames = self.u.params[m][0]
            given = dict(zip(pnames, c.args))
            for kw in c.keywords:
                given[kw.arg] = kw.value
            for p in self.u.mutates.get(m, set()):
                a = given.get(p)
                if a is None:
                    continue
                if isinstance(a, ast.Call):
                    continue          # a call / oracle result nobody else names
                if isinstance(a, ast.Subscript) and isinstance(a.value, ast.Name) and self.lit(a.slice) is not None:
                    V, key = a.value.id, self.lit(a.slice)
                    self.no_later_use(V, key, c, st, in_loop, tail)
                    if V in self.params:
                        self.mutated_params.add(V)
                    elif self.status.get(V, ("other",))[0] != "fresh":
                        self.bad("%s[%r] is passed to the mutating method %s but %s is not a parameter or a fresh value" % (V, key, m, V), c)
                    continue
                self.bad("argument of the mutating method %s is not V[\"c\"] / a call result" % m, c)

    def no_later_use(self, V, key, call, st, in_loop, tail):
        if tail and in_loop is None:
            return
        scope = in_loop if in_loop is not None else self.f
        for n in ast.walk(scope):
            if not (isinstance(n, ast.Name) and n.id == V and isinstance(n.ctx, ast.Load)):
                continue
            if pos(call) <= pos(n) and endpos(n) <= endpos(call):
                continue          # inside the call itself
            if in_loop is None and endpos(n) <= pos(call):
                continue          # before the call
            par = self.parent.get(id(n))
            if isinstance(par, ast.Subscript) and par.value is n and self.lit(par.slice) is not None and self.lit(par.slice) != key:
                continue
            if isinstance(par, ast.Compare) and len(par.ops) == 1 and isinstance(par.ops[0], (ast.In, ast.NotIn)) \
                    and par.comparators[0] is n and self.lit(par.left) is not None:
                continue
            self.bad("%s is read again after %s[%r] was passed to a mutating method" % (V, V, key), n)

    def check_taints(self):
        for P, f, k, st in self.taints:
            for n in ast.walk(self.f):
                if not (isinstance(n, ast.Name) and n.id == P and isinstance(n.ctx, ast.Load)):
                    continue
                par = self.parent.get(id(n))
                if f is None:
                    # the parameter itself is updated functionally; only a copy to another name could observe the difference
                    if isinstance(par, ast.Assign) and par.value is n and getattr(par, "_update", None) is None:
                        self.bad("the mutated parameter %s is copied" % P, n)
                    continue
                # P as `"lit" in P`
                if isinstance(par, ast.Compare) and len(par.ops) == 1 and isinstance(par.ops[0], (ast.In, ast.NotIn)) \
                        and par.comparators[0] is n and self.lit(par.left) is not None:
                    continue
                sub = None
                if isinstance(par, ast.Subscript) and par.value is n and self.lit(par.slice) is not None:
                    sub, key = par, self.lit(par.slice)
                elif isinstance(par, ast.Attribute) and par.attr == "get" and par.value is n:
                    call = self.parent.get(id(par))
                    if isinstance(call, ast.Call) and len(call.args) == 2 and self.lit(call.args[0]) is not None:
                        sub, key = call, self.lit(call.args[0])
                if sub is None:
                    self.bad("parameter %s, a part of which is updated in place, is used as a whole value" % P, n)
                if key != f:
                    continue
                up = self.parent.get(id(sub))
                # the binding of the updated variable
                if isinstance(up, ast.Assign) and up.value is sub and getattr(up, "_update", None) is None:
                    continue
                if isinstance(up, ast.Subscript) and up.value is sub and self.lit(up.slice) is not None and self.lit(up.slice) != k:
                    continue
                if isinstance(up, ast.Compare) and len(up.ops) == 1 and isinstance(up.ops[0], (ast.In, ast.NotIn)) \
                        and up.comparators[0] is sub and self.lit(up.left) is not None and self.lit(up.left) != k:
                    continue
                self.bad("%s[%r] is read under the key %r that is updated through another name" % (P, f, k), n)


# ------------------------------------------------------------------ driver
HEADER = """(* GENERATED by tools/gen_parsepost.py (tools/py2coq_dyn.py) from
%s
   -- the post-processing stage behind the pyparsing grammar; do not edit *)
From Coq Require Import String Ascii List Bool ZArith NArith.
From OV Require Import Model.PyString Model.PyDyn Model.PyPost.
Import ListNotations.
Open Scope string_scope.

"""

A64_METHODS = ["process_identifier", "process_label", "process_condition", "process_sp_register", "process_register_operand",
               "process_directive_operand", "process_prefetch_operand", "ieee_to_float", "normalize_imd", "process_immediate",
               "process_memory_address", "process_register_list", "resolve_range_list", "process_operand", "parse_instruction",
               "parse_line", "parse_file"]
X86_METHODS = ["process_identifier", "process_label", "process_register", "process_directive", "process_immediate",
               "process_memory_address", "normalize_imd", "process_operand", "parse_instruction", "parse_line", "parse_file"]


def add_import_maps(unit):
    unit.imported_from = {}
    unit.imported_as = {}
    for node in unit.tree.body:
        if isinstance(node, ast.ImportFrom):
            for a in node.names:
                unit.imported_from[a.asname or a.name] = node.module
        elif isinstance(node, ast.Import):
            for a in node.names:
                unit.imported_as[a.asname or a.name] = a.name


def gen_unit(repo, relpath, cls, prefix, methods, opaque, index, classes):
    path = os.path.join(repo, relpath)
    u = PostUnit(path, cls, prefix, index, classes, opaque=opaque)
    add_import_maps(u)
    u.add_wanted = lambda m: None
    for m in methods:
        u.add(m)
    # a method inherited from the base class is translated from the base class's text
    body = u.render_defs()
    return u, body


def gen(repo, isa):
    index = D.ClassIndex(D.package_files(repo))
    classes = Classes(index, repo)
    if isa == "a64":
        u, body = gen_unit(repo, "osaca/parser/parser_AArch64.py", "ParserAArch64", "g_", A64_METHODS, {"ieee_to_float"}, index, classes)
    else:
        u, body = gen_unit(repo, "osaca/parser/parser_x86att.py", "ParserX86ATT", "x_", X86_METHODS, set(), index, classes)
    srcs = "     %s\n     %s" % (u.path, os.path.join(repo, "osaca/parser/base_parser.py"))
    consts = "".join("(* class constant %s = %r *)\n" % (k, v) for k, v in sorted(u.class_consts.items()) if isinstance(v, str))
    text = (HEADER % srcs + consts + "\n(* ---- constructors of the operand classes (their __init__) *)\n" + classes.render()
            + "\n(* ---- methods of %s *)\n" % u.cls + body)
    meta = {"methods": list(u.order), "oracles": sorted(u.oracles), "classes": list(classes.order),
            "mutates": {m: sorted(s) for m, s in u.mutates.items() if s}, "retains": {m: sorted(s) for m, s in u.retains.items() if s},
            "attrs_read": sorted(u.attrs_read)}
    return text, meta


def generate(repo, outdir, isa, name):
    os.makedirs(outdir, exist_ok=True)
    p = os.path.join(outdir, name)
    try:
        text, meta = gen(repo, isa)
    except (Unsupported, SyntaxError, OSError, KeyError, AttributeError, TypeError, IndexError) as e:
        if os.path.exists(p):
            os.remove(p)
        return False, "%s: %s" % (type(e).__name__, e), {}
    tmp = p + ".tmp%d" % os.getpid()
    with open(tmp, "w") as f:
        f.write(text)
    os.replace(tmp, p)
    return True, text, meta


if __name__ == "__main__":
    import sys
    repo = sys.argv[1] if len(sys.argv) > 1 else "/repo"
    out = sys.argv[2] if len(sys.argv) > 2 else "/tmp/po/gen"
    for isa, nm in (("a64", "PostA64Gen.v"), ("x86", "PostX86Gen.v")):
        ok, t, meta = generate(repo, out, isa, nm)
        print(isa, "ok" if ok else t)
        if ok:
            print(meta)
