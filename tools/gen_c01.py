"""Regenerate coq/Gen/PressureGen.v from the CURRENT source of

    MachineModel.average_port_pressure          (osaca/semantics/hw_model.py)
    ArchSemantics.get_throughput_sum            (osaca/semantics/arch_semantics.py)
    ArchSemantics._to_list, ArchSemantics._itemsetter

fail closed.  py2coq.FuncTr translates pure, expression-shaped functions; the functions above are
imperative (nested loops that mutate a list, try/except, a dict/list case split, a closure factory),
so this module adds an *imperative* layer on top of py2coq's expression translator:

  * every function is translated into the error monad `res` of Model/Pressure.v; an expression that
    can raise (list.index, a[i], d[k]) is hoisted, in evaluation order, into a monadic bind in front
    of the statement it occurs in (never across a short-circuit / comprehension / conditional);
  * `for <target> in <list>:` becomes `py_for` (a monadic left fold) whose state is the tuple of the
    variables the body assigns (they must exist before the loop); no break/continue/return inside;
  * `if` with following statements becomes a bind of the variables assigned in the branches;
    `if isinstance(x, dict|tuple)` on a sum-typed value becomes a `match` (the name is re-bound to the
    payload in each branch);
  * `try: ... except E1 ...: raise E2(...)` becomes `py_catch body E1 E2`;
  * `a[i] = v` / `a[i] += v` on a list with an index of type idx (result of list.index, enumerate,
    a *items parameter) becomes nth_res / set_nth (IndexError explicit);
  * `x / y` is only translated when y is *provably non-zero* (`len(L)` inside `for _ in L`, positive
    literals, sums/products of those): Python raises ZeroDivisionError where IEEE/Q do not;
  * a function that returns a locally defined closure (`_itemsetter`) is translated together with the
    call of the closure, `f(*items)(obj, *args)`: `return g` inlines g's body with g's parameters bound
    to the call's arguments (a fixed parameter taken from *args needs exactly one element: TypeError).

Anything else raises py2coq.Unsupported -> the caller records a broken obligation.

Data representation (shared with Model/Pressure.v, stated in notes/C01-gen.md): a port collection is a
list of port names (a Python str collection is its list of characters), a micro-op list is
`list (T * list string)`, the dict form of port_uops has the keys 0..n-1 in order (`UDict alts`),
numbers are the NumOps carrier (an int 1 and a float 1.0 are the same number), throughput None is a
non-zero number."""
import ast
import os
import textwrap

import py2coq
from py2coq import Unsupported

PRELUDE = r"""
(* ------------------------------------------------------------------ prelude: Python constructs *)
Definition err_eqb (a b : err) : bool :=
  match a, b with
  | EIndex, EIndex | EEmptyGetter, EEmptyGetter | EValue, EValue | EKey, EKey | EType, EType | EFuel, EFuel => true
  | _, _ => false
  end.
(* try: r  except <from>: raise <to> *)
Definition py_catch {A} (r : res A) (from to : err) : res A :=
  match r with Ok a => Ok a | Err e => if err_eqb e from then Err to else Err e end.
(* for x in l: s = f x s *)
Fixpoint py_for {A S} (l : list A) (s : S) (f : A -> S -> res S) : res S :=
  match l with [] => Ok s | x :: r => s' <- f x s ;; py_for r s' f end.
Definition py_len {A} (l : list A) : Z := Z.of_nat (List.length l).
(* l * n *)
Definition py_repeat {A} (l : list A) (n : Z) : list A := List.concat (repeat l (Z.to_nat n)).
(* l.index(x): ValueError when absent *)
Fixpoint py_index_from (l : list string) (x : string) (k : nat) : res nat :=
  match l with [] => Err EValue | y :: r => if String.eqb y x then Ok k else py_index_from r x (S k) end.
Definition py_index (l : list string) (x : string) : res nat := py_index_from l x 0.
(* d[k] for a dict whose keys are 0..len-1 in order: KeyError when absent *)
Definition py_dict_get {A} (d : list A) (k : Z) : res A :=
  if (k <? 0)%Z then Err EKey else match nth_error d (Z.to_nat k) with Some x => Ok x | None => Err EKey end.
(* a value that is either a scalar or a tuple (what operator.itemgetter returns) *)
Inductive pyitems (A : Type) := POne (x : A) | PTuple (l : list A).
Arguments POne {A}. Arguments PTuple {A}.
Definition py_zip {A B} (a : list A) (b : list B) : list (A * B) := combine a b.
Definition py_enumerate {A} (l : list A) : list (nat * A) := combine (seq 0 (List.length l)) l.
(* zip( *rows ): stops at the shortest row; no rows -> no columns *)
Fixpoint py_heads {A} (rows : list (list A)) : option (list A) :=
  match rows with
  | [] => Some []
  | [] :: _ => None
  | (x :: _) :: r => match py_heads r with Some hs => Some (x :: hs) | None => None end
  end.
Fixpoint py_zip_star_go {A} (fuel : nat) (rows : list (list A)) : list (list A) :=
  match fuel with
  | O => []
  | S n => match py_heads rows with None => [] | Some hs => hs :: py_zip_star_go n (map (@tl A) rows) end
  end.
Definition py_zip_star {A} (rows : list (list A)) : list (list A) :=
  match rows with [] => [] | r :: _ => py_zip_star_go (List.length r) rows end.
"""

HEADER = """(* GENERATED by tools/gen_c01.py from
     @SRC1@
     @SRC2@
   -- do not edit *)
From Coq Require Import ZArith List Bool String.
From OV Require Import Model.Num Model.Pressure.
Import ListNotations.
""" + PRELUDE + """
Section Gen.
Context {T : Type} (N : NumOps T).
"""
FOOTER = """
End Gen.
"""

EXC = {"ValueError": "EValue", "KeyError": "EKey", "IndexError": "EIndex", "TypeError": "EType"}

# sum types: python class -> (constructor, payload type); the first entry not named in an isinstance is the `else`
SUMS = {
    "uops": [("dict", "UDict", "dict[int,list[tuple[num,list[str]]]]"), ("list", "UList", "list[tuple[num,list[str]]]")],
    "items[num]": [("tuple", "PTuple", "list[num]"), (None, "POne", "num")],
}
# record fields: (type, python attribute) -> (projection, type)
FIELDS = {("instr", "port_pressure"): ("i_pp", "list[num]"), ("instr", "throughput"): ("i_tp", "num")}
# expressions on self that are parameters of the translated function
SELF = {"self._data['ports']": ("self_ports", "list[str]")}


def targs(t):
    """arguments of a type constructor application `name[a,b]` (top-level commas)."""
    inner = t[t.index("[") + 1:-1]
    out, depth, cur = [], 0, ""
    for ch in inner:
        if ch == "[":
            depth += 1
        elif ch == "]":
            depth -= 1
        if ch == "," and depth == 0:
            out.append(cur)
            cur = ""
        else:
            cur += ch
    out.append(cur)
    return out


class ImpUnit(py2coq.Unit):
    def ident(self, n):
        return "v_" + n          # no capture of prelude / Coq names (option, sum, ...)

    def coq_type(self, t):
        if t == "num":
            return "T"
        if t == "idx":
            return "nat"
        if t == "unit":
            return "unit"
        if t == "uops":
            return "(@uops T)"
        if t == "instr":
            return "(@instr T)"
        if t.startswith("list["):
            return "(list %s)" % self.coq_type(t[5:-1])
        if t.startswith("items["):
            return "(pyitems %s)" % self.coq_type(t[6:-1])
        if t.startswith("tuple["):
            return "(%s)%%type" % " * ".join(self.coq_type(a) for a in targs(t))
        if t.startswith("dict[int,"):
            return "(list %s)" % self.coq_type(targs(t)[1])
        return {"str": "string", "bool": "bool", "int": "Z"}[t]

    def float_const(self, v):
        if v == 0.0 and str(v) == "0.0":
            return "(n0 N)"      # the instance's zero (0.0; `-0.0` is USub applied to it)
        return py2coq.Unit.float_const(self, v)


def assigned(stmts):
    """names (re)bound by a statement list, in order of first occurrence (nested blocks included;
    bodies of nested function definitions excluded, the defined name included)."""
    out = []

    def add(n):
        if n not in out:
            out.append(n)

    def tgt(t):
        if isinstance(t, ast.Name):
            add(t.id)
        elif isinstance(t, ast.Subscript) and isinstance(t.value, ast.Name):
            add(t.value.id)
        elif isinstance(t, (ast.Tuple, ast.List)):
            for x in t.elts:
                tgt(x)
        else:
            raise Unsupported("assignment target at line %d" % t.lineno)

    def walk(ss):
        for s in ss:
            if isinstance(s, ast.Assign):
                for t in s.targets:
                    tgt(t)
            elif isinstance(s, (ast.AugAssign, ast.AnnAssign)):
                tgt(s.target)
            elif isinstance(s, ast.For):
                tgt(s.target)
                walk(s.body)
                walk(s.orelse)
            elif isinstance(s, (ast.If, ast.While)):
                walk(s.body)
                walk(s.orelse)
            elif isinstance(s, ast.Try):
                walk(s.body)
                for h in s.handlers:
                    if h.name:
                        add(h.name)
                    walk(h.body)
                walk(s.orelse)
                walk(s.finalbody)
            elif isinstance(s, ast.With):
                raise Unsupported("with statement at line %d" % s.lineno)
            elif isinstance(s, (ast.FunctionDef, ast.ClassDef)):
                add(s.name)
            elif isinstance(s, (ast.Global, ast.Nonlocal, ast.Delete, ast.Import, ast.ImportFrom)):
                raise Unsupported("statement %s at line %d" % (type(s).__name__, s.lineno))
            for n in ast.walk(s) if not isinstance(s, (ast.FunctionDef, ast.ClassDef)) else []:
                if isinstance(n, ast.NamedExpr):
                    raise Unsupported("walrus at line %d" % n.lineno)
    walk(stmts)
    return out


def contains(stmts, kinds):
    for s in stmts:
        for n in ast.walk(s):
            if isinstance(n, kinds):
                return n
    return None


class ImpTr(py2coq.FuncTr):
    """One function.  Expressions: py2coq.FuncTr plus the constructs below; raising sub-expressions are
    hoisted into self.pending.  Statements: self.stmts()."""

    def __init__(self, unit, fdef, sig):
        py2coq.FuncTr.__init__(self, unit, fdef, sig)
        self.pending = []            # [(temp, monadic text)] in evaluation order
        self.loop_iters = []         # names iterated by the enclosing for loops (their len() is >= 1)
        self.ntemp = 0
        self.extra_params = {}       # parameters standing for expressions on self
        self.closures = {}           # name -> FunctionDef (locally defined functions in scope)
        self.call = sig.get("call")  # how the returned closure is called: {"args": {name: type}, "star": (name, type)}
        # lists are VALUES in the translation: a store through one name must not be visible through another
        self.fresh = set()           # locals bound to a list object created by the function itself
        self.aliased = set()         # list-typed names that (may) share their object with another name / container
        self.mutated = set()         # names stored into with a[i] = v
        self.may_mutate = set()      # parameters of an inlined closure whose mutation IS the result

    # ----------------------------------------------------------------- helpers
    def temp(self):
        self.ntemp += 1
        return "t%d_" % self.ntemp

    def hoist(self, mtext):
        t = self.temp()
        self.pending.append((t, mtext))
        return t

    def take(self):
        p, self.pending = self.pending, []
        return "".join("%s <- %s ;;\n" % (t, m) for t, m in p)

    def pure(self, e, what):
        """translate e; it must not raise (used under short-circuit / comprehension / lambda contexts)."""
        n = len(self.pending)
        r = self.expr(e)
        if len(self.pending) != n:
            raise Unsupported("expression that can raise inside %s at line %d" % (what, e.lineno))
        return r

    # ----------------------------------------------------------------- expressions
    def e_Constant(self, e):
        if isinstance(e.value, float):
            return self.unit.float_const(e.value), "num"
        return py2coq.FuncTr.e_Constant(self, e)

    def e_Name(self, e):
        if e.id in self.closures:
            raise Unsupported("locally defined function %s used as a value at line %d" % (e.id, e.lineno))
        return py2coq.FuncTr.e_Name(self, e)

    def e_Attribute(self, e):
        key = ast.unparse(e)
        if key in SELF:
            raise Unsupported("unexpected attribute access %s" % key)
        v, t = self.expr(e.value)
        if (t, e.attr) in FIELDS:
            proj, ft = FIELDS[(t, e.attr)]
            return "(%s %s)" % (proj, v), ft
        raise Unsupported("attribute .%s on %s at line %d" % (e.attr, t, e.lineno))

    def e_Subscript(self, e):
        key = ast.unparse(e)
        if key in SELF:
            name, t = SELF[key]
            self.extra_params[name] = t
            return name, t
        if isinstance(e.slice, ast.Slice):
            raise Unsupported("slice at line %d" % e.lineno)
        v, t = self.expr(e.value)
        i, it = self.expr(e.slice)
        if t.startswith("dict[int,") and it == "int":
            return self.hoist("py_dict_get %s %s" % (v, i)), targs(t)[1]
        if t.startswith("list[") and it == "idx":
            return self.hoist("nth_res %s %s" % (v, i)), t[5:-1]
        if t.startswith("list[") and isinstance(e.slice, ast.Constant) and type(e.slice.value) is int and e.slice.value >= 0:
            return self.hoist("nth_res %s %d%%nat" % (v, e.slice.value)), t[5:-1]
        raise Unsupported("subscript %s[%s] at line %d" % (t, it, e.lineno))

    def nonneg(self, e):
        if isinstance(e, ast.Constant) and type(e.value) is int:
            return e.value >= 0
        if isinstance(e, ast.Call) and isinstance(e.func, ast.Name) and e.func.id == "len" and len(e.args) == 1 and not e.keywords:
            return True
        if isinstance(e, ast.BinOp) and isinstance(e.op, (ast.Add, ast.Mult)):
            return self.nonneg(e.left) and self.nonneg(e.right)
        if isinstance(e, ast.IfExp):
            return self.nonneg(e.body) and self.nonneg(e.orelse)
        return self.positive(e)

    def positive(self, e):
        """e is an int expression that is > 0 on every execution reaching it."""
        if isinstance(e, ast.Constant) and type(e.value) is int:
            return e.value > 0
        if isinstance(e, ast.Call) and isinstance(e.func, ast.Name) and e.func.id == "len" and len(e.args) == 1 \
                and not e.keywords and isinstance(e.args[0], ast.Name):
            return e.args[0].id in self.loop_iters
        if isinstance(e, ast.BinOp) and isinstance(e.op, ast.Add):
            return (self.positive(e.left) and self.nonneg(e.right)) or (self.nonneg(e.left) and self.positive(e.right))
        if isinstance(e, ast.BinOp) and isinstance(e.op, ast.Mult):
            return self.positive(e.left) and self.positive(e.right)
        if isinstance(e, ast.IfExp):
            return self.positive(e.body) and self.positive(e.orelse)
        return False

    def e_BinOp(self, e):
        if isinstance(e.op, ast.Mult):
            n = len(self.pending)
            lv, lt = self.expr(e.left)
            rv, rt = self.expr(e.right)
            if lt.startswith("list[") and rt == "int":
                return "(py_repeat %s %s)" % (lv, rv), lt
            if lt == "int" and rt.startswith("list["):
                return "(py_repeat %s %s)" % (rv, lv), rt
            if not (lt.startswith("list[") or rt.startswith("list[")):
                if {lt, rt} <= {"num", "int"} and (lt, rt) != ("int", "int"):
                    return "(nmul N %s %s)" % (self.as_num(lv, lt), self.as_num(rv, rt)), "num"
                if lt == rt == "int":
                    return "(%s * %s)%%Z" % (lv, rv), "int"
            raise Unsupported("binary op Mult on %s,%s at line %d" % (lt, rt, e.lineno))
        if isinstance(e.op, (ast.Div, ast.FloorDiv, ast.Mod)):
            if not isinstance(e.op, ast.Div):
                raise Unsupported("operator %s at line %d" % (type(e.op).__name__, e.lineno))
            lv, lt = self.expr(e.left)
            rv, rt = self.expr(e.right)
            if rt != "int" or not self.positive(e.right):
                raise Unsupported("division whose divisor is not provably non-zero (Python raises ZeroDivisionError) "
                                  "at line %d" % e.lineno)
            if lt not in ("num", "int"):
                raise Unsupported("division of %s at line %d" % (lt, e.lineno))
            return "(ndiv N %s (nofZ N %s))" % (self.as_num(lv, lt), rv), "num"
        return py2coq.FuncTr.e_BinOp(self, e)

    def e_BoolOp(self, e):
        parts = []
        for k, x in enumerate(e.values):
            v, t = self.expr(x) if k == 0 else self.pure(x, "and/or")
            parts.append(self.truth(v, t, x))
        op = "andb" if isinstance(e.op, ast.And) else "orb"
        out = parts[-1]
        for p in reversed(parts[:-1]):
            out = "(%s %s %s)" % (op, p, out)
        return out, "bool"

    def e_IfExp(self, e):
        c, ct = self.expr(e.test)
        a, at = self.pure(e.body, "a conditional expression")
        b, bt = self.pure(e.orelse, "a conditional expression")
        if at != bt:
            raise Unsupported("conditional expression branches %s/%s at line %d" % (at, bt, e.lineno))
        return "(if %s then %s else %s)" % (self.truth(c, ct, e), a, b), at

    def binder(self, target, elty):
        """Gallina pattern for a loop / comprehension target; extends self.env. Returns pattern text."""
        if isinstance(target, ast.Name):
            self.env[target.id] = elty
            return self.unit.ident(target.id)
        if isinstance(target, (ast.Tuple, ast.List)) and elty.startswith("tuple["):
            ts = targs(elty)
            if len(ts) != len(target.elts) or not all(isinstance(x, ast.Name) for x in target.elts):
                raise Unsupported("unpacking shape at line %d" % target.lineno)
            names = [x.id for x in target.elts]
            if len(set(names)) != len(names):
                raise Unsupported("repeated name in unpacking at line %d" % target.lineno)
            for n, t in zip(names, ts):
                self.env[n] = t
            return "'(" + ", ".join(self.unit.ident(n) for n in names) + ")"
        raise Unsupported("target of type %s at line %d" % (elty, target.lineno))

    def e_ListComp(self, e):
        if len(e.generators) != 1 or e.generators[0].is_async:
            raise Unsupported("list comprehension shape at line %d" % e.lineno)
        g = e.generators[0]
        it, itt = self.expr(g.iter)          # evaluated once, eagerly: may raise
        if not itt.startswith("list["):
            raise Unsupported("list comprehension over %s at line %d" % (itt, e.lineno))
        saved = dict(self.env)
        pat = self.binder(g.target, itt[5:-1])
        src = it
        for c in g.ifs:
            cv, ct = self.pure(c, "a comprehension")
            src = "(filter (fun %s => %s) %s)" % (pat, self.truth(cv, ct, c), src)
        body, bt = self.pure(e.elt, "a comprehension")
        self.env = saved
        return "(map (fun %s => %s) %s)" % (pat, body, src), "list[%s]" % bt

    def e_Call(self, e):
        f = e.func
        if isinstance(f, ast.Name) and f.id not in self.env and not e.keywords:
            a = e.args
            if f.id == "len" and len(a) == 1:
                v, t = self.expr(a[0])
                if t.startswith("list[") or t.startswith("dict["):
                    return "(py_len %s)" % v, "int"
                raise Unsupported("len(%s) at line %d" % (t, e.lineno))
            if f.id == "round":
                if len(a) == 2 and isinstance(a[1], ast.Constant) and type(a[1].value) is int and a[1].value == 2:
                    v, t = self.expr(a[0])
                    if t == "num":
                        return "(nround2 N %s)" % v, "num"
                    if t == "int":
                        return "(nround2 N (nofZ N %s))" % v, "num"
                raise Unsupported("round() other than round(<number>, 2) at line %d" % e.lineno)
            if f.id == "sum" and len(a) == 1:
                v, t = self.expr(a[0])
                if t == "list[num]":
                    return "(nsum N %s)" % v, "num"
                raise Unsupported("sum(%s) at line %d" % (t, e.lineno))
            if f.id == "zip":
                if len(a) == 1 and isinstance(a[0], ast.Starred):
                    v, t = self.expr(a[0].value)
                    if t.startswith("list[list["):
                        return "(py_zip_star %s)" % v, t      # columns; a column tuple is only iterated
                    raise Unsupported("zip(*%s) at line %d" % (t, e.lineno))
                if len(a) == 2 and not any(isinstance(x, ast.Starred) for x in a):
                    (v1, t1), (v2, t2) = self.expr(a[0]), self.expr(a[1])
                    if t1.startswith("list[") and t2.startswith("list["):
                        return "(py_zip %s %s)" % (v1, v2), "list[tuple[%s,%s]]" % (t1[5:-1], t2[5:-1])
                raise Unsupported("zip() shape at line %d" % e.lineno)
            if f.id == "enumerate" and len(a) == 1:
                v, t = self.expr(a[0])
                if t.startswith("list["):
                    return "(py_enumerate %s)" % v, "list[tuple[idx,%s]]" % t[5:-1]
                raise Unsupported("enumerate(%s) at line %d" % (t, e.lineno))
            if f.id == "list" and len(a) == 1:
                v, t = self.expr(a[0])
                if t.startswith("list["):
                    return v, t                                # lists are immutable values here: a copy is the value
                raise Unsupported("list(%s) at line %d" % (t, e.lineno))
            raise Unsupported("call of %s at line %d" % (f.id, e.lineno))
        if isinstance(f, ast.Attribute) and f.attr == "index" and len(e.args) == 1 and not e.keywords:
            v, t = self.expr(f.value)
            x, xt = self.expr(e.args[0])
            if t == "list[str]" and xt == "str":
                return self.hoist("py_index %s %s" % (v, x)), "idx"
            raise Unsupported("%s.index(%s) at line %d" % (t, xt, e.lineno))
        raise Unsupported("call %s at line %d" % (ast.unparse(f), e.lineno))

    def is_fresh(self, e):
        """e evaluates to a list object nothing else refers to"""
        if isinstance(e, (ast.List, ast.ListComp)):
            return True
        if isinstance(e, ast.BinOp) and isinstance(e.op, (ast.Mult, ast.Add)):
            return True
        if isinstance(e, ast.Call) and isinstance(e.func, ast.Name) and e.func.id in ("list", "sorted"):
            return True
        return False

    def e_List(self, e):
        for x in e.elts:
            if isinstance(x, ast.Name) and self.env.get(x.id, "").startswith(("list[", "dict[")):
                self.aliased.add(x.id)           # the element shares its object with the name
        if any(isinstance(x, ast.Starred) for x in e.elts):
            raise Unsupported("starred list element at line %d" % e.lineno)
        if not e.elts:
            raise Unsupported("empty list literal (element type unknown) at line %d" % e.lineno)
        return py2coq.FuncTr.e_List(self, e)

    # ----------------------------------------------------------------- statements
    def tuple_of(self, names):
        if not names:
            return "tt"
        if len(names) == 1:
            return self.unit.ident(names[0])
        return "(" + ", ".join(self.unit.ident(n) for n in names) + ")"

    def bind_pat(self, names):
        if not names:
            return "u_"
        if len(names) == 1:
            return self.unit.ident(names[0])
        return "'(" + ", ".join(self.unit.ident(n) for n in names) + ")"

    def lam_pat(self, names):
        if not names:
            return "(_ : unit)"
        if len(names) == 1:
            return self.unit.ident(names[0])
        return "'(" + ", ".join(self.unit.ident(n) for n in names) + ")"

    def stmts(self, ss, tail):
        """ss: statement list; tail: () -> Gallina text of type `res R` for falling off the end
        (None: falling off is untranslatable)."""
        if not ss:
            if tail is None:
                raise Unsupported("function may fall off its end (implicit None)")
            return tail()
        s, rest = ss[0], ss[1:]
        ln = getattr(s, "lineno", 0)
        if isinstance(s, ast.Expr) and isinstance(s.value, ast.Constant) and isinstance(s.value.value, str):
            return self.stmts(rest, tail)
        if isinstance(s, ast.Pass):
            return self.stmts(rest, tail)
        if isinstance(s, ast.Return):
            return self.s_return(s)
        if isinstance(s, ast.Raise):
            return self.s_raise(s)
        if isinstance(s, ast.Assign):
            if len(s.targets) != 1:
                raise Unsupported("chained assignment at line %d" % ln)
            return self.s_assign(s.targets[0], s.value, None, s) + self.stmts(rest, tail)
        if isinstance(s, ast.AugAssign):
            return self.s_assign(s.target, s.value, s.op, s) + self.stmts(rest, tail)
        if isinstance(s, ast.FunctionDef):
            if s.decorator_list or s.args.kwonlyargs or s.args.kwarg or s.args.defaults or s.args.posonlyargs:
                raise Unsupported("nested function shape at line %d" % ln)
            self.closures[s.name] = (s, dict(self.env))
            self.env.pop(s.name, None)
            return self.stmts(rest, tail)
        if isinstance(s, ast.If):
            return self.s_if(s, rest, tail)
        if isinstance(s, ast.For):
            return self.s_for(s, rest, tail)
        if isinstance(s, ast.Try):
            return self.s_try(s, rest, tail)
        raise Unsupported("statement %s at line %d" % (type(s).__name__, ln))

    def s_return(self, s):
        if s.value is None:
            raise Unsupported("bare return at line %d" % s.lineno)
        if isinstance(s.value, ast.Name) and s.value.id in self.closures:
            return self.apply_closure(s.value.id, s)
        v, t = self.expr(s.value)
        return self.take() + "Ok %s" % self.coerce(v, t, self.ret, s)

    def s_raise(self, s):
        exc = s.exc
        if isinstance(exc, ast.Call):
            exc = exc.func
        if not (isinstance(exc, ast.Name) and exc.id in EXC):
            raise Unsupported("raise of an unmapped exception at line %d" % s.lineno)
        return "Err %s" % EXC[exc.id]

    def s_assign(self, target, value, op, s):
        ln = s.lineno
        if isinstance(target, ast.Name):
            if op is not None:
                value = ast.BinOp(left=ast.Name(id=target.id, ctx=ast.Load(), lineno=ln, col_offset=0), op=op, right=value,
                                  lineno=ln, col_offset=0)
            v, t = self.expr(value)
            name = target.id
            if name in self.loop_iters:
                raise Unsupported("assignment to the iterated list %s at line %d" % (name, ln))
            if name in self.env and self.env[name] != t:
                raise Unsupported("variable %s changes type (%s -> %s) at line %d" % (name, self.env[name], t, ln))
            self.closures.pop(name, None)
            pre = self.take()
            self.env[name] = t
            if t.startswith("list[") or t.startswith("dict["):
                if self.is_fresh(value):
                    self.fresh.add(name)
                else:
                    self.fresh.discard(name)
                    self.aliased.add(name)
                    self.aliased.update(n.id for n in ast.walk(value) if isinstance(n, ast.Name))
            return pre + "let %s := %s in\n" % (self.unit.ident(name), v)
        if isinstance(target, ast.Subscript) and isinstance(target.value, ast.Name) and not isinstance(target.slice, ast.Slice):
            name = target.value.id
            if name not in self.env or name in self.loop_iters:
                raise Unsupported("subscript assignment to %s at line %d" % (name, ln))
            lt = self.env[name]
            if not lt.startswith("list["):
                raise Unsupported("subscript assignment on %s at line %d" % (lt, ln))
            if name not in self.fresh and name not in self.may_mutate:
                raise Unsupported("store into %s, which is not a list created by this function (aliasing) at line %d" % (name, ln))
            self.mutated.add(name)
            a = self.unit.ident(name)
            # Python: container, index, (old element for +=), right-hand side, store
            i, it = self.expr(target.slice)
            if it != "idx":
                raise Unsupported("store at an index of type %s (may be negative) at line %d" % (it, ln))
            if op is None:
                # a[i] = v evaluates v FIRST, then the index
                saved_pending = self.pending
                self.pending = []
                v, t = self.expr(value)
                self.pending = self.pending + saved_pending
                newv = v
            else:
                old = self.hoist("nth_res %s %s" % (a, i))
                v, t = self.expr(value)
                f = {ast.Add: "nadd", ast.Sub: "nsub", ast.Mult: "nmul"}.get(type(op))
                if f is None or lt != "list[num]" or t not in ("num", "int"):
                    raise Unsupported("augmented assignment %s on %s at line %d" % (type(op).__name__, lt, ln))
                newv, t = "(%s N %s %s)" % (f, old, self.as_num(v, t)), "num"
            if t != lt[5:-1] and not (lt == "list[num]" and t == "int"):
                raise Unsupported("store of %s into %s at line %d" % (t, lt, ln))
            if lt == "list[num]" and t == "int":
                newv = self.as_num(newv, t)
            pre = self.take()
            return pre + "%s <- set_nth %s %s %s ;;\n" % (a, a, i, newv)
        raise Unsupported("assignment target at line %d" % ln)

    def sum_test(self, test):
        """isinstance(<name of a sum type>, <class>) -> (name, [(ctor, payload type) for true], [... for false])"""
        if not (isinstance(test, ast.Call) and isinstance(test.func, ast.Name) and test.func.id == "isinstance"
                and len(test.args) == 2 and not test.keywords and isinstance(test.args[0], ast.Name)
                and isinstance(test.args[1], ast.Name)):
            return None
        name, cls = test.args[0].id, test.args[1].id
        t = self.env.get(name)
        if t not in SUMS:
            raise Unsupported("isinstance on a value of type %s at line %d" % (t, test.lineno))
        alts = SUMS[t]
        if len(alts) != 2:
            raise Unsupported("sum type with %d alternatives" % len(alts))
        hit = [a for a in alts if a[0] == cls]
        if len(hit) != 1:
            raise Unsupported("isinstance(%s : %s, %s) at line %d" % (name, t, cls, test.lineno))
        other = [a for a in alts if a[0] != cls][0]
        return name, hit[0], other

    def s_if(self, s, rest, tail):
        ln = s.lineno
        st = self.sum_test(s.test)
        defines_fn = contains(s.body + s.orelse, (ast.FunctionDef,)) is not None
        returns = contains(s.body + s.orelse, (ast.Return,)) is not None
        if not rest or defines_fn or returns:
            # no join point: the continuation is duplicated into both branches
            mk = lambda body: self.stmts(body + rest, tail)
            joined = None
        else:
            joined = [n for n in assigned(s.body + s.orelse)]
            mk = None
        saved_env, saved_cl = dict(self.env), dict(self.closures)

        def branch(body, refine):
            self.env, self.closures = dict(saved_env), dict(saved_cl)
            if refine:
                self.env[refine[0]] = refine[1]
            if mk:
                text = mk(body)
                return text, None
            text = self.stmts(body, lambda: "\0JOIN")
            return text, dict(self.env)

        if st is None:
            c, ct = self.expr(s.test)
            c = self.truth(c, ct, s)
            pre = self.take()
            a, ea = branch(s.body, None)
            b, eb = branch(s.orelse, None)
            shape = lambda x, y: "if %s then\n%s\nelse\n%s" % (c, x, y)
        else:
            name, (_, ctor_t, ty_t), (_, ctor_f, ty_f) = st
            pre = ""
            a, ea = branch(s.body, (name, ty_t))
            b, eb = branch(s.orelse, (name, ty_f))
            xx = self.unit.ident(name)
            shape = lambda x, y: "match %s with\n| %s %s =>\n%s\n| %s %s =>\n%s\nend" % (xx, ctor_t, xx, x, ctor_f, xx, y)
        self.env, self.closures = dict(saved_env), dict(saved_cl)
        if joined is None:
            return pre + shape(textwrap.indent(a, "  "), textwrap.indent(b, "  "))
        # join: variables assigned in a branch and defined with the same type at the end of both
        keep = []
        for n in joined:
            if st is not None and n == st[0]:
                raise Unsupported("assignment to the scrutinee %s inside isinstance branches at line %d" % (n, ln))
            if n in ea and n in eb and ea[n] == eb[n]:
                keep.append(n)
                self.env[n] = ea[n]
            else:
                self.env.pop(n, None)      # a later use is a free name -> Unsupported
        out = "Ok %s" % self.tuple_of(keep)
        a, b = a.replace("\0JOIN", out), b.replace("\0JOIN", out)
        return pre + "%s <- (%s) ;;\n" % (self.bind_pat(keep), shape(textwrap.indent(a, "  "), textwrap.indent(b, "  "))) \
            + self.stmts(rest, tail)

    def s_for(self, s, rest, tail):
        ln = s.lineno
        if s.orelse:
            raise Unsupported("for/else at line %d" % ln)
        bad = contains(s.body, (ast.Break, ast.Continue, ast.Return, ast.While, ast.FunctionDef, ast.Yield, ast.YieldFrom))
        if bad is not None:
            raise Unsupported("%s inside a for body at line %d" % (type(bad).__name__, bad.lineno))
        it, itt = self.expr(s.iter)
        if not itt.startswith("list["):
            raise Unsupported("for over %s at line %d" % (itt, ln))
        pre = self.take()
        body_assigned = assigned(s.body)
        target_names = [n.id for n in ast.walk(s.target) if isinstance(n, ast.Name)]
        for n in target_names:
            if n in body_assigned:
                raise Unsupported("loop variable %s assigned in the body at line %d" % (n, ln))
            if n in self.loop_iters:
                raise Unsupported("loop variable %s shadows an iterated list at line %d" % (n, ln))
        iter_name = s.iter.id if isinstance(s.iter, ast.Name) else None
        if iter_name in body_assigned:
            raise Unsupported("iterated list %s assigned in the loop body at line %d" % (iter_name, ln))
        state = [n for n in body_assigned if n in self.env]          # carried across iterations
        saved_env = dict(self.env)
        pat = self.binder(s.target, itt[5:-1])
        self.loop_iters.append(iter_name)
        body = self.stmts(s.body, lambda: "Ok %s" % self.tuple_of(state))
        self.loop_iters.pop()
        for n in state:
            if self.env.get(n) != saved_env[n]:
                raise Unsupported("variable %s changes type in a loop at line %d" % (n, ln))
        self.env = saved_env                                          # loop-local names are dropped (a later use fails closed)
        for n in target_names + [n for n in body_assigned if n not in state]:
            self.env.pop(n, None)
        text = "%s <- py_for %s %s (fun %s %s =>\n%s) ;;\n" % (
            self.bind_pat(state), it, self.tuple_of(state), pat, self.lam_pat(state), textwrap.indent(body, "    "))
        return pre + text + self.stmts(rest, tail)

    def s_try(self, s, rest, tail):
        ln = s.lineno
        if s.orelse or s.finalbody or len(s.handlers) != 1:
            raise Unsupported("try shape at line %d" % ln)
        h = s.handlers[0]
        if not (isinstance(h.type, ast.Name) and h.type.id in EXC):
            raise Unsupported("except clause at line %d" % h.lineno)
        if len(h.body) != 1 or not isinstance(h.body[0], ast.Raise):
            raise Unsupported("exception handler that does not just raise at line %d" % h.lineno)
        to = self.s_raise(h.body[0])[4:]
        bad = contains(s.body, (ast.Return, ast.Break, ast.Continue, ast.FunctionDef))
        if bad is not None:
            raise Unsupported("%s inside try at line %d" % (type(bad).__name__, bad.lineno))
        state = assigned(s.body)
        before = dict(self.env)
        body = self.stmts(s.body, lambda: "\0JOIN")
        keep = [n for n in state if n in self.env and (n not in before or before[n] == self.env[n])]
        for n in state:
            if n not in keep:
                self.env.pop(n, None)
        body = body.replace("\0JOIN", "Ok %s" % self.tuple_of(keep))
        text = "%s <- py_catch (\n%s) %s %s ;;\n" % (self.bind_pat(keep), textwrap.indent(body, "    "), EXC[h.type.id], to)
        return text + self.stmts(rest, tail)

    # ----------------------------------------------------------------- closures
    def apply_closure(self, name, s):
        """`return g` in a function whose result is called as g(<call args>, *<star>)."""
        if not self.call:
            raise Unsupported("function returns a closure at line %d" % s.lineno)
        g, _cap = self.closures[name]
        cargs = list(self.call["args"].items())
        sname, stype = self.call["star"]
        params = [a.arg for a in g.args.args]
        if len(params) < len(cargs):
            raise Unsupported("closure %s takes fewer parameters than the call passes at line %d" % (name, g.lineno))
        saved_env, saved_cl, saved_ret = dict(self.env), dict(self.closures), self.ret
        text = ""
        # positional arguments
        for p, (cn, ct) in zip(params, cargs):
            self.env[p] = ct
            text += "let %s := %s in\n" % (self.unit.ident(p), cn)
        extra = params[len(cargs):]
        elt = stype[5:-1]
        for p in extra:
            self.env[p] = elt
        if g.args.vararg:
            # fixed parameters consume a prefix of the starred arguments, *rest gets the remainder
            pat = "".join("%s :: " % self.unit.ident(p) for p in extra) + self.unit.ident(g.args.vararg.arg)
            self.env[g.args.vararg.arg] = stype
            opener = "match %s with\n| %s =>\n" % (sname, pat) if extra else "let %s := %s in\n" % (self.unit.ident(g.args.vararg.arg), sname)
            closer = "\n| _ => Err EType\nend" if extra else ""
        else:
            pat = "[" + "; ".join(self.unit.ident(p) for p in extra) + "]"
            opener = "match %s with\n| %s =>\n" % (sname, pat)
            closer = "\n| _ => Err EType\nend"          # TypeError: wrong number of arguments
        mutated = [p for p in assigned(g.body) if p in params[:len(cargs)]]
        if len(mutated) != 1 or contains(g.body, (ast.Return,)) is not None:
            raise Unsupported("closure %s must mutate exactly one of its arguments and return None (line %d)" % (name, g.lineno))
        self.ret = self.env[mutated[0]]
        self.may_mutate.add(mutated[0])
        body = self.stmts(g.body, lambda: "Ok %s" % self.unit.ident(mutated[0]))
        self.env, self.closures, self.ret = saved_env, saved_cl, saved_ret
        inner = opener + (textwrap.indent(body, "  ") if closer else body) + closer
        return text + inner

    # ----------------------------------------------------------------- function
    def translate(self):
        body = self.stmts(self.fdef.body, None)
        both = (self.mutated - self.may_mutate) & self.aliased
        if both:
            raise Unsupported("%s: list %s is stored into and also aliased" % (self.fdef.name, sorted(both)))
        params = []
        for n, t in self.extra_params.items():
            params.append("(%s : %s)" % (n, self.unit.coq_type(t)))
        for p, t in self.sig["params"].items():
            params.append("(%s : %s)" % (self.unit.ident(p), self.unit.coq_type(t)))
        if self.call:
            for n, t in self.call["args"].items():
                params.append("(%s : %s)" % (n, self.unit.coq_type(t)))
            params.append("(%s : %s)" % (self.call["star"][0], self.unit.coq_type(self.call["star"][1])))
        return "Definition %s %s : res %s :=\n%s." % (
            self.sig["coqname"], " ".join(params), self.unit.coq_type(self.ret), textwrap.indent(body, "  "))


def add(unit, name, coqname, params, ret, defaults=None, vararg=None, call=None):
    """Translate method `name` of unit.cls.  params: {python parameter: type} (self excluded, in order);
    defaults: {parameter: python default value the model relies on}; vararg: (name, type) of *name."""
    fdef = unit.find(name)
    a = fdef.args
    if a.kwarg or a.kwonlyargs or a.posonlyargs or a.kw_defaults:
        raise Unsupported("%s: keyword-only / ** parameters" % name)
    decos = [ast.unparse(d) for d in fdef.decorator_list]
    if decos not in ([], ["staticmethod"]):
        raise Unsupported("%s: decorators %s" % (name, decos))
    args = [x.arg for x in a.args]
    if "staticmethod" not in decos:
        if not args or args[0] != "self":
            raise Unsupported("%s: first parameter is not self" % name)
        args = args[1:]
    want = [p for p in params if not (vararg and p == vararg[0])]
    if args != want:
        raise Unsupported("%s: parameters %s, expected %s" % (name, args, want))
    if (a.vararg.arg if a.vararg else None) != (vararg[0] if vararg else None):
        raise Unsupported("%s: *args parameter changed" % name)
    have = dict(zip(args[len(args) - len(a.defaults):], [ast.unparse(d) for d in a.defaults]))
    if have != {k: repr(v) for k, v in (defaults or {}).items()}:
        raise Unsupported("%s: default values %s, expected %s" % (name, have, defaults or {}))
    sig = {"params": params, "ret": ret, "coqname": coqname, "call": call}
    text = ImpTr(unit, fdef, sig).translate()
    unit.out.append("(* translated from %s:%d (%s.%s) *)\n%s\n" % (unit.path, fdef.lineno, unit.cls, name, text))
    return text


def gen_pressure(repo):
    hw = os.path.join(repo, "osaca/semantics/hw_model.py")
    sem = os.path.join(repo, "osaca/semantics/arch_semantics.py")
    u1 = ImpUnit(hw, cls="MachineModel")
    add(u1, "average_port_pressure", "g_average_port_pressure", {"port_pressure": "uops", "option": "int"}, "list[num]",
        defaults={"option": 0})
    u2 = ImpUnit(sem, cls="ArchSemantics")
    add(u2, "get_throughput_sum", "g_get_throughput_sum", {"kernel": "list[instr]"}, "list[num]")
    add(u2, "_to_list", "g_to_list", {"obj": "items[num]"}, "list[num]")
    add(u2, "_itemsetter", "g_itemsetter", {"items": "list[idx]"}, "list[num]", vararg=("items", "list[idx]"),
        call={"args": {"obj": "list[num]"}, "star": ("args", "list[num]")})
    return HEADER.replace("@SRC1@", hw).replace("@SRC2@", sem) + "\n" + "\n".join(u1.out + u2.out) + FOOTER


def generate(repo, outdir):
    """Returns {file: (ok, text-or-error)}; writes the file if it translates (only when it changed)."""
    os.makedirs(outdir, exist_ok=True)
    p = os.path.join(outdir, "PressureGen.v")
    try:
        text = gen_pressure(repo)
        old = open(p).read() if os.path.exists(p) else None
        if old != text:
            tmp = p + ".tmp%d" % os.getpid()
            with open(tmp, "w") as f:
                f.write(text)
            os.replace(tmp, p)
        return {"PressureGen.v": (True, text)}
    except (Unsupported, SyntaxError, OSError, KeyError, IndexError, ValueError) as e:
        for q in (p, p[:-2] + ".vo"):
            if os.path.exists(q):
                os.remove(q)
        return {"PressureGen.v": (False, "%s: %s" % (type(e).__name__, e))}


if __name__ == "__main__":
    import sys
    r = generate(sys.argv[1] if len(sys.argv) > 1 else "/repo", os.path.join(os.path.dirname(os.path.abspath(__file__)), "../coq/Gen"))
    for k, (ok, t) in r.items():
        print(k, "ok" if ok else t)
        if ok and "-v" in sys.argv:
            print(t)
