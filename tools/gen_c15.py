"""yaml2coq for C15: re-emit one shipped model file as Coq data (coq/Gen/Data_<name>.v).

The file is loaded through the repo's OWN loader (MachineModel(path_to_yaml=...)), i.e. what the analysis
consumes, and additionally read raw with ruamel.yaml (as the loader does) where the loader hides
structure (alias name lists, keys it substitutes by None, the load/store rows it rebuilds); the two views
must agree or the translation fails closed.  Nothing is judged here: shapes are transcribed, the verdict
(well-formed or not, the three --db-check counts) is computed in Coq.

usage (one process per file, run in parallel by checks/c15.py):
    python gen_c15.py arch|isa <name> <path.yml> <outdir>     -> prints one JSON line {"ok":..,"err":..}
"""
import json
import os
import sys
from collections import Counter
from decimal import Decimal
from fractions import Fraction

ABSENT = object()


def cs(s):
    return '"' + str(s).replace('"', '""') + '"'


def ascii_repr(x, limit=200):
    r = repr(plain(x))
    r = "".join(ch if 32 <= ord(ch) < 127 else "?" for ch in r)
    return r[:limit]


def plain(x):
    """ruamel containers/scalars -> plain Python values (no judgement, just types)."""
    if isinstance(x, dict):
        return {plain(k): plain(v) for k, v in x.items()}
    if isinstance(x, (list, tuple)):
        return [plain(v) for v in x]
    if isinstance(x, bool) or x is None:
        return x
    if isinstance(x, int):
        return int(x)
    if isinstance(x, float):
        return float(x)
    if isinstance(x, str):
        return str(x)
    return x


def q_of(x):
    """exact decimal of an int / float as Coq Q; None if x is not a plain number."""
    if isinstance(x, bool) or not isinstance(x, (int, float)):
        return None
    if isinstance(x, float):
        if x != x or x in (float("inf"), float("-inf")):
            return None
        fr = Fraction(Decimal(repr(float(x))))
    else:
        fr = Fraction(int(x))
    n, d = fr.numerator, fr.denominator
    if d == 1:
        return "(%d)" % n if n < 0 else "%d" % n
    return "(%d # %d)" % (n, d)


def em_num(x):
    q = q_of(x)
    return "NQ %s" % q if q is not None else "NBad %s" % cs(ascii_repr(x))


def em_field(x):
    if x is ABSENT:
        return "FAbsent"
    if x is None:
        return "FNone"
    q = q_of(x)
    return "FNum %s" % q if q is not None else "FBad %s" % cs(ascii_repr(x))


def em_ports(p):
    if isinstance(p, str):
        return "UStr %s" % cs(p)
    if isinstance(p, (list, tuple)) and all(isinstance(s, str) for s in p):
        return "UList [%s]" % "; ".join(cs(s) for s in p)
    return "UBadPorts %s" % cs(ascii_repr(p))


def em_uop(u):
    if isinstance(u, (list, tuple)) and len(u) == 2:
        return "U (%s) (%s)" % (em_num(u[0]), em_ports(u[1]))
    return "UBad %s" % cs(ascii_repr(u))


def em_uops(us):
    return "[%s]" % "; ".join(em_uop(u) for u in us)


def em_assignment(pp):
    if pp is ABSENT:
        return "AAbsent"
    if pp is None:
        return "ANone"
    if isinstance(pp, dict):
        keys = list(pp.keys())
        if keys == list(range(len(keys))) and all(not isinstance(k, bool) for k in keys) \
                and all(isinstance(v, (list, tuple)) for v in pp.values()):
            return "AAlts [%s]" % "; ".join(em_uops(v) for v in pp.values())
        return "ABad %s" % cs(ascii_repr(pp))
    if isinstance(pp, (list, tuple)):
        return "AUops %s" % em_uops(pp)
    return "ABad %s" % cs(ascii_repr(pp))


def class_char(o):
    from osaca.parser.memory import MemoryOperand
    from osaca.parser.register import RegisterOperand
    from osaca.parser.immediate import ImmediateOperand
    from osaca.parser.identifier import IdentifierOperand
    from osaca.parser.condition import ConditionOperand
    from osaca.parser.flag import FlagOperand
    from osaca.parser.prefetch import PrefetchOperand
    for cls, ch in ((RegisterOperand, "r"), (MemoryOperand, "m"), (ImmediateOperand, "i"), (IdentifierOperand, "d"),
                    (ConditionOperand, "c"), (FlagOperand, "f"), (PrefetchOperand, "p")):
        if isinstance(o, cls):
            return ch
    return "?"


def op_summary(o):
    """human-readable pattern of one operand (for replays only)."""
    ch = class_char(o)
    if ch == "r":
        return "reg(%s)" % ",".join("%s=%s" % (k, getattr(o, k)) for k in ("name", "prefix", "shape", "mask") if getattr(o, k, None))
    if ch == "m":
        return "mem(base=%s,offset=%s,index=%s,scale=%s%s)" % (
            o.base, o.offset, o.index, o.scale,
            "".join(",%s=%s" % (k, getattr(o, k)) for k in ("pre_indexed", "post_indexed") if getattr(o, k, False)))
    if ch == "i":
        return "imd(%s)" % o.imd_type
    if ch == "c":
        return "cc(%s)" % o.ccode
    return {"d": "identifier", "f": "flag", "p": "prfop"}.get(ch, "unknown:" + ascii_repr(o, 60))


class Table:
    def __init__(self):
        self.idx = {}
        self.rows = []
        self.reprs = []

    def add(self, pp):
        t = em_assignment(pp)
        if t not in self.idx:
            self.idx[t] = len(self.rows)
            self.rows.append(t)
            self.reprs.append("<absent>" if pp is ABSENT else ascii_repr(pp, 400))
        return self.idx[t]


def raw_view(path):
    """the file as ruamel sees it, alias name lists expanded the way the loader does it."""
    import ruamel.yaml
    with open(path) as f:
        raw = ruamel.yaml.YAML().load(f)
    forms = []
    for e in raw.get("instruction_forms") or []:
        names = e["name"] if isinstance(e["name"], list) else [e["name"]]
        for n in names:
            forms.append((str(n).upper(), len(e.get("operands") or []),
                          repr(plain(e.get("port_pressure", "<absent>"))), repr(plain(e.get("throughput", "<absent>"))),
                          repr(plain(e.get("latency", "<absent>")))))
    return raw, forms


def translate(kind, name, path, outdir):
    from osaca.semantics import MachineModel
    mm = MachineModel(path_to_yaml=path)          # the repo's own loader (raises => the file does not load)
    data = mm._data
    ports = plain(data.get("ports", []) or [])
    if not (isinstance(ports, list) and all(isinstance(p, str) for p in ports)):
        raise ValueError("port list is not a list of strings: %r" % (ports,))
    dforms = data["instruction_forms"]                                   # dict view (what --db-check reads)
    oforms = [f for fl in data["instruction_forms_dict"].values() for f in fl]   # object view (what costing reads)
    cursor = Counter()
    table = Table()
    entries, meta, loader_view = [], [], []
    if len(oforms) != len(dforms):
        raise ValueError("loader built %d InstructionForm objects for %d dict entries" % (len(oforms), len(dforms)))
    for d in dforms:
        nm = d["name"]
        # the loader appends one InstructionForm per dict entry, in order, to instruction_forms_dict[name]
        o = data["instruction_forms_dict"][nm][cursor[nm]]
        cursor[nm] += 1
        if o.operands is not d["operands"] and o.operands != d["operands"]:
            raise ValueError("dict entry and InstructionForm of %s do not share their operands" % nm)
        pp = d.get("port_pressure", ABSENT)
        tp = d.get("throughput", ABSENT)
        lt = d.get("latency", ABSENT)
        # object view must carry the same values (absent -> None by the loader)
        for dv, ov, what in ((pp, o.port_pressure, "port_pressure"), (tp, o.throughput, "throughput"), (lt, o.latency, "latency")):
            if (None if dv is ABSENT else dv) != ov:
                raise ValueError("dict and object view of %s differ in %s: %r vs %r" % (nm, what, dv, ov))
        ops = "".join(class_char(x) for x in d["operands"])
        hid = d.get("hidden_operands", [])
        if hid:
            ops += "|" + "".join(class_char(x) if not (isinstance(x, dict) and "source" in x and "destination" in x) else "f"
                                  for x in hid)
        i = table.add(plain(pp) if pp is not ABSENT else ABSENT)
        entries.append("E %s %s (%s) (%s) %d" % (cs(nm), cs(ops), em_field(plain(tp) if tp is not ABSENT else ABSENT),
                                                  em_field(plain(lt) if lt is not ABSENT else ABSENT), i))
        meta.append([nm, [op_summary(x) for x in d["operands"]], i])
        loader_view.append((nm, len(d["operands"]), repr(plain(pp)) if pp is not ABSENT else repr("<absent>"),
                            repr(plain(tp)) if tp is not ABSENT else repr("<absent>"),
                            repr(plain(lt)) if lt is not ABSENT else repr("<absent>")))
    # ---- raw YAML view must agree with the loader view
    raw, raw_forms = raw_view(path)
    if Counter(raw_forms) != Counter(loader_view):
        diff = list((Counter(raw_forms) - Counter(loader_view)).items())[:3] + list((Counter(loader_view) - Counter(raw_forms)).items())[:3]
        raise ValueError("raw YAML and loader disagree on the instruction forms: %r" % (diff,))
    if plain(raw.get("ports", []) or []) != ports:
        raise ValueError("raw YAML and loader disagree on the port list")

    def rows(key, regkey):
        out = []
        for j, (mem, pp) in enumerate(data.get(key, []) or []):
            rawrow = (raw.get(key) or [])[j]
            if plain(rawrow.get("port_pressure", "<absent>")) != plain(pp):
                raise ValueError("raw YAML and loader disagree on %s[%d]" % (key, j))
            summ = "base=%s,offset=%s,index=%s,scale=%s,%s=%s" % (mem.base, mem.offset, mem.index, mem.scale, regkey,
                                                                 getattr(mem, regkey))
            out.append("(%s, %d%%nat)" % (cs(summ), table.add(plain(pp))))
        return "[%s]" % "; ".join(out)

    def default(key):
        v = data.get(key, ABSENT)
        if plain(raw.get(key, "<absent>")) != (plain(v) if v is not ABSENT else "<absent>"):
            raise ValueError("raw YAML and loader disagree on %s" % key)
        return table.add(plain(v) if v is not ABSENT else ABSENT)

    def fields(key):
        v = data.get(key, None)
        if v is None:
            return "[]"
        if not isinstance(v, dict):
            return "[(%s, FBad %s)]" % (cs("<" + key + ">"), cs(ascii_repr(v)))
        return "[%s]" % "; ".join("(%s, %s)" % (cs(k), em_field(plain(x))) for k, x in v.items())

    load_rows, store_rows = rows("load_throughput", "dst"), rows("store_throughput", "src")
    ld, sd = default("load_throughput_default"), default("store_throughput_default")
    text = ["(* GENERATED by tools/gen_c15.py from %s through the repo's loader -- do not edit *)" % os.path.basename(path),
            "From Coq Require Import String List ZArith QArith.",
            "From OV Require Import Model.ModelData.",
            "Import ListNotations.",
            "Open Scope string_scope.",
            "Definition ports : list string := [%s]." % "; ".join(cs(p) for p in ports),
            "Definition table : list assignment := [",
            ";\n".join("  " + t for t in table.rows) + "].",
            "Definition entries : list entry := [",
            ";\n".join("  " + e for e in entries) + "].",
            "Definition tabs : tables := T %s %d %s %d %s %s %s." % (
                load_rows, ld, store_rows, sd, fields("load_latency"), fields("load_throughput_multiplier"),
                fields("store_throughput_multiplier")),
            ""]
    os.makedirs(outdir, exist_ok=True)
    mod = "Data_" + (("isa_" + name) if kind == "isa" else name)
    with open(os.path.join(outdir, mod + ".v"), "w") as f:
        f.write("\n".join(text))
    with open(os.path.join(outdir, mod + ".json"), "w") as f:
        json.dump({"kind": kind, "name": name, "ports": ports, "entries": meta, "table": table.reprs,
                   "load_default": ld, "store_default": sd, "n_load": len(data.get("load_throughput", []) or []),
                   "n_store": len(data.get("store_throughput", []) or [])}, f)
    return mod


# ---------------------------------------------------------------------------------------------------
# static per-file theorem files coq/PropsGen/C15_<file>.v (written once with `gen_c15.py --write-props`,
# the check verifies that they are exactly this text and that every non-empty data file has one)
ARCH_PROPS = '''(* Property C15 -- shipped model file @F@.yml: every instruction form is well-formed and can be costed;
   --db-check's three counts equal the numbers present in the file.
   The domain is finite: the entries of the shipped file as regenerated by tools/gen_c15.py into
   Gen/Data_@A@.v on every run (ports / table / entries / tabs below are THAT file's definitions);
   dbcheck_counts (Gen/DbCheck_@A@.v) is what the real `osaca --arch @F@ --db-check` printed in this run.
   Instantiation of the template in tools/gen_c15.py -- do not edit by hand. *)
From Coq Require Import String List Bool Arith QArith.
From OV Require Import Model.ModelData Proofs.WellFormed Gen.Data_@A@ Gen.DbCheck_@A@.
Import ListNotations.

(* (missing throughput, missing latency, missing port pressure) counted in Coq = --db-check's report *)
Theorem counts_@A@ : counts table entries = dbcheck_counts.
Proof. vm_compute. reflexivity. Qed.
Print Assumptions counts_@A@.

(* port list, load/store throughput tables and their defaults, load latencies, multipliers *)
Theorem tables_wf_@A@ : ports_wfb ports && tables_wfb ports table tabs = true.
Proof. vm_compute. reflexivity. Qed.
Print Assumptions tables_wf_@A@.

(* every instruction form: known operand classes, throughput/latency absent or >= 0, micro-op list
   (or each alternative) a list of [cycles >= 0, non-empty port collection] over this file's ports *)
Theorem all_wf_@A@ : forallb (entry_wfb ports table) entries = true.
Proof. vm_compute. reflexivity. Qed.
Print Assumptions all_wf_@A@.

(* hence (general theorem wf_costs) costing any entry of the file never raises *)
Theorem costable_@A@ : forall e, In e entries ->
  exists v, avg_pressure ports (assignment_of table e) = Ok v /\\ length v = length ports.
Proof. exact (all_wf_costable ports table entries all_wf_@A@). Qed.
Print Assumptions costable_@A@.

(* and the balancer's index computation succeeds on every micro-op of every alternative *)
Theorem positions_@A@ : forall e us u, In e entries -> In us (alternatives (assignment_of table e)) -> In u us ->
  exists l, uop_positions ports u = Ok l /\\ l <> [] /\\ Forall (fun i => (i < length ports)%nat) l.
Proof. exact (all_wf_positions ports table entries all_wf_@A@). Qed.
Print Assumptions positions_@A@.

Example nonvacuous_@A@ : (0 < length entries)%nat /\\ (0 < length ports)%nat.
Proof. vm_compute. split; apply Nat.leb_le; reflexivity. Qed.
'''

ISA_PROPS = '''(* Property C15 -- shipped ISA database isa/@F@.yml: every entry loads with operand classes the loader
   knows; performance fields are absent or well-formed.  Finite domain = the entries regenerated into
   Gen/Data_@A@.v on every run.  Instantiation of the template in tools/gen_c15.py -- do not edit by hand. *)
From Coq Require Import String List Bool Arith QArith.
From OV Require Import Model.ModelData Gen.Data_@A@.
Import ListNotations.

Theorem all_wf_@A@ : forallb (isa_entry_wfb ports table) entries = true.
Proof. vm_compute. reflexivity. Qed.
Print Assumptions all_wf_@A@.

Example nonvacuous_@A@ : (0 < length entries)%nat.
Proof. vm_compute. apply Nat.leb_le. reflexivity. Qed.
'''


def props_text(kind, name):
    a = ("isa_" + name) if kind == "isa" else name
    return (ISA_PROPS if kind == "isa" else ARCH_PROPS).replace("@A@", a).replace("@F@", name)


def props_path(coq, kind, name):
    return os.path.join(coq, "PropsGen", "C15_%s.v" % (("isa_" + name) if kind == "isa" else name))


if __name__ == "__main__" and len(sys.argv) > 1 and sys.argv[1] == "--write-props":
    # gen_c15.py --write-props <coqdir> arch:zen3 isa:x86 ...
    for spec in sys.argv[3:]:
        k, n = spec.split(":")
        with open(props_path(sys.argv[2], k, n), "w") as f:
            f.write(props_text(k, n))


if __name__ == "__main__" and (len(sys.argv) < 2 or sys.argv[1] != "--write-props"):
    kind, name, path, outdir = sys.argv[1:5]
    try:
        mod = translate(kind, name, path, outdir)
        print(json.dumps({"ok": True, "module": mod}))
    except Exception as e:  # fail closed: the caller records a broken translation obligation
        import traceback
        print(json.dumps({"ok": False, "err": "%s: %s" % (type(e).__name__, e), "trace": traceback.format_exc()[-1500:]}))
