"""Run the repository's pinned baseline (guard OFF) and check that every stable test passes."""
import json, os, subprocess, sys, tempfile, xml.etree.ElementTree as ET
base = json.load(open("/root/.vp/BASELINE.json"))
out = tempfile.mktemp(suffix=".xml")
env = dict(os.environ); env.pop("RRZE_HPC_OSACA_VERIF", None); env["HOME"] = tempfile.mkdtemp()
subprocess.run("cd /repo && /venv/bin/python -m pytest -ra -q -p no:cacheprovider --timeout=900 --continue-on-collection-errors --junitxml=%s > /dev/null 2>&1" % out, shell=True, env=env)
passed = set()
for tc in ET.parse(out).getroot().iter("testcase"):
    if not any(c.tag in ("failure", "error", "skipped") for c in tc):
        passed.add("%s::%s" % (tc.get("classname"), tc.get("name")))
missing = [t for t in base["stable_pass"] if t not in passed]
print("stable tests passing: %d / %d" % (len(base["stable_pass"]) - len(missing), len(base["stable_pass"])))
for m in missing: print("MISSING", m)
sys.exit(1 if missing else 0)
