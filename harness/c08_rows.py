"""C08 rows: the inputs and expected outputs of Model/Rows.v (row selection inside the model) and the independent
oracle "the row is for the operand's addressing mode", written from the YAML semantics.

* tables_json(mm)           raw load/store tables of a MachineModel as data (pattern, dst/src, micro-ops) + defaults
* mem_json(o)               a parsed memory operand as data
* observe_rows(...)         what the implementation's get_load_throughput / get_store_throughput return for an operand
                            (row indices by object identity, dst/src attribute, micro-ops)
* c_tables / c_mem / ...    Gallina rendering (Model/Match.v vocabulary)
* yaml_rows_* / row_oracle  YAML-level rows (synthetic: what the generator put in; shipped: the YAML text of the model
                            file, NOT the loaded tables) and the judgement of the returned rows
"""
import re

import vlib
from pressure import flit
import c08_cost as C

W = "*"


def _cls():
    from osaca.parser.register import RegisterOperand
    from osaca.parser.memory import MemoryOperand
    from osaca.parser.immediate import ImmediateOperand
    from osaca.parser.identifier import IdentifierOperand
    return RegisterOperand, MemoryOperand, ImmediateOperand, IdentifierOperand


# ------------------------------------------------------------------ data forms
def reg_json(r):
    for a in (r.name, r.prefix, r.shape, r.lanes):
        if a is not None and not isinstance(a, str):
            raise C.Unmodelled("register attribute %r" % (a,))
    return [r.name, r.prefix, r.shape, r.lanes]


def mem_json(o):
    R, M, I, Id = _cls()

    def reg(x):
        if x is None:
            return None
        if isinstance(x, R):
            return reg_json(x)
        raise C.Unmodelled("operand base/index %r" % (x,))
    if o.offset is None:
        off = None
    elif isinstance(o.offset, I):
        v = o.offset.value
        if isinstance(v, bool) or not isinstance(v, (int, str)):
            raise C.Unmodelled("displacement value %r" % (v,))
        off = ["imm", v]
    elif isinstance(o.offset, Id):
        off = "id"
    else:
        raise C.Unmodelled("operand offset %r" % (o.offset,))
    if isinstance(o.scale, bool) or not isinstance(o.scale, int):
        raise C.Unmodelled("operand scale %r" % (o.scale,))
    if not isinstance(o.pre_indexed, bool):
        raise C.Unmodelled("operand pre_indexed %r" % (o.pre_indexed,))
    if isinstance(o.post_indexed, bool):
        post = o.post_indexed
    elif isinstance(o.post_indexed, dict):
        post = "dict"
    else:
        raise C.Unmodelled("operand post_indexed %r" % (o.post_indexed,))
    if getattr(o, "dst", None) is not None or getattr(o, "src", None) is not None:
        raise C.Unmodelled("operand carries dst/src")
    return {"base": reg(o.base), "offset": off, "index": reg(o.index), "scale": o.scale, "pre": o.pre_indexed, "post": post}


def pat_json(p):
    R, M, I, Id = _cls()

    def reg(x):
        if x is None or isinstance(x, str):
            return x
        if isinstance(x, R):
            return {"reg": reg_json(x)}
        raise C.Unmodelled("row base/index %r" % (x,))
    if p.offset is None or isinstance(p.offset, str):
        off = p.offset
    elif isinstance(p.offset, Id):
        off = {"ident": True}
    else:
        raise C.Unmodelled("row offset %r" % (p.offset,))
    sc = p.scale
    if not (sc is None or isinstance(sc, str) or (isinstance(sc, int) and not isinstance(sc, bool))):
        raise C.Unmodelled("row scale %r" % (sc,))
    for f in (p.pre_indexed, p.post_indexed):
        if not isinstance(f, (bool, str)):
            raise C.Unmodelled("row pre/post %r" % (f,))
    return {"base": reg(p.base), "offset": off, "index": reg(p.index), "scale": sc, "pre": p.pre_indexed, "post": p.post_indexed}


def tables_json(mm):
    d = mm._data

    def tab(rows, attr):
        out = []
        for pat, us in rows:
            typ = getattr(pat, attr)
            if typ is not None and not isinstance(typ, str):
                raise C.Unmodelled("row %s %r" % (attr, typ))
            out.append([pat_json(pat), typ, C.canon_uops(us)])
        return out
    return {"ld": tab(d["load_throughput"], "dst"), "ld_default": C.canon_uops(d["load_throughput_default"]),
            "st": tab(d["store_throughput"], "src"), "st_default": C.canon_uops(d["store_throughput_default"])}


def _returned(ret, table, mem, attr):
    """rows handed back by a getter -> [[index in the table (-1: the default row), dst/src, micro-ops]]"""
    out = []
    for pat, us in ret:
        if pat is mem:
            idx = -1
        else:
            idx = next((i for i, (p, _) in enumerate(table) if p is pat), None)
            if idx is None:
                raise C.Unmodelled("getter returned a row that is not in the table")
        out.append([idx, getattr(pat, attr, None), C.canon_uops(us)])
    return out


def observe_rows(mm, mem, reg_types):
    """the implementation's answers for one memory operand"""
    from osaca.parser.register import RegisterOperand
    d = mm._data

    def call(f, table, attr):
        try:
            return _returned(f(), table, mem, attr)
        except AttributeError:
            return None                                   # the x86 matcher on a register without a name
    ob = {"mem": mem_json(mem),
          "ld": call(lambda: mm.get_load_throughput(mem), d["load_throughput"], "dst"),
          "st0": call(lambda: mm.get_store_throughput(mem), d["store_throughput"], "src"),
          "st": []}
    for rt in reg_types:
        ob["st"].append([rt, call(lambda: mm.get_store_throughput(mem, RegisterOperand(name=rt)), d["store_throughput"], "src")])
    return ob


# ------------------------------------------------------------------ Gallina
cs = C.cs


def c_ostr(s):
    return "None" if s is None else "(Some %s)" % cs(s)


def c_regop(r):
    return "(R %s %s %s %s)" % tuple(c_ostr(x) for x in r)


def c_z(n):
    return "(%d)%%Z" % n


def c_mem(m):
    def reg(x):
        return "None" if x is None else "(Some %s)" % c_regop(x)
    off = m["offset"]
    if off is None:
        o = "ONone"
    elif off == "id":
        o = "OIdent"
    else:
        v = off[1]
        o = "(OImm (IVInt %s))" % c_z(v) if isinstance(v, int) else "(OImm (IVStr %s))" % cs(v)
    post = {False: "PostFalse", True: "PostTrue", "dict": "PostDict"}[m["post"]]
    return "(M %s %s %s %s %s %s)" % (reg(m["base"]), o, reg(m["index"]), c_z(m["scale"]), C.c_bool(m["pre"]), post)


def c_pat(p):
    def reg(x):
        if x is None:
            return "MNone"
        if isinstance(x, str):
            return "(MStr %s)" % cs(x)
        return "(MReg %s)" % c_regop(x["reg"])
    off = p["offset"]
    o = "FNone" if off is None else ("(FStr %s)" % cs(off) if isinstance(off, str) else "FIdent")
    sc = p["scale"]
    s = "SNone" if sc is None else ("(SStr %s)" % cs(sc) if isinstance(sc, str) else "(SInt %s)" % c_z(sc))

    def flag(x):
        return "(GBool %s)" % C.c_bool(x) if isinstance(x, bool) else "(GStr %s)" % cs(x)
    return "(MP %s %s %s %s %s %s)" % (reg(p["base"]), o, reg(p["index"]), s, flag(p["pre"]), flag(p["post"]))


def c_rowtab(rows):
    return "[" + ";\n     ".join("mkrow %s %s %s" % (c_pat(p), c_ostr(t), C.c_uoplist(us)) for p, t, us in rows) + "]"


def c_tables(t):
    return "(mktables %s\n    %s\n    %s\n    %s)" % (c_rowtab(t["ld"]), C.c_uoplist(t["ld_default"]), c_rowtab(t["st"]), C.c_uoplist(t["st_default"]))


def c_omem(m):
    return "None" if m is None else "(Some %s)" % c_mem(m)


def c_rows(rows):
    """expected answer of a getter"""
    if rows is None:
        return "None"
    return "(Some [%s])" % "; ".join("(%s, %s)" % (c_ostr(t), C.c_uoplist(us)) for _, t, us in rows)


def c_isa(isa):
    return "Match.X86" if isa == "x86" else "Match.A64"


# ------------------------------------------------------------------ YAML-level rows
ROW_KEYS = ("base", "offset", "index", "scale", "pre_indexed", "post_indexed")


def yaml_rows_from_patterns(rows, attr):
    """synthetic worlds: the generator builds the MemoryOperand patterns itself; what it put in IS the row's text"""
    R, M, I, Id = _cls()
    out = []
    for pat, _ in rows:
        def f(x):
            return ("<reg>", x.name, x.prefix) if isinstance(x, R) else ("<ident>" if isinstance(x, Id) else x)
        out.append({"base": f(pat.base), "offset": f(pat.offset), "index": f(pat.index), "scale": pat.scale,
                    "pre_indexed": pat.pre_indexed, "post_indexed": pat.post_indexed, "typ": getattr(pat, attr)})
    return out


_yaml_cache = {}


def yaml_rows_from_file(path):
    """shipped models: the rows as the model FILE states them (the top-level load_throughput / store_throughput blocks of the
    YAML text, parsed on their own) -- independent of MachineModel's loader"""
    if path in _yaml_cache:
        return _yaml_cache[path]
    import ruamel.yaml
    blocks = {}
    cur = None
    with open(path) as f:
        for line in f:
            m = re.match(r"^([A-Za-z_][A-Za-z0-9_]*):", line)
            if m:
                cur = m.group(1) if m.group(1) in ("load_throughput", "store_throughput") else None
                if cur:
                    blocks[cur] = [line]
                continue
            if cur and (line.startswith((" ", "-", "\t")) or not line.strip()):
                blocks[cur].append(line)
            elif cur:
                cur = None
    y = ruamel.yaml.YAML(typ="safe")
    out = {}
    for key, attr in (("load_throughput", "dst"), ("store_throughput", "src")):
        data = y.load("".join(blocks.get(key, [key + ": []\n"])))[key] or []
        rows = []
        for r in data:
            rows.append({"base": r.get("base"), "offset": r.get("offset"), "index": r.get("index"), "scale": r.get("scale"),
                         "pre_indexed": r.get("pre_indexed", False), "post_indexed": r.get("post_indexed", False),
                         "typ": r.get(attr)})
        out[key] = rows
    _yaml_cache[path] = out
    return out


# ------------------------------------------------------------------ the oracle
X86_CLASSES = ["gpr", "xmm", "ymm", "zmm", "mm", "k"]
A64_PREFIXES = list("xwbhsdqvzp")


def x86_class(name):
    b = name.rstrip("0123456789").lower()
    return b if b in ("xmm", "ymm", "zmm", "mm", "k") else "gpr"


def addr_kind(isa, mem):
    """the addressing mode as written in the assembly: (base class, displacement kind, index class, scaled, pre, post)"""
    def rc(r):
        if r is None:
            return None
        return x86_class(r[0]) if isa == "x86" else r[1]
    off = mem["offset"]
    return {"base": rc(mem["base"]), "off": None if off is None else ("id" if off == "id" else "imd"),
            "index": rc(mem["index"]), "scaled": mem["scale"] != 1,
            "pre": bool(mem["pre"]) if isa != "x86" else False, "post": bool(mem["post"]) if isa != "x86" else False}


def row_documented(isa, row):
    """the documented vocabulary of a table row (DESIGN section 25 / Model/MatchSpec.v wf_pattern); rows outside it get no verdict"""
    cl = X86_CLASSES if isa == "x86" else A64_PREFIXES
    if not (row["base"] in cl + [W] or (row["base"] is None and isa == "x86")):
        return False
    if not (row["index"] in cl + [W] or row["index"] is None):
        return False
    if row["offset"] not in ((None, "imd", "id", W) if isa == "x86" else (None, "imd", W)):
        return False
    sc = row["scale"]
    if not (sc == W or (isinstance(sc, int) and not isinstance(sc, bool) and sc >= 1)):
        return False
    if isa != "x86":
        for f in (row["pre_indexed"], row["post_indexed"]):
            if not (isinstance(f, bool) or f == W):
                return False
    return True


def row_admits(isa, row, k, flags=True):
    """YAML semantics of a row: base / index name a register class (`*` any, `~` none); offset `~` no displacement, `imd` a
    number, `id` a symbol, `*` anything; scale 1 = unscaled, any other number = scaled, `*` either; AArch64: pre_indexed /
    post_indexed true / false / `*`"""
    def regf(pat, have):
        return pat == W or pat == have
    if not regf(row["base"], k["base"]) or not regf(row["index"], k["index"]):
        return False
    o = row["offset"]
    if not (o == W or (o is None and k["off"] is None) or (o == "imd" and k["off"] == "imd") or (o == "id" and k["off"] == "id")):
        return False
    if not (row["scale"] == W or ((row["scale"] != 1) == k["scaled"])):
        return False
    if isa != "x86":
        # flags == "dropped": the row read as if its pre_indexed / post_indexed keys were absent (= false), the failure
        # class of a loader that does not pass them on
        pre, post = (row["pre_indexed"], row["post_indexed"]) if flags is True else (False, False)
        if not (pre == W or pre == k["pre"]):
            return False
        if not (post == W or post == k["post"]):
            return False
    return True


def show_row(row):
    return "{" + ", ".join("%s: %s" % (k, "~" if row[k] is None else row[k]) for k in ROW_KEYS + ("typ",)) + "}"


def judge_returned(isa, yrows, mem, returned, what, flags=True):
    """deviations of one getter answer from the YAML semantics: list of (key, text)"""
    bad = []
    if returned is None:
        return bad
    k = addr_kind(isa, mem)
    verdict = [row_admits(isa, r, k, flags) if row_documented(isa, r) else None for r in yrows]
    idxs = [i for i, _, _ in returned]
    if len(yrows) < max(idxs + [-1]) + 1:
        return [("row-table-differs-from-file", "%s returned row #%d but the model file has %d rows" % (what, max(idxs), len(yrows)))]
    if idxs == [-1]:
        hit = [i for i, v in enumerate(verdict) if v]
        if hit:
            bad.append(("default-although-row-matches", "%s fell back to the default although row #%d %s is for this addressing mode %s"
                        % (what, hit[0], show_row(yrows[hit[0]]), k)))
        return bad
    if -1 in idxs or idxs != sorted(set(idxs)):
        bad.append(("row-order", "%s returned rows %s (not in table order / default mixed in)" % (what, idxs)))
    for i in idxs:
        if i >= 0 and verdict[i] is False:
            bad.append(("row-not-for-addressing-mode", "%s returned row #%d %s, which is not for the addressing mode %s"
                        % (what, i, show_row(yrows[i]), k)))
            break
    for i, v in enumerate(verdict):
        if v and i not in idxs:
            bad.append(("matching-row-not-returned", "%s did not return row #%d %s although it is for the addressing mode %s (returned %s)"
                        % (what, i, show_row(yrows[i]), k, idxs)))
            break
    return bad


def judge_typed(isa, yrows, mem, rt, returned, what, flags=True):
    """the store getter with a source register: only rows for the addressing mode that name a source type; the default only if
    no row for the addressing mode names exactly this type"""
    bad = []
    if returned is None:
        return bad
    k = addr_kind(isa, mem)
    verdict = [row_admits(isa, r, k, flags) if row_documented(isa, r) else None for r in yrows]
    idxs = [i for i, _, _ in returned]
    if len(yrows) < max(idxs + [-1]) + 1:
        return bad
    if idxs == [-1]:
        hit = [i for i, v in enumerate(verdict) if v and yrows[i]["typ"] == rt]
        if hit:
            bad.append(("default-although-row-matches", "%s fell back to the default although row #%d %s is for this addressing mode %s and source type %s"
                        % (what, hit[0], show_row(yrows[hit[0]]), k, rt)))
        return bad
    for i in idxs:
        if i >= 0 and (verdict[i] is False or yrows[i]["typ"] is None):
            bad.append(("row-not-for-addressing-mode", "%s returned row #%d %s, which is not for the addressing mode %s and a source type"
                        % (what, i, show_row(yrows[i]), k)))
            break
    return bad


def row_oracle(isa, ytabs, ob, text, from_file=False):
    """ytabs: {"load_throughput": [...], "store_throughput": [...]} YAML-level rows; ob: observe_rows(...) of one operand;
    from_file: the rows were read from a model file (so a loader sits between them and the tables the getters search)"""
    mem = ob["mem"]
    bad = []

    def loader(b, again):
        if b and from_file and isa != "x86" and not again():
            # the answer is exactly right for the rows with their pre_indexed / post_indexed keys struck out
            return [("table-row-indexing-dropped-by-loader", "%s -- the rows are matched as if they had no pre_indexed / post_indexed keys" % b[0][1])]
        return b
    for what, rows, ret in (("get_load_throughput", ytabs["load_throughput"], ob["ld"]),
                            ("get_store_throughput", ytabs["store_throughput"], ob["st0"])):
        bad += loader(judge_returned(isa, rows, mem, ret, what), lambda: judge_returned(isa, rows, mem, ret, what, flags="dropped"))
    for rt, ret in ob["st"]:
        what = "get_store_throughput(src %s)" % rt
        bad += loader(judge_typed(isa, ytabs["store_throughput"], mem, rt, ret, what),
                      lambda: judge_typed(isa, ytabs["store_throughput"], mem, rt, ret, what, flags="dropped"))
    return [(key, "`%s`: %s" % (text, msg)) for key, msg in bad]
