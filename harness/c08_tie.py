"""C08, translation tie (T) for ArchSemantics.assign_tp_lt (+ _handle_instruction_found and the hw_model getters it calls):

  1. tools/gen_c08.py translates the CURRENT source into coq/Gen/CostGen.v (fail closed -> broken `translation` obligation);
  2. coq/PropsGen/C08gen.v re-proves, against that text, that the regenerated definitions ARE the hand model (Model/Rows.v
     getters, Costing.found, and -- for every form, machine model, table, get_instruction and get_reg_type -- cost_line_rows
     applied to the look-ups the code performs), and restates the C08 theorems for them;
  3. the regenerated Gallina, instantiated with binary64, is evaluated on the costed lines of the check (synthetic worlds and
     the curated real vocabulary) and compared bit for bit with what the real assign_tp_lt did to the form -- this validates
     the translator and its prelude Model/CostPy.v.

record() is called by c08_cost.cost_case around the real assign_tp_lt: it snapshots the form before costing and logs the
answers of get_instruction / get_reg_type (the two PARAMETERS of the generated text).
Gen/CostGen.v calls Gen/PressureGen.v (C01's tie) and PropsGen/C08gen.v uses PropsGen/C01gen.v: the whole stage holds c01's
file lock and first makes sure those two belong to THIS tree (c01_bal.ensure_pressure_gen)."""
import fcntl
import os
import time

import vlib
import gen_c08
from vlib import coq_string as cs

GEN = "CostGen.v"
PROPS = "PropsGen/C08gen.v"
FLAG_NAMES = {"performs_load": "F_HAS_LD", "performs_store": "F_HAS_ST", "is_load_instruction": "F_LD",
              "tp_unknown": "F_TP_UNKWN", "lt_unknown": "F_LT_UNKWN", "not_bound": "F_NOT_BOUND"}
ERRS = {"IndexError": "EIndex", "ValueError": "EValue", "KeyError": "EKey", "TypeError": "EType"}


# ------------------------------------------------------------------ recording (real implementation side)
def operand_json(o):
    import c08_rows as R
    from osaca.parser.memory import MemoryOperand
    from osaca.parser.register import RegisterOperand
    if isinstance(o, MemoryOperand):
        return {"mem": R.mem_json(o)}
    if isinstance(o, RegisterOperand):
        return {"reg": R.reg_json(o)}
    if isinstance(o, dict) and o == {"*": "*"}:
        return {"wild": True}
    return {"other": type(o).__name__}


def record(mm, sem, form, run):
    """run() costs `form` with the real assign_tp_lt; -> (its result, tie data or {"skip": reason})"""
    import c08_cost as C
    tie = None
    try:
        flags = [FLAG_NAMES[f] for f in form.flags]
        so = form.semantic_operands
        if form.port_uops != [] and form.mnemonic is not None:
            raise C.Unmodelled("form already has micro-ops")
        tie = {"mnemonic": form.mnemonic, "operands": [operand_json(o) for o in (form.operands or [])], "flags": flags,
               "source": [operand_json(o) for o in so["source"]], "destination": [operand_json(o) for o in so["destination"]],
               "src_dst": [operand_json(o) for o in so["src_dst"]], "gi": [], "grt": None}
    except (KeyError, C.Unmodelled, AttributeError, TypeError) as e:
        return run(), {"skip": "%s: %s" % (type(e).__name__, e)}
    parser = sem._parser
    orig_gi, orig_grt = mm.get_instruction, parser.get_reg_type
    bad = []

    def gi(name, operands):
        r = orig_gi(name, operands)
        try:
            wild = any(isinstance(o, dict) for o in operands)
            ent = None
            if r is not None:
                ent = C.entry_json(r)
                ent["nops"] = len(r.operands)
            tie["gi"].append([name, wild, ent])
        except C.Unmodelled as e:
            bad.append(str(e))
        return r

    def grt(reg):
        try:
            r = orig_grt(reg)
        except Exception as e:  # noqa
            tie["grt"] = {"err": ERRS.get(type(e).__name__, "EFuel")}
            raise
        tie["grt"] = r if isinstance(r, str) else {"err": "EFuel"}
        if not isinstance(r, str):
            bad.append("reg_type %r" % (r,))
        return r

    mm.get_instruction, parser.get_reg_type = gi, grt
    try:
        exp = run()
    finally:
        del mm.get_instruction
        del parser.get_reg_type
    if bad:
        return exp, {"skip": bad[0]}
    return exp, tie


# ------------------------------------------------------------------ Gallina rendering
def c_operand(o):
    import c08_rows as R
    if "mem" in o:
        return "(OMem %s)" % R.c_mem(o["mem"])
    if "reg" in o:
        return "(OReg %s)" % R.c_regop(o["reg"])
    if "wild" in o:
        return "OWild"
    return "OOther"


def c_ops(l):
    return "[" + "; ".join(c_operand(o) for o in l) + "]"


def c_pyentry(e):
    import c08_cost as C
    u = e["uops"]
    uo = "(UList %s)" % C.c_uoplist(u["list"]) if "list" in u else "(UDict [%s])" % "; ".join(C.c_uoplist(a) for a in u["dict"])
    return "(mkpyentry %s %s %s (repeat PIdent %d))" % (C.c_opt(e["tp"], C.flit), C.c_opt(e["lt"], C.flit), uo, e["nops"])


def c_form(t):
    return "(mkpyform %s %s [%s] %s %s %s [] (PList []) None None None 0%%Z 0%%Z)" % (
        "None" if t["mnemonic"] is None else "(Some %s)" % cs(t["mnemonic"]), c_ops(t["operands"]), "; ".join(t["flags"]),
        c_ops(t["source"]), c_ops(t["destination"]), c_ops(t["src_dst"]))


def c_gi(t):
    rows, seen = [], set()
    for name, wild, ent in t["gi"]:
        if name is None or (name, wild) in seen:
            continue
        seen.add((name, wild))
        rows.append("((%s, %s), %s)" % (cs(name), "true" if wild else "false", "None" if ent is None else "(Some %s)" % c_pyentry(ent)))
    return "[" + ";\n     ".join(rows) + "]"


def c_grt(t):
    g = t["grt"]
    if g is None:
        return "(Err EFuel)"
    return "(Err %s)" % g["err"] if isinstance(g, dict) else "(Ok %s)" % cs(g)


TIE_HEADER = """
From OV Require Import Model.CostPy Gen.CostGen.
Definition is_wild (o : operand) : bool := match o with OWild => true | _ => false end.
(* a look-up the implementation did not make: an entry that cannot go unnoticed *)
Definition poison : pyentry F := mkpyentry (Some 12345.678%float) (Some 8765.4321%float) (UList []) [].
Definition gi_of (tab : list ((string * bool) * option (pyentry F))) (n : string) (ops : list operand) : option (pyentry F) :=
  match find (fun p => andb (String.eqb (fst (fst p)) n) (Bool.eqb (snd (fst p)) (existsb is_wild ops))) tab with
  | Some p => snd p
  | None => Some poison
  end.
"""

TIE_FOOTER = """
Definition tresults := map (fun c => let '(m, tb, gi, grt, f, e) := c in
  agrees (observe (g_assign_tp_lt FNum m tb (gi_of gi) (fun _ => grt) f)) e) tcases.
Definition tsummary := bad_of tresults ++ "|" ++ string_of_nat (List.length tresults).
Eval vm_compute in tsummary.
"""


def shard_text(cases):
    import c08_cost as C
    import c08_rows as R
    defs, names, items = [], {}, []

    def shared(prefix, text, typ):
        if text not in names:
            names[text] = "%s_%d" % (prefix, len(names))
            defs.append("Definition %s : %s := %s." % (names[text], typ, text))
        return names[text]
    for c in cases:
        m = shared("mach", C.c_mach(c), "mach (T:=F)")
        tb = shared("tabs", R.c_tables(c["tables"]), "tables (T:=F)")
        t = c["tie"]
        items.append("(%s, %s,\n    %s,\n    %s,\n    %s,\n    %s)" % (m, tb, c_gi(t), c_grt(t), c_form(t), C.c_exp(c["exp"])))
    footer = C.FOOTER[:C.FOOTER.index("Definition results")]          # bad_of
    return (C.HEADER + TIE_HEADER + "\n".join(defs)
            + "\nDefinition tcases : list (mach (T:=F) * tables (T:=F) * list ((string * bool) * option (pyentry F)) * res string * pyform F * res (cost (T:=F))) := [\n"
            + ";\n".join(items) + "]." + footer + TIE_FOOTER)


def cross_check(ctx, groups, shard_size=120):
    import c08_cost as C
    cases, skipped = [], {}
    for label, grp in groups:
        for c, rp in grp:
            t = c.get("tie")
            if not t or "skip" in t:
                k = (t or {}).get("skip", "no tie record")[:50]
                skipped[k] = skipped.get(k, 0) + 1
                continue
            try:
                C.c_mach(c)
            except C.Unmodelled as e:
                skipped[str(e)[:50]] = skipped.get(str(e)[:50], 0) + 1
                continue
            cases.append((label, c, rp))
    shards, parts = [], []
    for i in range(0, len(cases), shard_size):
        part = cases[i:i + shard_size]
        shards.append(("c08tie_%03d" % (i // shard_size), shard_text([c for _, c, _ in part])))
        parts.append(part)
    res = ctx.coq_eval_many(shards, timeout=600)
    total, details = 0, []
    for si, (part, (ok, out)) in enumerate(zip(parts, res)):
        if not ok or not out or out[0].count("|") != 1:
            details.append("shard %d failed to evaluate: %s" % (si, str(out)[-1500:]))
            continue
        bad, n = out[0].split("|")
        if int(n) != len(part):
            details.append("shard %d evaluated %s of %d" % (si, n, len(part)))
            continue
        total += len(part)
        for b in [int(x) for x in bad.split(",") if x]:
            label, c, rp = part[b]
            details.append("regenerated assign_tp_lt (binary64) != Python on %s %s `%s`: impl %s; look-ups %s"
                           % (label, c["isa"], c["text"], str(c["exp"])[:300], str(c["tie"]["gi"])[:300]))
    ctx.coverage["c08tie_crosscheck"] = {"lines": total, "skipped": skipped}
    ctx.obligation("translator cross-check: regenerated Gallina of assign_tp_lt (binary64; get_instruction / get_reg_type answers as logged) = "
                   "the real assign_tp_lt bit for bit on %d costed lines (port_uops, pressure, latency, latency_wo_load, throughput, "
                   "flag set, exception class)" % total, "correspondence", not details and total > 0, "\n".join(details[:6]))


def run(ctx, groups):
    """groups: [(label, [(case, replay)])] -- the costed lines of the check (cases carry c["tie"] from record())"""
    import c01_bal
    t0 = time.time()
    ctx.trusted += ["translator tools/gen_c08.py (on top of gen_c01.py / py2coq.py; fail-closed subset; prelude + object representation "
                    "coq/Model/CostPy.v, facts coq/Proofs/CostPy.v; cross-checked against CPython on every costed line of the check)"]
    gendir = os.path.join(vlib.COQ, "Gen")
    os.makedirs(gendir, exist_ok=True)
    with open(os.path.join(gendir, ".c01gen.lock"), "w") as lf:
        fcntl.flock(lf, fcntl.LOCK_EX)
        waited = time.time() - t0
        base_ok, base_out = c01_bal.ensure_pressure_gen(ctx, gendir)
        ok, text, meta = gen_c08.generate(vlib.REPO, gendir)
        ctx.obligation("translate assign_tp_lt, _handle_instruction_found, get_load/store_throughput, get_load/store_latency, "
                       "_match_mem_entries, substitute_mem_address from the current source (Gen/%s)" % GEN, "translation", ok, "" if ok else text)
        compiled = False
        if ok:
            ctx.trusted += ["C08 translation, modelling convention: " + a for a in gen_c08.ASSUMPTIONS]
            ctx.coverage["c08tie_signatures"] = meta.get("signatures")
            if base_ok:
                compiled, out, dt = ctx.coqc(os.path.join(gendir, GEN))
                ctx.obligation("generated Gen/%s type-checks" % GEN, "translation", compiled, out)
                ctx.log("coqc Gen/%s: %s in %.1fs" % (GEN, "ok" if compiled else "FAILED", dt))
            else:
                ctx.obligation("generated Gen/%s type-checks" % GEN, "translation", False,
                               "Gen/PressureGen.v / PropsGen/C01gen.v unavailable: " + base_out)
        if ok and compiled:
            ctx.compile_theorems(PROPS)
            cross_check(ctx, groups)
        else:
            ctx.obligation("theorems of %s (regenerated assign_tp_lt = hand model)" % PROPS, "theorem", False, "generated definitions unavailable")
    ctx.coverage["c08tie_s"] = {"waited_for_lock": round(waited, 1), "total": round(time.time() - t0, 1)}
    ctx.log("C08 translation tie (regenerate, compile, re-prove, cross-check): %.1fs" % (time.time() - t0))
