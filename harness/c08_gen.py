"""C08 synthetic generator: an in-process MachineModel (ports, register-form / direct entries, load and store
tables per addressing shape and register type, defaults, multipliers, load latencies), a synthetic ISA
description that gives the memory operand any role, and small kernels of instructions written as TEXT
(parsed by the real parsers, roles assigned by the real assign_src_dst)."""
import copy
import re

import models
import c08_cost as C

CYC = [0.25, 0.5, 1, 1.0, 2, 0.33, 1.5, 3.0, 0.1]
LAT = [0, 1, 1.0, 2.0, 3, 4.0, 5.0, 0.5, 7]
TP = [0.25, 0.5, 1.0, 1, 2.0, 0.33, 0.0, 4]

X86_REGS = {"gpr": ["%rax", "%rbx", "%r12", "%ecx", "%r9d", "%al"], "xmm": ["%xmm0", "%xmm7", "%xmm15"],
            "ymm": ["%ymm1", "%ymm2", "%ymm13"], "zmm": ["%zmm3", "%zmm31"]}
X86_MEMS = ["(%rax)", "8(%rax)", "(%rax,%rbx)", "(%rax,%rbx,8)", "16(%rax,%rcx,4)", "-8(%rbp)", "0(%rsi)", "(%rdi,%r8,1)",
            "64(%rsp,%rdx,8)"]
X86_MNEM = ["vaddpd", "addq", "addl", "movl", "vfmadd231pd", "incq", "foo", "vmovapd", "subw", "xorb", "cmpl", "vbar"]
A64_REGS = {"x": ["x0", "x7", "x29"], "w": ["w1", "w12"], "d": ["d0", "d9"], "q": ["q1", "q31"], "s": ["s2"],
            "v": ["v0.2d", "v3.4s"], "z": ["z0.d", "z9.s"]}
A64_MEMS = ["[x1]", "[x1, #8]", "[x1, x2]", "[x1, x2, lsl #3]", "[x1, #16]!", "[x1], #16", "[sp, #32]", "[x3, #-8]!",
            "[x4], #64", "[x5, w6, sxtw #2]"]
# the same addressing shape with a symbolic instead of a numeric (or no) displacement: rows with `offset: imd` must not be
# used for the twin and vice versa (whatever was analysed before on the same machine model)
X86_TWIN = {"8(%rax)": "tab(%rax)", "(%rax)": "glob(%rax)", "16(%rax,%rcx,4)": "sym(%rax,%rcx,4)", "0(%rsi)": "var(%rsi)",
            "(%rax,%rbx,8)": "arr(%rax,%rbx,8)", "-8(%rbp)": "loc(%rbp)", "64(%rsp,%rdx,8)": "stk(%rsp,%rdx,8)"}
A64_TWIN = {"[x1, #8]": "[x1, :lo12:tab]", "[sp, #32]": "[sp, :lo12:stk]", "[x1]": "[x1, #:lo12:glob]"}
A64_MNEM = ["ldr", "str", "fadd", "fmla.d", "add", "foo", "ldp", "bar.ne", "mov", "st1", "addv.s"]


def sem_for(isa):
    from osaca.semantics import MachineModel, ArchSemantics
    mm = MachineModel(isa=isa)
    return ArchSemantics(mm, path_to_yaml=models.isa_path(isa))


_sems = {}


def semantics(isa):
    if isa not in _sems:
        _sems[isa] = sem_for(isa)
    return _sems[isa]


def gen_ports(rng):
    n = rng.choice([1, 2, 3, 3, 4, 4, 5, 6, 8])
    names = []
    for i in range(n):
        names.append(rng.choice(["%d", "%d", "%dD", "%dDV"]) % i if rng.random() < 0.8 else "P%d" % i)
    return names


def gen_uops(rng, ports, lo=0, hi=3):
    us = []
    for _ in range(rng.randint(lo, hi)):
        k = rng.randint(1, min(3, len(ports)))
        ps = rng.sample(ports, k)
        if all(len(p) == 1 for p in ps) and rng.random() < 0.5:
            ps = "".join(ps)
        us.append([rng.choice(CYC), ps])
    return us


def classes(isa):
    return list(X86_REGS) if isa == "x86" else list(A64_REGS)


def gen_mem_pattern(rng, isa, typed_field=None, typ=None):
    from osaca.parser.memory import MemoryOperand
    if isa == "x86":
        kw = dict(base=rng.choice(["gpr", "gpr", "*"]), offset=rng.choice([None, "imd", "imd", "id", "*", "*"]),
                  index=rng.choice([None, "gpr", "*", "*"]), scale=rng.choice([1, 8, "*", "*"]))
    else:
        kw = dict(base=rng.choice(["x", "x", "*"]), offset=rng.choice([None, "imd", "imd", "id", "*", "*"]),
                  index=rng.choice([None, "x", "*", "*"]), scale=rng.choice([1, "*", "*"]),
                  pre_indexed=rng.choice([False, True, "*", "*"]), post_indexed=rng.choice([False, True, "*", "*"]))
    if typed_field:
        kw[typed_field] = typ
    return MemoryOperand(**kw)


def gen_table(rng, isa, ports, field):
    rows = []
    cl = classes(isa)
    for _ in range(rng.choice([0, 0, 1, 2, 3, 4, 6])):
        typ = rng.choice([None, None] + cl + (["*"] if isa == "x86" else []))
        rows.append((gen_mem_pattern(rng, isa, field, typ), gen_uops(rng, ports, 0, 3)))
    return rows


def reg_pattern(isa, cls):
    from osaca.parser.register import RegisterOperand
    if isa == "x86":
        return RegisterOperand(name=cls)
    if cls in ("v", "z"):
        return RegisterOperand(prefix=cls, shape="*")
    return RegisterOperand(prefix=cls)


def wild_mem(isa, **kw):
    from osaca.parser.memory import MemoryOperand
    if isa == "x86":
        return MemoryOperand(base="*", offset="*", index="*", scale="*", **kw)
    return MemoryOperand(base="*", offset="*", index="*", scale="*", pre_indexed="*", post_indexed="*", **kw)


def gen_instr(rng, isa):
    """(text, mnemonic, operand kinds) -- kinds: ('reg', cls) | ('mem',) | ('imm',)"""
    regs = X86_REGS if isa == "x86" else A64_REGS
    n = rng.choice([1, 2, 2, 2, 3, 3, 4])
    kinds = []
    nm = rng.choice([1, 1, 1, 1, 2, 0])
    pos = set(rng.sample(range(n), min(nm, n)))
    for i in range(n):
        if i in pos:
            kinds.append(("mem",))
        elif rng.random() < 0.15:
            kinds.append(("imm",))
        else:
            kinds.append(("reg", rng.choice(list(regs))))
    txt = []
    for i, k in enumerate(kinds):
        if k[0] == "mem":
            if isa == "x86":
                txt.append(rng.choice(X86_MEMS))
            elif i == len(kinds) - 1:
                txt.append(rng.choice(A64_MEMS))
            else:
                # `[x1], <next operand>` would read as a post-indexed operand: only the `!` forms are unambiguous here
                txt.append(rng.choice([m for m in A64_MEMS if m.endswith("!")]))
        elif k[0] == "imm":
            txt.append("$%d" % rng.randint(0, 9) if isa == "x86" else "#%d" % rng.randint(0, 9))
        else:
            txt.append(rng.choice(regs[k[1]]))
    mn = rng.choice(X86_MNEM if isa == "x86" else A64_MNEM)
    return "%s %s" % (mn, ", ".join(txt)), mn, kinds


def gen_entry(rng, isa, ports, name, kinds, mode):
    """arch-model entry for `name`; mode: 'direct' (memory patterns) | 'reg' (registers at the memory positions)"""
    from osaca.parser.instruction_form import InstructionForm
    from osaca.parser.immediate import ImmediateOperand
    ops = []
    for k in kinds:
        if k[0] == "mem":
            ops.append(wild_mem(isa) if mode == "direct" else reg_pattern(isa, rng.choice(classes(isa))))
        elif k[0] == "imm":
            ops.append(ImmediateOperand(imd_type="int"))
        else:
            ops.append(reg_pattern(isa, k[1]))
    r = rng.random()
    if r < 0.06 and len(ports) > 1:
        pp = {0: gen_uops(rng, ports, 1, 2), 1: gen_uops(rng, ports, 1, 2)}
    else:
        pp = gen_uops(rng, ports, 0, 3)
    tp = None if rng.random() < 0.04 else rng.choice(TP)
    lt = None if rng.random() < 0.04 else rng.choice(LAT)
    return InstructionForm(mnemonic=name.upper(), operands=ops, throughput=tp, latency=lt, port_pressure=pp)


def gen_isa_entry(rng, isa, name, kinds):
    from osaca.parser.instruction_form import InstructionForm
    from osaca.parser.immediate import ImmediateOperand
    from osaca.parser.register import RegisterOperand
    ops = []
    for k in kinds:
        role = rng.choice(["s", "s", "d", "d", "sd"])
        kw = dict(source=role in ("s", "sd"), destination=role in ("d", "sd"))
        if k[0] == "mem":
            o = wild_mem(isa, **kw)
        elif k[0] == "imm":
            o = ImmediateOperand(imd_type="int" if isa == "x86" else "*", **kw)
        else:
            o = RegisterOperand(name="*", **kw) if isa == "x86" else RegisterOperand(prefix="*", shape="*", **kw)
        ops.append(o)
    return InstructionForm(mnemonic=name.upper(), operands=ops, hidden_operands=[])


def strip_suffix(isa, mn):
    if isa == "x86" and mn[-1] in "bswlqt":
        return mn[:-1]
    if isa == "aarch64" and "." in mn:
        return mn[:mn.index(".")]
    return None


def gen_world(rng):
    """-> dict(isa, mm (pristine MachineModel), isa_model, lines [text])"""
    from osaca.semantics import MachineModel
    from collections import defaultdict
    isa = rng.choice(["x86", "aarch64"])
    ports = gen_ports(rng)
    mm = MachineModel(isa=isa)
    d = mm._data
    d["ports"] = ports
    cl = classes(isa)
    lat = {}
    for c in cl:
        if rng.random() < 0.93:
            lat[c] = rng.choice([4.0, 5.0, 3, 0, 0.0, None, 6.0, 11.0, 4.5])
    d["load_latency"] = lat
    d["load_throughput"] = gen_table(rng, isa, ports, "dst")
    d["store_throughput"] = gen_table(rng, isa, ports, "src")
    d["load_throughput_default"] = gen_uops(rng, ports, 0, 2)
    d["store_throughput_default"] = gen_uops(rng, ports, 0, 2)
    if rng.random() < 0.3:
        d["load_throughput_multiplier"] = {c: rng.choice([1.0, 2.0, 1, 0.5, 3.0]) for c in cl if rng.random() < 0.95}
    if rng.random() < 0.3:
        d["store_throughput_multiplier"] = {c: rng.choice([1.0, 2.0, 2, 0.5, 1.5]) for c in cl if rng.random() < 0.95}
    isa_model = MachineModel(isa=isa)
    isa_model._data["instruction_forms_dict"] = defaultdict(list)
    d["instruction_forms_dict"] = defaultdict(list)
    lines = []
    for _ in range(rng.choice([1, 2, 2, 3, 4])):
        text, mn, kinds = gen_instr(rng, isa)
        lines.append(text)
        tw = [(a, b) for a, b in (X86_TWIN if isa == "x86" else A64_TWIN).items()
              if re.search(r"(?:^|[ ,])" + re.escape(a) + r"(?:,|$)", text)]
        if tw and rng.random() < 0.45:
            a, b = rng.choice(tw)
            # replace the operand that matched as a whole (not `(%rax)` inside `8(%rax)`)
            twin = re.sub(r"(^|[ ,])" + re.escape(a) + r"(?=,|$)", lambda mo: mo.group(1) + b, text, count=1)
            if rng.random() < 0.5:
                lines.append(twin)
            else:
                lines.insert(len(lines) - 1, twin)
        st = strip_suffix(isa, mn)
        r = rng.random()
        want = []
        if r < 0.12:
            want = [("direct", mn)]
        elif r < 0.62:
            want = [("reg", mn)]
        elif r < 0.74 and st:
            want = [("reg", st)]
        elif r < 0.80 and st:
            want = [("direct", st)]
        elif r < 0.86:
            want = [("reg", mn), ("direct", mn)]
        elif r < 0.90 and st:
            want = [("reg", mn), ("reg", st)]
        for mode, name in want:
            d["instruction_forms_dict"][name.upper()].append(gen_entry(rng, isa, ports, name, kinds, mode))
        if rng.random() < 0.75:
            isa_model._data["instruction_forms_dict"][mn.upper()].append(gen_isa_entry(rng, isa, mn, kinds))
    if rng.random() < 0.2:
        lines.insert(rng.randrange(len(lines) + 1), ".L%d:" % rng.randint(1, 9) if rng.random() < 0.5 else ("# comment" if isa == "x86" else "// comment"))
    return {"isa": isa, "mm": mm, "isa_model": isa_model, "lines": lines}


def parse(isa, text, ln=1):
    from osaca.parser import ParserX86ATT, ParserAArch64
    global _px, _pa
    try:
        _px
    except NameError:
        _px, _pa = ParserX86ATT(), ParserAArch64()
    return (_px if isa == "x86" else _pa).parse_line(text, ln)


def run_world(w):
    """Cost the kernel in order on ONE machine model (history), and every line on a fresh deep copy.
    -> (cases of the in-order run, results of the isolated runs, tables_changed?)"""
    isa = w["isa"]
    sem = semantics(isa)
    sem._isa_model = w["isa_model"]
    pristine = w["mm"]
    hist_mm = copy.deepcopy(pristine)
    snap = C.tables_snapshot(hist_mm)
    seq, iso = [], []
    for ln, text in enumerate(w["lines"]):
        f = parse(isa, text, ln + 1)
        sem._machine_model = hist_mm
        sem.assign_src_dst(f)
        seq.append(C.cost_case(hist_mm, sem, f, text=text, origin="synthetic"))
    changed = C.tables_snapshot(hist_mm) != snap
    for ln, text in enumerate(w["lines"]):
        f = parse(isa, text, ln + 1)
        fresh = copy.deepcopy(pristine)
        sem._machine_model = fresh
        sem.assign_src_dst(f)
        iso.append(C.run_impl(sem, f))
    return seq, iso, changed
