"""C20 harness: benchmark-file generator, driver of the REAL import path, independent oracle
(fractions.Fraction, written from the property text / README), Coq case-file writer."""
import io
import os
import shutil
import sys
import warnings
import contextlib
from decimal import Decimal, ROUND_HALF_EVEN
from fractions import Fraction

import vlib
from vlib import coq_string as cs

ARCH = {"x86": "zen1", "aarch64": "n1"}
KEEP = 12

# ------------------------------------------------------------------ environment
_ready = {}


def setup(ctx):
    """Scratch copies of the two smallest shipped models in $HOME/.osaca/data (first entry of
    osaca.utils.DATA_DIRS), so that the real `MachineModel(arch)` path never touches /repo's data dir."""
    if _ready.get("home") == ctx.home:
        return
    d = os.path.join(ctx.home, ".osaca", "data")
    os.makedirs(d, exist_ok=True)
    for a in ARCH.values():
        # scratch copy, cut down to the first KEEP instruction forms: the dump time of the real
        # code path is linear in the number of forms (0.9 s for the whole of zen1)
        src = open(os.path.join(vlib.REPO, "osaca", "data", a + ".yml")).read().split("\n")
        start = src.index("instruction_forms:")
        heads = [i for i in range(start + 1, len(src)) if src[i].startswith("- ")]
        cut = heads[KEEP] if len(heads) > KEEP else len(src)
        with open(os.path.join(d, a + ".yml"), "w") as f:
            f.write("\n".join(src[:cut]) + "\n")
    import osaca.utils as u
    if u.DATA_DIRS[0] != d:
        u.DATA_DIRS.insert(0, d)
        u.CACHE_DIR = os.path.join(ctx.home, ".osaca", "cache")
    _ready["home"] = ctx.home


def existing_dict(isa):
    """{key: [number of operands of each entry]} of instruction_forms_dict of the loaded model."""
    from osaca.semantics import MachineModel
    mm = MachineModel(ARCH[isa])
    return {k: [len(f.operands) for f in v] for k, v in mm._data["instruction_forms_dict"].items()}


def run_import(ctx, isa, bench, text):
    """The real code path.  Returns ("ok", [forms]) or ("err", ExceptionName); a form is
    (mnemonic, [operand dicts], throughput, latency)."""
    import osaca.db_interface as dbi
    import ruamel.yaml
    path = os.path.join(ctx.scratch, "bench.dat")
    with open(path, "w", newline="") as f:
        f.write(text)
    out = io.StringIO()
    err = io.StringIO()
    try:
        with warnings.catch_warnings():
            warnings.simplefilter("ignore")
            with contextlib.redirect_stderr(err):
                dbi.import_benchmark_output(ARCH[isa], bench, path, output=out)
    except Exception as e:  # noqa: BLE001 -- any exception = nothing imported
        return ("err", type(e).__name__)
    s = out.getvalue()
    i = s.find("\n- mnemonic:")
    head = s if i < 0 else s[:i + 1]
    if "mnemonic:" in head:
        tail = None
    else:
        tail = "" if i < 0 else s[i + 1:]
    yaml = ruamel.yaml.YAML(typ="safe")
    if tail is None:   # unexpected layout: parse everything
        doc = yaml.load(s)
        forms = [f for f in doc["instruction_forms"] if "mnemonic" in f]
    else:
        if "instruction_forms:" not in head:
            return ("err", "NoInstructionFormsInDump")
        forms = yaml.load(tail) if tail else []
    res = []
    for f in forms:
        res.append((f["mnemonic"], [dict(o) for o in f["operands"]], f["throughput"], f["latency"]))
    return ("ok", res)


# ------------------------------------------------------------------ documented operand codes (README)
def spec_operand(code, isa):
    """Independent decoder written from README 'Benchmark import'.  None = not a documented code."""
    def mem(flags, allowed):
        if len(set(flags)) != len(flags) or not set(flags) <= set(allowed):
            return None
        return flags
    if isa == "x86":
        if code == "r":
            return {"class": "register", "name": "gpr"}
        if code in ("x", "y", "z"):
            return {"class": "register", "name": code + "mm"}
        if code == "i":
            return {"class": "immediate", "imd": "int"}
        if code[:1] == "m" and mem(code[1:], "bois") is not None:
            fl = code[1:]
            return {"class": "memory", "base": "gpr" if "b" in fl else None, "offset": "imd" if "o" in fl else None,
                    "index": "gpr" if "i" in fl else None, "scale": 8 if "s" in fl else 1}
        return None
    if code in ("w", "x", "b", "h", "s", "d", "q"):
        return {"class": "register", "prefix": code}
    if code == "v":
        return {"class": "register", "prefix": "v", "shape": "d"}
    if len(code) == 2 and code[0] == "v" and code[1] in "bhsd":
        return {"class": "register", "prefix": "v", "shape": code[1]}
    if code == "i":
        return {"class": "immediate", "imd": "int"}
    if code[:1] == "m" and mem(code[1:], "boisrp") is not None:
        fl = code[1:]
        return {"class": "memory", "base": "x" if "b" in fl else None, "offset": "imd" if "o" in fl else None,
                "index": "gpr" if "i" in fl else None, "scale": 8 if "s" in fl else 1,
                "pre_indexed": "r" in fl, "post_indexed": "p" in fl}
    return None


def random_code(rng, isa):
    k = rng.random()
    if isa == "x86":
        if k < 0.5:
            return rng.choice(["r", "x", "y", "z", "i"])
        fl = [c for c in "bois" if rng.random() < 0.5]
    else:
        if k < 0.35:
            return rng.choice(["w", "x", "b", "h", "s", "d", "q"])
        if k < 0.5:
            return rng.choice(["v", "vb", "vh", "vs", "vd", "i"])
        fl = [c for c in "boisrp" if rng.random() < 0.45]
    if rng.random() < 0.3:
        rng.shuffle(fl)
    return "m" + "".join(fl)


# ------------------------------------------------------------------ measurements and the 5 % windows (oracle)
EDGE = Fraction(1, 10 ** 9)   # relative distance from a window edge below which double rounding may decide


def oracle_tp(text):
    """(expected value or None, is_edge) from the property text, on the exact decimal."""
    m = Fraction(text)
    edge = False
    hit = None
    for n in range(1, 11):
        lo, hi = Fraction(95, 100) / n, Fraction(105, 100) / n
        for e in (lo, hi):
            if abs(m - e) <= EDGE * e:
                edge = True
        if lo <= m <= hi:
            hit = n
    if hit is None:
        return None, edge
    q = Decimal(1) / Decimal(hit)
    v = (Fraction(1, hit) * 10 ** 5)
    # round half even of 1/n to 5 decimals, exactly
    fl = v.numerator // v.denominator
    r = v - fl
    if r > Fraction(1, 2) or (r == Fraction(1, 2) and fl % 2 == 1):
        fl += 1
    return float(Fraction(fl, 10 ** 5)), edge


def oracle_lt(text):
    m = Fraction(text)
    fl = m.numerator // m.denominator
    edge = False
    ok = False
    for j in (fl - 1, fl, fl + 1, fl + 2):
        if j < 0:
            continue
        lo, hi = j * Fraction(95, 100), j * Fraction(105, 100)
        for e in (lo, hi):
            if e != 0 and abs(m - e) <= EDGE * e:
                edge = True
        if lo <= m <= hi:
            ok = True
    if m >= 10:
        ok = True   # the 5 % bands of consecutive integers overlap from 10 on
    if not ok:
        return None, edge
    r = m - fl
    k = fl + 1 if (r > Fraction(1, 2) or (r == Fraction(1, 2) and fl % 2 == 1)) else fl
    if r == Fraction(1, 2):
        edge = True
    return float(k), edge


def fmt(x, rng):
    """decimal text of a Fraction with enough digits to keep it on the intended side"""
    digits = rng.choice([3, 4, 6, 9])
    s = "%.*f" % (digits, float(x))
    return s


def random_tp(rng):
    k = rng.random()
    n = rng.randint(1, 10)
    r = Fraction(1, n)
    if k < 0.25:
        return fmt(r * (1 + Fraction(rng.randint(-1000, 1000), 10 ** 6)), rng)          # +-0.1 %
    if k < 0.40:
        return "%.12f" % float(r * rng.choice([Fraction(95, 100), Fraction(105, 100)]))   # exactly at an edge
    if k < 0.60:
        return fmt(r * rng.choice([Fraction(94, 100), Fraction(106, 100), Fraction(949, 1000), Fraction(1051, 1000),
                                   Fraction(951, 1000), Fraction(1049, 1000)]), rng)       # just in / just out
    if k < 0.70:
        return fmt(Fraction(1, rng.choice([11, 12, 16, 20])), rng)                        # n > 10
    if k < 0.78:
        return rng.choice(["0.0", "0", "2.0", "1.5", "4.013", "-0.5", "1e-1", "5e-1", ".25"])
    return fmt(Fraction(rng.randint(1, 1500), 1000), rng)                                 # anywhere


def random_lt(rng):
    k = rng.random()
    j = rng.choice([1, 2, 3, 4, 5, 7, 9, 10, 11, 12, 19, 20, 21, 40, 100])
    if k < 0.3:
        return fmt(j * (1 + Fraction(rng.randint(-1000, 1000), 10 ** 6)), rng)
    if k < 0.45:
        return "%.12f" % float(j * rng.choice([Fraction(95, 100), Fraction(105, 100)]))
    if k < 0.65:
        return fmt(j * rng.choice([Fraction(94, 100), Fraction(106, 100), Fraction(949, 1000), Fraction(1051, 1000),
                                   Fraction(951, 1000), Fraction(1049, 1000)]), rng)
    if k < 0.75:
        return rng.choice(["0.0", "0", "0.5", "1.5", "2.5", "9.5", "10.5", "0.96", "0.94", "-1.0", "-0.0", "3e0"])
    return fmt(Fraction(rng.randint(0, 30000), 1000), rng)


# ------------------------------------------------------------------ files
SPECIAL_X86 = ["VXORPD", "vxorpd", "VPADDD", "CVTPD2PS", "vcvtpd2ps", "FOO", "foo", "VPTEST"]
SPECIAL_A64 = ["STP", "stp", "FADD", "fadd", "ADD", "add", "FOO", "foo", "LDNP"]


def random_form(rng, isa, idx, hard):
    if hard and rng.random() < 0.25:
        mn = rng.choice(SPECIAL_X86 if isa == "x86" else SPECIAL_A64)
    else:
        mn = "tinstr%d" % idx if rng.random() < 0.8 else "TINSTR%d" % idx
    nops = rng.randint(1, 4)
    codes = [random_code(rng, isa) for _ in range(nops)]
    return mn, codes


def gen_file(rng, isa, bench, hard):
    """Returns (text, forms, stop) -- forms: list of dicts(name, mnemonic, codes, tp, lt) in file
    order (None = no such line), stop: index of the first asmbench block that must not be imported."""
    n = rng.randint(1, 6)
    forms = []
    used = set()
    for i in range(n):
        mn, codes = random_form(rng, isa, i, hard)
        name = mn + "-" + "_".join(codes)
        if name in used:
            continue
        used.add(name)
        forms.append({"name": name, "mnemonic": mn, "codes": codes, "tp": random_tp(rng), "lt": random_lt(rng)})
    lines = []
    stop = None
    if bench == "ibench":
        if rng.random() < 0.7:
            lines.append("Using frequency 2.50GHz.\n")
        items = []
        for f in forms:
            kinds = ["TP", "LT"]
            if rng.random() < 0.15:
                kinds = [rng.choice(kinds)]          # only one of the two lines
                f["lt" if kinds[0] == "TP" else "tp"] = None
            for kd in kinds:
                items.append((f, kd))
        if rng.random() < 0.5:
            rng.shuffle(items)                        # any order / interleaving
        for f, kd in items:
            val = f["tp"] if kd == "TP" else f["lt"]
            lines.append("%s-%s:%s%s (clock cycles)    [DEBUG - result: 1.000000]\n"
                         % (f["name"], kd, " " * rng.randint(1, 4), val))
    else:
        corrupt = rng.random() < 0.45
        where = rng.randrange(len(forms)) if corrupt else None
        how = rng.choice(["drop-blank", "nonblank", "truncate1", "truncate2", "truncate3", "no-final-blank"]) if corrupt else None
        for i, f in enumerate(forms):
            blk = [f["name"] + "\n", "Latency: %s cy\n" % f["lt"], "Throughput: %s cy\n" % f["tp"],
                   rng.choice(["\n", "\n", "  \n", "\t\n"])]
            if corrupt and i == where:
                stop = i
                if how == "drop-blank":
                    if i == len(forms) - 1:
                        how = "no-final-blank"
                    lines += blk[:3]
                    if how == "drop-blank":
                        continue
                    break
                if how == "nonblank":
                    lines += blk[:3] + ["# comment\n"]
                    continue
                if how == "no-final-blank":
                    lines += blk[:3]
                    break
                k = int(how[-1])
                lines += blk[:k]
                break
            lines += blk
        if stop is not None:
            pass
    text = "".join(lines)
    if text.endswith("\n") and rng.random() < 0.1 and bench == "asmbench" and stop is None:
        pass
    return text, forms, stop


def split_lines(text):
    """readlines() of a text written with '\\n' line ends (kept)"""
    out = []
    cur = ""
    for ch in text:
        cur += ch
        if ch == "\n":
            out.append(cur)
            cur = ""
    if cur:
        out.append(cur)
    return out


def expected_by_property(isa, bench, forms, stop):
    """What the property text demands: list of (upper mnemonic, operands, tp, lt, tp_edge, lt_edge) for
    every form that must appear (asmbench: the blocks before `stop`)."""
    exp = []
    for i, f in enumerate(forms):
        if bench == "asmbench" and stop is not None and i >= stop:
            break
        ops = [spec_operand(c, isa) for c in f["codes"]]
        tp, te = oracle_tp(f["tp"]) if f["tp"] is not None else (None, False)
        lt, le = oracle_lt(f["lt"]) if f["lt"] is not None else (None, False)
        exp.append({"name": f["name"], "mnemonic": f["mnemonic"], "operands": ops, "tp": tp, "lt": lt, "tp_edge": te, "lt_edge": le})
    return exp


def check_property(isa, bench, forms, stop, result):
    """Independent oracle on the implementation's real output.  Returns (problem-key, description) or None,
    and the number of edge cases skipped."""
    exp = expected_by_property(isa, bench, forms, stop)
    if result[0] == "err":
        if bench == "asmbench" and stop is not None:
            return ("asmbench-malformed-block-aborts-import",
                    "malformed block %d: %s raised, none of the %d earlier block(s) imported" % (stop, result[1], len(exp))), 0
        return ("import-raises", "import of a well-formed file raised %s" % result[1]), 0
    got = result[1]
    edges = 0
    # every expected form must be represented
    for e in exp:
        same = [g for g in got if g[0].upper() == e["mnemonic"].upper() and g[1] == e["operands"]]
        if not same:
            wrong_ops = [g for g in got if g[0] == e["mnemonic"]]
            if wrong_ops and all(len(g[1]) == len(e["operands"]) for g in wrong_ops) and \
                    not any(x["mnemonic"].upper() == e["mnemonic"].upper() and x is not e and len(x["operands"]) == len(e["operands"]) for x in exp):
                return ("operand-decoded-wrongly", "form %s: operands %r, documented convention says %r"
                        % (e["name"], wrong_ops[0][1], e["operands"])), edges
            return ("imported-form-missing", "form %s does not appear in the emitted model (%d imported forms emitted)"
                    % (e["name"], len(got))), edges
        # values: unique forms must carry exactly the snapped values
        twins = [x for x in exp if x["mnemonic"].upper() == e["mnemonic"].upper() and x["operands"] == e["operands"]]
        if len(twins) == 1 and len(same) == 1:
            g = same[0]
            for what, idx, edge in (("tp", 2, e["tp_edge"]), ("lt", 3, e["lt_edge"])):
                if edge:
                    edges += 1
                    continue
                if g[idx] != e[what] or (g[idx] is not None and not isinstance(g[idx], float)):
                    key = {"tp": "throughput-not-snapped-as-specified", "lt": "latency-not-snapped-as-specified"}[what]
                    return (key, "form %s: %s emitted as %r, property demands %r" % (e["name"], what, g[idx], e[what])), edges
    # nothing invented
    for g in got:
        if not any(g[0].upper() == e["mnemonic"].upper() and g[1] == e["operands"] for e in exp):
            return ("form-invented", "emitted form %s %r was not in the file (or lies at/after the malformed block)" % (g[0], g[1])), edges
    return None, edges


# ------------------------------------------------------------------ Coq rendering
def coq_line(s):
    body = s[:-1] if s.endswith("\n") else s
    if any(ord(c) < 32 and c != "\t" or ord(c) > 126 for c in body):
        raise ValueError("unprintable character in generated line")
    return "(%s ++ nl)" % cs(body) if s.endswith("\n") else cs(body)


def coq_float(x):
    h = float(x).hex()
    return "(%s)%%float" % h if not h.startswith("-") else "(-%s)%%float" % h[1:]


def coq_pyval(v):
    if v is None:
        return "PNone"
    if isinstance(v, bool):
        return "(PBool %s)" % ("true" if v else "false")
    if isinstance(v, int):
        return "(PInt (%d)%%Z)" % v
    if isinstance(v, str):
        return "(PStr %s)" % cs(v)
    raise ValueError("operand value %r" % (v,))


def coq_form(g):
    ops = "[" + "; ".join("[" + "; ".join("(%s, %s)" % (cs(k), coq_pyval(v)) for k, v in o.items()) + "]" for o in g[1]) + "]"
    opt = lambda x: "None" if x is None else "(Some %s)" % coq_float(x)
    return "(mkform %s %s %s %s)" % (cs(g[0]), ops, opt(g[2]), opt(g[3]))


ERRMAP = {"IndexError": "EIndex", "ValueError": "EValue"}


def coq_result(res):
    if res[0] == "err":
        return "(Err %s)" % ERRMAP.get(res[1], "EOther")
    return "(Ok [" + "; ".join(coq_form(g) for g in res[1]) + "])"


CASE_HEADER = """From Coq Require Import String Ascii List Bool ZArith Uint63 PrimFloat.
From OV Require Import Model.PyString Model.ImportPre Model.Import Gen.Import.
Import ListNotations.
Open Scope string_scope.
Set Printing Width 100000. Set Printing Depth 100000.
Definition V := mkvariant %s %s %s.
Definition table : list (string * float) := [%s].
Definition pf (s : string) : option float := assoc s table.
Definition ex_x86 : list (string * list nat) := [%s].
Definition ex_a64 : list (string * list nat) := [%s].
Definition vald := @g_validate_measurement float FNum.
Definition run (x86 ibench : bool) (lines : list string) :=
  import_benchmark vald (if x86 then g_create_db_operand_x86 else g_create_db_operand_aarch64) pf V x86 ibench
                   (if x86 then ex_x86 else ex_a64) lines.
Definition oeq (a b : option float) : bool :=
  match a, b with Some x, Some y => f_biteq x y | None, None => true | _, _ => false end.
Definition feq (a b : iform float) : bool :=
  andb (String.eqb (f_mnemonic a) (f_mnemonic b))
       (andb (ops_eqb (f_operands a) (f_operands b)) (andb (oeq (f_tp a) (f_tp b)) (oeq (f_lt a) (f_lt b)))).
Fixpoint leq (a b : list (iform float)) : bool :=
  match a, b with [] , [] => true | x :: r, y :: s => andb (feq x y) (leq r s) | _, _ => false end.
Inductive xres := XOk (l : list (iform float)) | XErr (e : err) | XOther.
Definition req (a : res (list (iform float))) (b : xres) : bool :=
  match a, b with
  | Ok x, XOk y => leq x y
  | Err EIndex, XErr EIndex => true
  | Err EValue, XErr EValue => true
  | _, _ => false
  end.
Definition cases : list (bool * bool * list string * xres) := [
%s
].
Definition bad : list nat :=
  map fst (filter (fun p => match snd p with (x86, ib, ls, exp) => negb (req (run x86 ib ls) exp) end)
                  (combine (seq 0 (length cases)) cases)).
Definition show := (String.concat "," (map string_of_nat (firstn 20 bad)) ++ "|" ++ string_of_nat (length cases))%%string.
Eval vm_compute in show.
"""


def coq_xres(res):
    if res[0] == "err":
        e = ERRMAP.get(res[1])
        return "(XErr %s)" % e if e else "XOther"
    return "(XOk [" + "; ".join(coq_form(g) for g in res[1]) + "])"


def case_file(variant, cases, existing):
    """cases: list of (isa, bench, text, result).  The float table maps every second whitespace token
    of every line to Python's float() of it."""
    table = {}
    rows = []
    for isa, bench, text, result in cases:
        lines = split_lines(text)
        for ln in lines:
            toks = ln.split()
            if len(toks) > 1:
                try:
                    v = float(toks[1])
                except ValueError:
                    continue
                if v != v or v in (float("inf"), float("-inf")):
                    raise ValueError("non-finite measurement generated")
                table[toks[1]] = v
        rows.append("  (%s, %s, [%s], %s)" % ("true" if isa == "x86" else "false", "true" if bench == "ibench" else "false",
                                             "; ".join(coq_line(l) for l in lines), coq_xres(result)))
    ex = lambda d: "; ".join("(%s, [%s]%%nat)" % (cs(k), "; ".join(str(n) for n in v)) for k, v in d.items())
    b = lambda x: "true" if x else "false"
    return CASE_HEADER % (b(variant[0]), b(variant[1]), b(variant[2]),
                          "; ".join("(%s, %s)" % (cs(k), coq_float(v)) for k, v in table.items()),
                          ex(existing["x86"]), ex(existing["aarch64"]), ";\n".join(rows))
