"""C04: targeted kernels for the load stage of a critical path (checks/c04.py).

Shape: a read-modify-write instruction WITHOUT an own memory form in the model (so OSACA composes register form + load data and the
instruction gets a separate load node n + 0.1), followed by a reload of the same location (store-to-load forwarding edge n -> reload,
weight = latency without load + store_to_load_forward_latency), on a model whose forwarding latency is not 0; next to it an independent
chain whose length lies BETWEEN  (full latency of n) + rest  and  (load stage + forwarding edge) + rest.  The critical path is the
chain through the load stage; an implementation that weighs the folded edge n + 0.1 -> reload wrongly picks the other chain.
Controls: the same kernel with a pointer bump between the store and the reload (no link), and without the competing chain.

The synthetic databases are written with the YAML vocabulary of harness/deps.py (same builder, fixed forms instead of random ones)."""
import deps


def db_yaml(isa, forms, fwd, pidx=1.0):
    """forms as in deps.gen_db: name, kinds, roles, hidden, idiom, lat, split.  Returns (isa_yaml, arch_yaml)."""
    B = lambda b: "true" if b else "false"
    isa_y = ["osaca_version: 0.3.4", "isa: \"%s\"" % isa, "instruction_forms:"]
    for f in forms:
        isa_y.append("  - name: %s" % f["name"])
        isa_y.append("    operands:" + (" []" if not f["kinds"] else ""))
        for k, (s, d) in zip(f["kinds"], f["roles"]):
            isa_y.append("      - " + deps.yaml_operand(k, isa, B(s), B(d)))
    arch_y = ["osaca_version: 0.3.4", "micro_architecture: synthetic", "arch_code: syn", "isa: %s" % isa,
              "hidden_loads: false",
              "load_latency: {gpr: 4.0, xmm: 4.0, ymm: 4.0, zmm: 4.0, x: 4.0, w: 4.0, d: 4.0, q: 4.0, v: 4.0, p: 4.0, s: 4.0, h: 4.0, b: 4.0, z: 4.0}",
              "load_throughput: []", "load_throughput_default: [[1, '0']]",
              "store_throughput: []", "store_throughput_default: [[1, '1']]",
              "store_to_load_forward_latency: %s" % fwd]
    if isa == "aarch64":
        arch_y.append("p_index_latency: %s" % pidx)
    arch_y += ["ports: ['0', '1']", "instruction_forms:"]
    for f in forms:
        arch_y.append("  - name: %s" % f["name"])
        arch_y.append("    operands:" + (" []" if not f["kinds"] else ""))
        for k in f["kinds"]:
            if k == "mem" and f.get("split"):
                k = "gpr" if isa == "x86" else "x"
            arch_y.append("      - " + deps.arch_operand(k, isa))
        arch_y.append("    latency: %s" % f["lat"])
        arch_y.append("    throughput: 1.0")
        arch_y.append("    port_pressure: [[1, '0']]")
        arch_y.append("    uops: 1")
    return "\n".join(isa_y) + "\n", "\n".join(arch_y) + "\n"


def forms_for(isa, rmw_lat, reload_lat, b1, b2):
    g = "gpr" if isa == "x86" else "x"
    mem_last = isa == "aarch64"
    two = lambda name, a, b, lat, split=False: {"name": name, "kinds": [a[0], b[0]], "roles": [a[1], b[1]], "hidden": [], "idiom": False,
                                                "lat": lat, "split": split}
    src, dst, both = (True, False), (False, True), (True, True)
    if mem_last:
        rmw = two("krm", (g, src), ("mem", both), rmw_lat, split=True)          # krm x1, [x2, #8]
        reload = two("kld", (g, dst), ("mem", src), reload_lat)                  # kld x3, [x2, #8]
        use = two("kus", (g, dst), (g, src), 1.0)                                # kus x4, x3
        c1 = two("kca", (g, dst), (g, src), b1)
        c2 = two("kcb", (g, dst), (g, src), b2)
        bump = two("kbp", (g, both), ("imm", src), 1.0)                          # kbp x2, #8
    else:
        rmw = two("krm", (g, src), ("mem", both), rmw_lat, split=True)          # krm %rax, 8(%rbx)
        reload = two("kld", ("mem", src), (g, dst), reload_lat)                  # kld 8(%rbx), %rcx
        use = two("kus", (g, src), (g, dst), 1.0)                                # kus %rcx, %rdx
        c1 = two("kca", (g, src), (g, dst), b1)
        c2 = two("kcb", (g, src), (g, dst), b2)
        bump = two("kbp", ("imm", src), (g, both), 1.0)                          # kbp $8, %rbx
    return [rmw, reload, use, c1, c2, bump]


def kernels(isa, disp):
    """(name, text) of the kernels of one database"""
    if isa == "x86":
        m = "%d(%%rbx)" % disp
        rmw, reload, use = "  krm %%rax, %s" % m, "  kld %s, %%rcx" % m, "  kus %rcx, %rdx"
        comp = ["  kca %rsi, %rdi", "  kcb %rdi, %r8"]
        bump = "  kbp $8, %rbx"
    else:
        m = "[x2, #%d]" % disp
        rmw, reload, use = "  krm x1, %s" % m, "  kld x3, %s" % m, "  kus x4, x3"
        comp = ["  kca x6, x5", "  kcb x7, x6"]
        bump = "  kbp x2, #8"
    out = [("rmw-reload+competitor", [rmw, reload] + comp),
           ("competitor-first", comp + [rmw, reload]),
           ("rmw-reload-use+competitor", [rmw, reload, use] + comp),
           ("rmw-reload", [rmw, reload]),
           ("bump-between", [rmw, bump, reload] + comp),
           ("interleaved", [rmw, comp[0], reload, comp[1]])]
    return [(n, "\n".join(l) + "\n") for n, l in out]


def cases(ctx):
    """yields (name, case, kernel, dg, isa) through the real pipeline; the competing chain is sized from the forwarding latency so that it
    lies strictly between the two weights of the load-stage chain"""
    out = []
    for isa in ("x86", "aarch64"):
        for fwd in (1.5, 2.0):
            for rmw_lat, reload_lat in ((3.0, 1.0), (1.0, 2.0)):
                # load-stage chain: 4 (load) + rmw_lat + fwd + reload_lat; wrongly folded: (4 + rmw_lat) + reload_lat
                lo = 4.0 + rmw_lat + reload_lat
                comp = lo + fwd / 2.0                     # two instructions: b1 (edge) + b2 (last latency)
                forms = forms_for(isa, rmw_lat, reload_lat, comp / 2.0, comp / 2.0)
                iy, ay = db_yaml(isa, forms, fwd)
                pipe = deps.Pipeline(ctx, isa, iy, ay)
                for name, text in kernels(isa, ctx.rng.choice([0, 8, 16])):
                    try:
                        case, kernel, dg = deps.build_case(pipe, text, False)
                    except Exception as e:  # noqa
                        ctx.violation("analysis-raises", "the analysis of a load-stage kernel (%s) raises %r: %s" % (name, e, text.replace("\n", " ; ")),
                                      {"isa": isa, "text": text, "flagdeps": False, "db": {"isa_yaml": iy, "arch_yaml": ay}})
                        continue
                    case["origin"] = "load-stage family: %s (%s, fwd %s)" % (name, isa, fwd)
                    case["db"] = {"isa_yaml": iy, "arch_yaml": ay}
                    out.append((name, case, kernel, dg, isa))
    return out


def guarded_synthetic(ctx, n, key="analysis-raises", **kw):
    """depcheck.synthetic(ctx, n, **kw), one kernel at a time: a kernel on which the implementation RAISES (parser, semantics, KernelDG,
    get_critical_path, the LCD search) is a concrete failing input (reported with the kernel and its database), not a failure of the
    checking machinery."""
    import depcheck
    last = {}
    orig_build, orig_db = deps.build_case, deps.gen_db

    def build(pipe, text, flagdeps, *a, **k):
        last.update(isa=pipe.isa, text=text, flagdeps=flagdeps)
        return orig_build(pipe, text, flagdeps, *a, **k)

    def gen_db(rng, isa):
        r = orig_db(rng, isa)
        last["db"] = {"isa_yaml": r[1], "arch_yaml": r[2]}
        return r
    out = []
    deps.build_case, deps.gen_db = build, gen_db
    try:
        for _ in range(n):
            last.pop("text", None)
            try:
                out += depcheck.synthetic(ctx, 1, **kw)
            except Exception as e:  # noqa
                if "text" not in last:
                    raise
                ctx.violation(key, "the analysis of a synthetic kernel raises %r: %s" % (e, last["text"].replace("\n", " ; ")[:300]),
                              {"isa": last["isa"], "text": last["text"], "flagdeps": last["flagdeps"], "db": last.get("db")})
    finally:
        deps.build_case, deps.gen_db = orig_build, orig_db
    return out
