"""Dependency-graph cases (C03-C06, C14): synthetic ISA/arch databases + assembly generator, driver of the
real pipeline (parser -> add_semantics -> KernelDG), serialisation for Model/Deps.v, independent reference
relations (architectural register families, read-after-write, concrete address semantics)."""
import copy
import os

import vlib
from pressure import flit

# ------------------------------------------------------------------ architectural register families (independent of OSACA)
X86_FAM = {}
for _i, _f in enumerate([["rax", "eax", "ax", "al", "ah"], ["rbx", "ebx", "bx", "bl", "bh"], ["rcx", "ecx", "cx", "cl", "ch"],
                         ["rdx", "edx", "dx", "dl", "dh"], ["rbp", "ebp", "bp", "bpl"], ["rsp", "esp", "sp", "spl"],
                         ["rsi", "esi", "si", "sil"], ["rdi", "edi", "di", "dil"]]):
    for _n in _f:
        X86_FAM[_n] = "g%d" % _i
for _n in range(8, 16):
    for _s in ("", "d", "w", "b"):
        X86_FAM["r%d%s" % (_n, _s)] = "g%d" % _n
for _n in range(32):
    for _p in ("xmm", "ymm", "zmm"):
        X86_FAM["%s%d" % (_p, _n)] = "v%d" % _n


def fam_x86(name):
    return X86_FAM.get(name.lower(), "?" + name.lower())


def fam_a64(prefix, name):
    p = prefix.lower()
    cls = "g" if p in "wx" else ("p" if p == "p" else "v")
    return cls + str(name).lower()


# ------------------------------------------------------------------ synthetic databases
X86_REGS = {"gpr": ["rax", "eax", "ax", "al", "rbx", "ebx", "rcx", "r8", "r8d", "r9", "rdx", "rsi"],
            "xmm": ["xmm1", "xmm2", "xmm3"], "ymm": ["ymm1", "ymm2", "ymm3"]}
A64_REGS = {"x": ["x1", "x2", "x3", "x4", "x5"], "w": ["w1", "w2", "w3"], "d": ["d1", "d2", "d3"], "q": ["q1", "q2"],
            "v": ["v1.2d", "v2.2d", "v3.2d"], "p": ["p1", "p2"]}
FLAGS = ["CF", "ZF"]
LATS = [0.0, 1.0, 1.0, 2.0, 3.0, 3.5, 4.0, 0.5]


def yaml_operand(kind, isa, src, dst):
    if kind == "mem":
        if isa == "x86":
            return "{class: memory, base: '*', offset: '*', index: '*', scale: '*', source: %s, destination: %s}" % (src, dst)
        return "{class: memory, base: '*', offset: '*', index: '*', scale: '*', pre_indexed: '*', post_indexed: '*', source: %s, destination: %s}" % (src, dst)
    if kind == "imm":
        return "{class: immediate, imd: int, source: %s, destination: %s}" % (src, dst)
    if isa == "x86":
        return "{class: register, name: %s, source: %s, destination: %s}" % (kind, src, dst)
    if kind == "v":
        return "{class: register, prefix: v, shape: d, source: %s, destination: %s}" % (src, dst)
    return "{class: register, prefix: %s, source: %s, destination: %s}" % (kind, src, dst)


def arch_operand(kind, isa):
    if kind == "mem":
        if isa == "x86":
            return "{class: memory, base: '*', offset: '*', index: '*', scale: '*'}"
        return "{class: memory, base: '*', offset: '*', index: '*', scale: '*', pre_indexed: '*', post_indexed: '*'}"
    if kind == "imm":
        return "{class: immediate, imd: int}"
    if isa == "x86":
        return "{class: register, name: %s}" % kind
    if kind == "v":
        return "{class: register, prefix: v, shape: d}"
    return "{class: register, prefix: %s}" % kind


def gen_db(rng, isa):
    """Random instruction forms with random roles.  Returns (forms, isa_yaml, arch_yaml).
    form: name, kinds, roles (list of (src,dst) or None = no ISA entry), hidden [(flag,src,dst)], idiom, lat"""
    kinds_pool = (["gpr", "gpr", "gpr", "xmm", "ymm", "mem", "imm"] if isa == "x86"
                  else ["x", "x", "w", "d", "q", "v", "p", "mem", "imm"])
    forms = []
    names = ["k%s%s" % (a, b) for a in "acdeghkmnpr" for b in "acdeghkmnpr"]
    rng.shuffle(names)
    for fi in range(rng.randint(4, 9)):
        n = rng.choice([0, 1, 2, 2, 2, 3, 3, 4])     # 0: an instruction that acts only through its hidden operands (cltq, vzeroupper, cld)
        kinds = [rng.choice(kinds_pool) for _ in range(n)]
        if kinds.count("mem") > 1:
            kinds = [k if k != "mem" or i == kinds.index("mem") else kinds_pool[0] for i, k in enumerate(kinds)]
        if isa == "aarch64" and "mem" in kinds:          # memory operand last
            kinds.remove("mem")
            kinds.append("mem")
        has_entry = rng.random() < 0.8
        roles = None
        hidden = []
        idiom = False
        if has_entry:
            roles = []
            for k in kinds:
                r = rng.random()
                if k == "imm":
                    roles.append((True, False))
                elif r < 0.4:
                    roles.append((True, False))
                elif r < 0.7:
                    roles.append((False, True))
                else:
                    roles.append((True, True))
            for f in FLAGS:
                r = rng.random()
                if r < 0.2:
                    hidden.append((f, True, False))
                elif r < 0.4:
                    hidden.append((f, False, True))
                elif r < 0.45:
                    hidden.append((f, True, True))
            regk = [k for k in kinds if k not in ("mem", "imm")]
            if len(kinds) >= 2 and len(regk) == len(kinds) and len(set(kinds)) == 1 and rng.random() < 0.35:
                idiom = True
        # split: the model has no entry for the memory form, only for the register form -- OSACA then composes register form +
        # load/store data, and a reading memory operand gets a separate load node (the load stage of critical paths)
        forms.append({"name": names[fi], "kinds": kinds, "roles": roles, "hidden": hidden, "idiom": idiom,
                      "lat": rng.choice(LATS), "split": "mem" in kinds and rng.random() < 0.5})
    B = lambda b: "true" if b else "false"
    isa_y = ["osaca_version: 0.3.4", "isa: \"%s\"" % isa,
             "instruction_forms:" + ("" if any(f["roles"] is not None for f in forms) else " []")]
    for f in forms:
        if f["roles"] is None:
            continue
        isa_y.append("  - name: %s" % f["name"])
        isa_y.append("    operands:" + (" []" if not f["kinds"] else ""))
        for k, (s, d) in zip(f["kinds"], f["roles"]):
            isa_y.append("      - " + yaml_operand(k, isa, B(s), B(d)))
        if f["hidden"]:
            isa_y.append("    hidden_operands:")
            for (fl, s, d) in f["hidden"]:
                isa_y.append("      - {class: flag, name: %s, source: %s, destination: %s}" % (fl, B(s), B(d)))
        if f["idiom"]:
            isa_y.append("    breaks_dependency_on_equal_operands: true")
    fwd = rng.choice([0.0, 1.5, 2.0])
    pidx = rng.choice([1.0, 0.5, 2.0])
    arch_y = ["osaca_version: 0.3.4", "micro_architecture: synthetic", "arch_code: syn", "isa: %s" % isa,
              "hidden_loads: false",
              "load_latency: {gpr: 4.0, xmm: 4.0, ymm: 4.0, zmm: 4.0, x: 4.0, w: 4.0, d: 4.0, q: 4.0, v: 4.0, p: 4.0, s: 4.0, h: 4.0, b: 4.0, z: 4.0}",
              "load_throughput: []", "load_throughput_default: [[1, '0']]",
              "store_throughput: []", "store_throughput_default: [[1, '1']]",
              "store_to_load_forward_latency: %s" % fwd]
    if isa == "aarch64":
        arch_y.append("p_index_latency: %s" % pidx)
    arch_y += ["ports: ['0', '1']", "instruction_forms:"]
    for f in forms:
        arch_y.append("  - name: %s" % f["name"])
        arch_y.append("    operands:" + (" []" if not f["kinds"] else ""))
        for k in f["kinds"]:
            if k == "mem" and f.get("split"):
                k = "gpr" if isa == "x86" else "x"
            arch_y.append("      - " + arch_operand(k, isa))
        arch_y.append("    latency: %s" % f["lat"])
        arch_y.append("    throughput: 1.0")
        arch_y.append("    port_pressure: [[1, '0']]")
        arch_y.append("    uops: 1")
    return forms, "\n".join(isa_y) + "\n", "\n".join(arch_y) + "\n", fwd, pidx


def gen_mem(rng, isa):
    """(text, info) with info = base, index, scale, disp (int/None/'sym'), pre, post(value or None)"""
    if isa == "x86":
        base = rng.choice(["rax", "rbx", "rcx", "rsi", "r8", "rip"])
        index = rng.choice([None, None, "rdx", "r9"]) if base != "rip" else None
        scale = rng.choice([1, 2, 4, 8]) if index else 1
        disp = rng.choice([None, 0, 8, 8, 16, -8, 24])
        t = ("" if disp is None else str(disp)) + "(%" + base + ((",%" + index + ("," + str(scale) if scale != 1 or rng.random() < 0.3 else "")) if index else "") + ")"
        return t, {"base": base, "index": index, "scale": scale, "disp": disp, "pre": False, "post": None}
    base = rng.choice(["x1", "x2", "x3", "x4"])
    shape = rng.choice(["b", "bo", "bo", "bi", "bis", "pre", "post"])
    info = {"base": base, "index": None, "scale": 1, "disp": None, "pre": False, "post": None}
    if shape == "b":
        return "[%s]" % base, info
    if shape == "bo":
        info["disp"] = rng.choice([0, 8, 16, -8])
        return "[%s, #%d]" % (base, info["disp"]), info
    if shape == "bi":
        info["index"] = rng.choice(["x5", "x2"])
        return "[%s, %s]" % (base, info["index"]), info
    if shape == "bis":
        info["index"] = rng.choice(["x5", "x2"])
        sh = rng.choice([1, 2, 3])
        info["scale"] = 2 ** sh
        return "[%s, %s, lsl #%d]" % (base, info["index"], sh), info
    if shape == "pre":
        info["disp"] = rng.choice([8, 16, -16])
        info["pre"] = True
        return "[%s, #%d]!" % (base, info["disp"]), info
    info["post"] = rng.choice([8, 16, -16])
    return "[%s], #%d" % (base, info["post"]), info


def gen_kernel(rng, isa, forms, n=None):
    """list of (text, form, operand infos)"""
    pool = X86_REGS if isa == "x86" else A64_REGS
    n = n or rng.choice([2, 3, 4, 5, 6, 8, 10, 14])
    lines = []
    last_mem = None
    for _ in range(n):
        f = rng.choice(forms)
        ops = []
        infos = []
        same = f["idiom"] and rng.random() < 0.5
        first = None
        for k in f["kinds"]:
            if k == "mem":
                if last_mem is not None and not last_mem[1]["pre"] and last_mem[1]["post"] is None and rng.random() < 0.4:
                    # the very same location again: store -> reload links, read-modify-write followed by a reload
                    t, info = last_mem[0], dict(last_mem[1])
                else:
                    t, info = gen_mem(rng, isa)
                last_mem = (t, info)
                ops.append(t)
                infos.append(("mem", info))
            elif k == "imm":
                v = rng.choice([1, 8, 16, 255])
                ops.append(("$%d" if isa == "x86" else "#%d") % v)
                infos.append(("imm", v))
            else:
                r = rng.choice(pool[k])
                if same:
                    first = first or r
                    r = first
                ops.append(("%" + r) if isa == "x86" else r)
                infos.append(("reg", r))
        lines.append(("  " + f["name"] + " " + ", ".join(ops), f, infos))
    return lines


# ------------------------------------------------------------------ pipeline
class Pipeline:
    def __init__(self, ctx, isa, isa_yaml=None, arch_yaml=None, arch=None, fresh=False):
        import models
        from osaca.semantics import MachineModel, ArchSemantics
        from osaca.parser import ParserX86ATT, ParserAArch64
        self.isa = isa
        if arch:
            self.mm, self.sem = models.load_fresh(arch) if fresh else models.load(arch)
        else:
            d = os.path.join(ctx.scratch, "syn%d" % ctx.rng.randrange(10 ** 9))
            os.makedirs(d)
            open(os.path.join(d, "isa.yml"), "w").write(isa_yaml)
            open(os.path.join(d, "arch.yml"), "w").write(arch_yaml)
            self.mm = MachineModel(path_to_yaml=os.path.join(d, "arch.yml"))
            self.sem = ArchSemantics(self.mm, path_to_yaml=os.path.join(d, "isa.yml"))
        self.parser = ParserX86ATT() if isa == "x86" else ParserAArch64()

    def analyse(self, text, flagdeps=False, reduce=False, do_lcd=True):
        from osaca.semantics import KernelDG, reduce_to_section
        kernel = self.parser.parse_file(text)
        kernel0 = self.parser.parse_file(text)          # untouched copy: operands before role assignment
        if reduce:
            kernel = reduce_to_section(kernel, self.isa)
            kernel0 = reduce_to_section(kernel0, self.isa)
        # record which ISA entry assign_src_dst applies to each line (None: default roles)
        rec = []
        sem = self.sem
        orig_assign, orig_apply = sem.assign_src_dst, sem._apply_found_ISA_data

        def assign_wrap(iform):
            rec.append(None)
            return orig_assign(iform)

        def apply_wrap(isa_data, operands):
            rec[-1] = isa_data
            return orig_apply(isa_data, operands)
        sem.assign_src_dst, sem._apply_found_ISA_data = assign_wrap, apply_wrap
        try:
            self.sem.add_semantics(kernel)
        finally:
            del sem.assign_src_dst, sem._apply_found_ISA_data
        self.last_roles_inputs = (kernel0, rec)
        dg = KernelDG(kernel, self.parser, self.mm, self.sem, -1, flagdeps) if do_lcd else None
        return kernel, dg


def ser_reg(r):
    return {"name": str(r.name), "prefix": r.prefix or "",
            "pidx": bool(r.pre_indexed or r.post_indexed or isinstance(r.post_indexed, dict))}


def serialise(kernel, sem):
    """semantic operands etc. of every line, as plain data for Model/Deps.v"""
    from osaca.parser.register import RegisterOperand
    from osaca.parser.memory import MemoryOperand
    from osaca.parser.flag import FlagOperand
    from osaca.parser.immediate import ImmediateOperand
    from osaca.semantics import INSTR_FLAGS
    mems = []

    def memkey(m):
        for i, o in enumerate(mems):
            if o == m:
                return i
        mems.append(m)
        return len(mems) - 1

    def ser(o):
        if isinstance(o, RegisterOperand):
            return ("reg", ser_reg(o))
        if isinstance(o, FlagOperand):
            return ("flag", str(o.name))
        if isinstance(o, MemoryOperand):
            off = o.offset
            if off is None:
                so = None
            elif isinstance(off, ImmediateOperand) and isinstance(off.value, int):
                so = int(off.value)
            else:
                so = "sym"
            return ("mem", {"base": ser_reg(o.base) if isinstance(o.base, RegisterOperand) else None,
                            "index": ser_reg(o.index) if isinstance(o.index, RegisterOperand) else None,
                            "scale": int(o.scale), "off": so, "pre": bool(o.pre_indexed), "post": bool(o.post_indexed),
                            "key": memkey(o)})
        return ("other", None)

    def chg(d):
        out = []
        for k, v in d.items():
            if v is None:
                out.append((k, None))
            elif isinstance(v.get("value"), int) and "name" in v:
                out.append((k, (v["name"], int(v["value"]))))
            else:
                raise ValueError("unsupported register change %r" % (v,))
        return out

    lines = []
    for inst in kernel:
        so = inst.semantic_operands
        sem_t = None
        if so is not None:
            sem_t = ([ser(o) for o in so["source"]], [ser(o) for o in so["destination"]], [ser(o) for o in so["src_dst"]])
        lat = float(inst.latency)
        lwo = lat if inst.latency_wo_load is None else float(inst.latency_wo_load)
        lines.append({"no": inst.line_number, "sem": sem_t, "lat": lat, "lat_wo": lwo,
                      "loadnode": INSTR_FLAGS.HAS_LD in inst.flags and INSTR_FLAGS.LD not in inst.flags,
                      "chg": chg(sem.get_reg_changes(inst)), "chg_post": chg(sem.get_reg_changes(inst, only_postindexed=True))})
    return lines


def serialise_roles_inputs(kernel0, rec, kernel):
    """per line: parsed operands with their ==-class, the ISA entry applied (or None), whether it is an instruction"""
    from osaca.parser.register import RegisterOperand
    from osaca.parser.memory import MemoryOperand
    from osaca.parser.flag import FlagOperand
    from osaca.parser.immediate import ImmediateOperand
    from osaca.parser.operand import Operand
    mems = []

    def memkey(m):
        for i, o in enumerate(mems):
            if o == m:
                return i
        mems.append(m)
        return len(mems) - 1
    # memory ==-classes must be numbered as in serialise(): first the lines' semantic operands in order
    for inst in kernel:
        so = inst.semantic_operands or {}
        for part in ("source", "destination", "src_dst"):
            for o in so.get(part, []):
                if isinstance(o, MemoryOperand):
                    memkey(o)

    def ser(o, real=None):
        """o: operand of the untouched parse; real: the same operand in the analysed kernel (identity for the ==-class)"""
        if isinstance(o, RegisterOperand):
            return ("reg", {"name": str(o.name), "prefix": o.prefix or "", "pidx": False})
        if isinstance(o, FlagOperand):
            return ("flag", str(o.name))
        if isinstance(o, MemoryOperand):
            off = o.offset
            so = None if off is None else (int(off.value) if isinstance(off, ImmediateOperand) and isinstance(off.value, int) else "sym")
            return ("mem", {"base": ser(o.base)[1] if isinstance(o.base, RegisterOperand) else None,
                            "index": ser(o.index)[1] if isinstance(o.index, RegisterOperand) else None,
                            "scale": int(o.scale), "off": so, "pre": bool(o.pre_indexed), "post": bool(o.post_indexed),
                            "key": memkey(real if real is not None else o)})
        return ("other", None)

    def flag(op, name):
        return bool(getattr(op, name)) if isinstance(op, Operand) else bool(op[name])
    out = []
    for i0, e, ireal in zip(kernel0, rec, kernel):
        ops = list(i0.operands or [])
        reals = list(ireal.operands or [])
        if len(reals) != len(ops):
            reals = [None] * len(ops)
        keys = []
        for i, o in enumerate(ops):
            k = i
            for j in range(i):
                if ops[j] == o:
                    k = keys[j]
                    break
            keys.append(k)
        entry = None
        if e is not None:
            entry = {"roles": [(flag(o, "source"), flag(o, "destination")) for o in e.operands],
                     "hidden": [(ser(h), (flag(h, "source"), flag(h, "destination"))) for h in (e.hidden_operands or [])],
                     "idiom": bool(e.breaks_dependency_on_equal_operands)}
        out.append({"ops": [(ser(o, r), k) for o, k, r in zip(ops, keys, reals)], "entry": entry,
                    "instr": i0.mnemonic is not None and i0.operands is not None})
    return out


def coq_roles(roles):
    B = lambda b: "true" if b else "false"
    items = []
    for r in roles:
        ops = "[" + "; ".join("(%s, %d%%nat)" % (coq_opnd(o), k) for o, k in r["ops"]) + "]"
        if r["entry"] is None:
            e = "None"
        else:
            en = r["entry"]
            e = "(Some (mkE [%s] [%s] %s))" % ("; ".join("(%s, %s)" % (B(a), B(b)) for a, b in en["roles"]),
                                               "; ".join("(%s, (%s, %s))" % (coq_opnd(h), B(a), B(b)) for h, (a, b) in en["hidden"]),
                                               B(en["idiom"]))
        items.append("(%s, %s, %s)" % (B(r["instr"]), e, ops))
    return "[" + ";\n    ".join(items) + "]"


def edges_of(dg):
    out = {}
    for u, v, w in dg.edges(data="latency"):
        isld = int(u) != u
        out[(int(u), isld, int(v))] = float(w)
    return out


# ------------------------------------------------------------------ Gallina rendering
def cs(s):
    return vlib.coq_string(s)


def coq_reg(r):
    return "(mkR %s %s %s)" % (cs(r["name"]), cs(r["prefix"]), "true" if r["pidx"] else "false")


def coq_opnd(o):
    k, v = o
    if k == "reg":
        return "(OReg %s)" % coq_reg(v)
    if k == "flag":
        return "(OFlag %s)" % cs(v)
    if k == "mem":
        off = "ONone" if v["off"] is None else ("OSym" if v["off"] == "sym" else "(OImm (%d)%%Z)" % v["off"])
        return "(OMem (mkM %s %s (%d)%%Z %s %s %s %d%%nat))" % (
            "(Some %s)" % coq_reg(v["base"]) if v["base"] else "None",
            "(Some %s)" % coq_reg(v["index"]) if v["index"] else "None",
            v["scale"], off, "true" if v["pre"] else "false", "true" if v["post"] else "false", v["key"])
    return "OOther"


def coq_changes(ch):
    return "[" + "; ".join("(%s, %s)" % (cs(k), "None" if v is None else "(Some (%s, (%d)%%Z))" % (cs(v[0]), v[1])) for k, v in ch) + "]"


def coq_line(l):
    if l["sem"] is None:
        sem = "None"
    else:
        sem = "(Some (%s, %s, %s))" % tuple("[" + "; ".join(coq_opnd(o) for o in part) + "]" for part in l["sem"])
    return "(mkL %d%%nat %s %s %s %s %s %s)" % (l["no"], sem, flit(l["lat"]), flit(l["lat_wo"]),
                                              "true" if l["loadnode"] else "false", coq_changes(l["chg"]), coq_changes(l["chg_post"]))


def coq_kernel(lines):
    return "[" + ";\n   ".join(coq_line(l) for l in lines) + "]"


def coq_edges(edges):
    return "[" + "; ".join("((%d%%nat, %s), %d%%nat, %s)" % (u, "true" if ld else "false", v, flit(w))
                           for (u, ld, v), w in sorted(edges.items())) + "]"


# ------------------------------------------------------------------ reference relations (independent)
def reads_writes(isa, form, infos, flagdeps):
    """architectural read / write sets of one generated line, from the generator's knowledge of the roles.
    returns (reads, writes, wb) as sets of family names; wb = written by address write-back"""
    fam = (lambda r: fam_x86(r)) if isa == "x86" else (lambda r: fam_a64(r[0], r[1:].split(".")[0]))
    reads, writes, wb = set(), set(), set()
    kinds = form["kinds"]
    roles = form["roles"]
    n = len(kinds)
    if roles is None:
        if n == 1:
            roles = [(True, False)]
        elif isa == "x86":
            roles = [(True, False)] * (n - 1) + [(False, True)]
        else:
            roles = [(False, True)] + [(True, False)] * (n - 1)
        hidden = []
        idiom = False
    else:
        hidden = form["hidden"]
        idiom = form["idiom"]
    regs = [v for k, v in infos if k == "reg"]
    zero = idiom and n >= 2 and len(regs) == n and len(set(regs)) == 1
    for (k, v), (s, d) in zip(infos, roles):
        if zero:
            s, d = False, True
        if k == "reg":
            if s:
                reads.add(fam(v))
            if d:
                writes.add(fam(v))
        elif k == "mem":
            if v["base"]:
                reads.add(fam(v["base"]))
            if v["index"]:
                reads.add(fam(v["index"]))
            if v["pre"] or v["post"] is not None:
                writes.add(fam(v["base"]))
                wb.add(fam(v["base"]))
    for (fl, s, d) in hidden:
        if zero:
            s, d = False, True
        if flagdeps:
            if s:
                reads.add("F" + fl)
            if d:
                writes.add("F" + fl)
    return reads, writes, wb


def reference_raw(isa, gen_lines, flagdeps):
    """set of (i, j) positions with a read-after-write register/flag dependency"""
    rw = [reads_writes(isa, f, infos, flagdeps) for _, f, infos in gen_lines]
    edges = set()
    for i, (_, wi, _) in enumerate(rw):
        for fam in wi:
            for j in range(i + 1, len(rw)):
                if fam in rw[j][0]:
                    edges.add((i, j))
                if fam in rw[j][1]:
                    break
    return edges


# ------------------------------------------------------------------ case shards for Model/Deps.v + Model/CritPath.v
SHARD_HEADER = """From Coq Require Import ZArith List Bool String PrimFloat.
From OV Require Import Model.Num Model.Pressure Model.PyString Model.RegRec Model.Deps Model.CritPath Model.Roles Gen.RegDepX86 Gen.RegDepA64.
Import ListNotations.
Open Scope string_scope.
Set Printing Width 100000. Set Printing Depth 100000.
Definition depx (a b : regop) : bool := x86_is_reg_dependend_of (mkreg (r_name a) (r_prefix a)) (mkreg (r_name b) (r_prefix b)).
Definition depa (a b : regop) : bool := a64_is_reg_dependend_of (mkreg (r_name a) (r_prefix a)) (mkreg (r_name b) (r_prefix b)).
Definition fedge := (edge (T:=float)).
Definition edge_eqb (a b : fedge) : bool := andb (same_uv a b) (f_biteq (snd a) (snd b)).
Definition edges_same (m e : list fedge) : bool :=
  andb (Nat.eqb (List.length m) (List.length e))
       (forallb (fun x => existsb (edge_eqb x) m) e).
Definition entry_eqb (a b : float * list (nat * float)) : bool :=
  andb (f_biteq (fst a) (fst b)) (pairs_eqb FNum (snd a) (snd b)).
Definition entries_same (m e : list (float * list (nat * float))) : bool :=
  andb (Nat.eqb (List.length m) (List.length e)) (forallb (fun x => existsb (entry_eqb x) m) e).
Definition reg_eqb (a b : regop) : bool := andb (andb (String.eqb (r_name a) (r_name b)) (String.eqb (r_prefix a) (r_prefix b))) (Bool.eqb (r_pidx a) (r_pidx b)).
Definition oreg_eqb (a b : option regop) : bool := match a, b with Some x, Some y => reg_eqb x y | None, None => true | _, _ => false end.
Definition offs_eqb (a b : offs) : bool := match a, b with ONone, ONone => true | OSym, OSym => true | OImm x, OImm y => Z.eqb x y | _, _ => false end.
Definition mem_eqb (a b : memop) : bool :=
  andb (andb (andb (oreg_eqb (m_base a) (m_base b)) (oreg_eqb (m_index a) (m_index b))) (andb (Z.eqb (m_scale a) (m_scale b)) (offs_eqb (m_off a) (m_off b))))
       (andb (andb (Bool.eqb (m_pre a) (m_pre b)) (Bool.eqb (m_post a) (m_post b))) (Nat.eqb (m_key a) (m_key b))).
Definition opnd_eqb (a b : opnd) : bool :=
  match a, b with OReg x, OReg y => reg_eqb x y | OFlag x, OFlag y => String.eqb x y | OMem x, OMem y => mem_eqb x y | OOther, OOther => true | _, _ => false end.
Fixpoint opnds_eqb (a b : list opnd) : bool :=
  match a, b with [], [] => true | x :: r, y :: s => andb (opnd_eqb x y) (opnds_eqb r s) | _, _ => false end.
Definition roles_eqb (a b : list opnd * list opnd * list opnd) : bool :=
  let '(s1, d1, sd1) := a in let '(s2, d2, sd2) := b in andb (opnds_eqb s1 s2) (andb (opnds_eqb d1 d2) (opnds_eqb sd1 sd2)).
Definition roles_ok (x86 : bool) (lines : list (line (T:=float))) (rs : list (bool * option isa_entry * list popnd)) : bool :=
  andb (Nat.eqb (List.length lines) (List.length rs))
       (forallb (fun p : line (T:=float) * (bool * option isa_entry * list popnd) => let '(l, (instr, e, ops)) := p in
                          match l_sem l with
                          | None => true
                          | Some sem => roles_eqb (if instr then assign_roles x86 e ops else ([], [], [])) sem
                          end) (combine lines rs)).
Record dcase := mkC { c_x86 : bool; c_lines : list (line (T:=float)); c_flags : bool; c_fwd : float; c_pidx : float;
                      c_edges : list fedge; c_cp : option (list (nat * float)); c_lcd : option (list (float * list (nat * float)));
                      c_roles : option (list (bool * option isa_entry * list popnd)) }.
Definition check (c : dcase) : bool * bool * bool * bool :=
  let dep := if c_x86 c then depx else depa in
  let g := create_dg FNum dep (c_fwd c) (c_pidx c) (c_flags c) (c_lines c) in
  let eok := edges_same g (c_edges c) in
  let cok := match c_cp c with
             | None => true
             | Some cells =>
               let lat := fun n => option_map (fun l => l_lat l) (find (fun l => Nat.eqb (l_no l) n) (c_lines c)) in
               andb (cert_ok FNum g lat true cells)
                    (f_biteq (cert_value FNum cells) (cp_opt FNum g (map (fun l => (l_no l, l_lat l)) (c_lines c))))
             end in
  let lok := match c_lcd c with
             | None => true
             | Some es => entries_same (lcd_entries FNum dep (c_fwd c) (c_pidx c) (c_flags c) (c_lines c)) es
             end in
  let rok := match c_roles c with None => true | Some rs => roles_ok (c_x86 c) (c_lines c) rs end in
  (eok, cok, lok, rok).
"""
SHARD_FOOTER = """
Definition summary :=
  let rs := map check cases in
  let idx := seq 0 (List.length rs) in
  let pick (f : bool * bool * bool * bool -> bool) := String.concat "," (map (fun p => string_of_nat (fst p)) (filter (fun p => negb (f (snd p))) (combine idx rs))) in
  pick (fun r => fst (fst (fst r))) ++ "|" ++ pick (fun r => snd (fst (fst r))) ++ "|" ++ pick (fun r => snd (fst r)) ++ "|" ++ pick (fun r => snd r) ++ "|" ++ string_of_nat (List.length rs).
Eval vm_compute in summary.
"""


def cp_cells(kernel, dg):
    """CP lines and cells as the SECOND consumer sees them: the CLI calls get_critical_path() once for the text
    report and again for the machine-readable output (and export_graph calls it too)."""
    cp = dg.get_critical_path()
    first = [(int(x.line_number), float(x.latency_cp)) for x in cp]
    cp = dg.get_critical_path()
    second = [(int(x.line_number), float(x.latency_cp)) for x in cp]
    cp_cells.last_first = first
    return second


def lcd_entries(dg):
    out = []
    for key, v in dg.get_loopcarried_dependencies().items():
        out.append((float(v["latency"]), [(int(i.line_number), float(l)) for i, l in v["dependencies"]]))
    return out


def coq_case(c):
    cp = "None" if c.get("cp") is None else "(Some [%s])" % "; ".join("(%d%%nat, %s)" % (n, flit(x)) for n, x in c["cp"])
    lcd = "None" if c.get("lcd") is None else "(Some [%s])" % "; ".join(
        "(%s, [%s])" % (flit(s), "; ".join("(%d%%nat, %s)" % (n, flit(x)) for n, x in m)) for s, m in c["lcd"])
    roles = "None" if c.get("roles") is None else "(Some %s)" % coq_roles(c["roles"])
    return "(mkC %s\n   %s\n   %s %s %s\n   %s\n   %s\n   %s\n   %s)" % (
        "true" if c["isa"] == "x86" else "false", coq_kernel(c["lines"]), "true" if c["flagdeps"] else "false",
        flit(c["fwd"]), flit(c["pidx"]), coq_edges(c["edges"]), cp, lcd, roles)


def coq_shard(cases):
    return SHARD_HEADER + "Definition cases : list dcase := [\n" + ";\n".join(coq_case(c) for c in cases) + "]." + SHARD_FOOTER


def build_case(pipe, text, flagdeps, with_lcd=True, with_cp=True, reduce=False):
    """Run the implementation on `text` and package everything the model needs + what it must reproduce."""
    kernel, dg = pipe.analyse(text, flagdeps, reduce=reduce)
    case = {"isa": pipe.isa, "text": text, "flagdeps": flagdeps,
            "fwd": float(pipe.mm.get("store_to_load_forward_latency", 0) or 0.0),
            "pidx": float(pipe.mm.get("p_index_latency", 1)),
            "lines": serialise(kernel, pipe.sem), "edges": edges_of(dg.dg)}
    k0, rec = pipe.last_roles_inputs
    if len(k0) == len(kernel) == len(rec):
        case["roles"] = serialise_roles_inputs(k0, rec, kernel)
    if with_lcd:
        case["lcd"] = lcd_entries(dg)
    if with_cp:
        case["cp"] = cp_cells(kernel, dg)
        case["cp_first_call"] = cp_cells.last_first
    return case, kernel, dg
