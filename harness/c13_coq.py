"""C13: render run_case results as Gallina terms for Model/Report.v's comparator report_agrees."""
from vlib import coq_string as cs

FLAGS = ["tp_unknown", "lt_unknown", "not_bound", "hidden_load", "is_load_instruction", "performs_load", "performs_store"]


def fl(h):
    """float.hex() string -> Coq primitive float literal"""
    if h.startswith("-"):
        return "(-%s)%%float" % h[1:]
    return "(%s)%%float" % h


def fhex(text):
    return float(text).hex()


def b(x):
    return "true" if x else "false"


def lst(items):
    return "[" + "; ".join(items) + "]"


def z(n):
    return "(%d)%%Z" % n


def opt(x, f):
    return "None" if x is None else "(Some %s)" % f(x)


def flagset(flags):
    return "(Build_flagset %s)" % " ".join(b(f in flags) for f in FLAGS)


def case_term(res):
    s, t, y, f = res["snap"], res["tok"], res["yaml"], res["facts"]
    arch = None
    if "--arch" in res["argv"]:
        arch = res["argv"][res["argv"].index("--arch") + 1].upper()
    q = "(Build_request %s %s %s %d %s %d %d %s)" % (
        opt(arch, cs), b(f["lines_given"]), b(f["marked"]), f["n_parsed"], b(f["ignore_unknown"]),
        res["counts"][0], res["counts"][1], b(res.get("first_parse_ok", True)))
    lines = lst("(Build_aline %s %s %s %s %s %s %s)" % (
        z(l["num"]), lst(fl(h) for h in l["press"]), lst(cs(p) for p in l["used"]), fl(l["tp"]), fl(l["lat_cp"]),
        flagset(l["flags"]), b(l["instr"])) for l in s["lines"])
    cp = lst("(Build_cp_entry %s %s)" % (z(n), fl(h)) for n, h in s["cp"])
    lcd = lst("(Build_lcd_entry %s %s)" % (fl(lat), lst("(%s, %s)" % (z(n), fl(h)) for n, h in deps)) for _, lat, deps in s["lcd"])
    a = "(Build_analysis %s %s %s %s %s)" % (lst(cs(p) for p in s["ports"]), lines, cp, lcd, b(s["timed_out"]))
    rows = lst("(Build_orow %s %s %s %s %s)" % (
        z(r["num"]), lst(cs(c) for c in r["cells"]), opt(r["cp"] or None, lambda c: fl(fhex(c))),
        opt(r["lcd"] or None, lambda c: fl(fhex(c))), cs(r["flags"])) for r in t["rows"])
    summ = opt(t["summary"], lambda u: "(Build_osummary %s %s %s)" % (lst(cs(c) for c in u["cells"]), fl(fhex(u["cp"])), fl(fhex(u["lcd"]))))
    olcd = lst("(Build_olcd %s %s %s)" % (z(e["first"]), cs(e["lat"]), lst(z(m) for m in e["members"])) for e in t["lcd_list"])
    ot = "(Build_otext %s %s %s %s %s %s %s %s)" % (cs((t["arch"] or "").upper()), rows, summ, opt(t["missing"], cs),
                                                    b(t["arch_warning"]), b(t["length_warning"]), b(t["lcd_warning"]), olcd)
    yl = lst("(Build_oyline %s %s %s %s %s %s)" % (z(k["num"]), lst(fl(h) for h in k["press"]), fl(k["lat_cp"]), fl(k["lat_lcd"]),
                                                   flagset(k["flags"]), fl(k["tp"])) for k in y["kernel"])
    oy = "(Build_oyaml %s %s %s %s %s)" % (lst(cs(w) for w in y["warnings"]), yl, lst(fl(h) for h in y["summary"]["press"]),
                                           fl(y["summary"]["cp"]), fl(y["summary"]["lcd"]))
    return "(%s,\n %s,\n %s,\n %s)" % (q, a, ot, oy)


HEAD = """From Coq Require Import ZArith List String Bool PrimFloat.
From OV Require Import Model.Num Model.Fmt Model.Report Model.ReportCP.
Import ListNotations.
Open Scope string_scope.
Set Printing Width 100000. Set Printing Depth 100000.
"""

TAIL = """
Definition run (c : request * analysis * otext * oyaml) : list string :=
  let '(q, a, t, y) := c in (if wf_analysis a then [] else ["wf"]) ++ (if cp_covers a then [] else ["cp-covers"]) ++ report_agrees q a t y.
Definition out : list string :=
  List.concat (map (fun p => match run (snd p) with [] => [] | l => [nat_string (fst p) ++ ":" ++ String.concat "," l] end)
              (combine (seq 0 (List.length cases)) cases)).
Eval vm_compute in (String.concat ";" out ++ "|" ++ nat_string (List.length cases)).
"""


def shard_text(results):
    defs = ["Definition c%d := %s." % (i, case_term(r)) for i, r in enumerate(results)]
    return HEAD + "\n".join(defs) + "\nDefinition cases := [%s].\n" % "; ".join("c%d" % i for i in range(len(results))) + TAIL


# ------------------------------------------------------------------ fmt_fixed vs CPython
def fmt_shard(doubles):
    """doubles: list of (digits, float).  Coq prints the indices where fmt_fixed differs from CPython's format."""
    items = lst("(%d%%nat, %s, %s)" % (n, fl(x.hex()), cs("{:.{}f}".format(x, n))) for n, x in doubles)
    return HEAD + """Definition cases : list (nat * float * string) := %s.
Definition bad := bad_at (fun (c : nat * float * string) (_ : unit) => let '(n, x, s) := c in
     andb (String.eqb (fmt_fixed n x) s)
          (match read_decimal s, f_decode x with
           | Some d, FD_fin sg num den => andb (Z.eqb (d_units d) (fmt_units n num den)) (andb (Nat.eqb (d_scale d) n) (Bool.eqb (d_neg d) sg))
           | _, _ => false end)) 0 cases (map (fun _ => tt) cases).
Eval vm_compute in (String.concat "," (map nat_string bad) ++ "|" ++ nat_string (List.length cases)).
""" % items
